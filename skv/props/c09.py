"""C09 - shape functions: delivered derivatives are true derivatives,
nodality, partition of unity, duality of the lowest-order H(div)/H(curl)
functionals, mapping (Piola) rules, exhaustive local index chains."""
from __future__ import annotations

from itertools import product as iprod

import ast
from fractions import Fraction
from typing import Any, Dict, List, Tuple

from ..elements import (COORDS, ElementInfo, approx_eq, as_poly, eq, grad,
                        load_elements, load_refdoms, pdiff, subs_point)
from ..interp import (Arr, Interp, Obj, PyFunc, Raised, Unsupported, PTS)
from ..model import AnalysisError, Model, src
from ..poly import Poly, Rat, integrate_interval, is_scalar

PID = "C09"
LEVEL = "proof"
TECHNIQUE = ("lbasis bodies translated to exact polynomials over Q (ast -> "
             "normal form); derivative / nodality / partition-of-unity / "
             "duality identities decided by polynomial identity; einsum "
             "signatures of the Piola maps canonicalised and compared")
LEVEL_TEXT = (
    "Proof over a finite obligation set for every element class whose local "
    "basis is written as closed-form polynomials (44 classes, 277 local "
    "functions today): each obligation is an identity between polynomial "
    "normal forms computed from the source, which decides it at every point "
    "of the cell at once - something point sampling with tolerance 1e-3 "
    "cannot do. The mapping rules are decided as index-contraction "
    "signatures. Elements built at run time (ElementGlobal family, "
    "Legendre-based, skeleton masks) are listed as not analysed.")
LEVEL_TEXT += (
    " Added in the hunting round (defects found by independent agents "
    "on the unchanged tree, DESIGN.md 9.4 / 9.6): "
    "every gbasis contracting local basis functions with einsum makes "
    "the subscripts depend on the rank of X (or uses an ellipsis).")
LEVEL_TEXT += (
    " Added in the second hunting round (DESIGN.md 9.6): "
    "point duality of ElementTriN3 through its overridden gbasis, "
    "interpreted per index and orientation sign over linear "
    "combinations of local functions.")
LEVEL_NOTE = (
    "Assumes numpy arithmetic on arrays is the pointwise arithmetic the "
    "polynomial translation models, numpy.einsum follows its signature, and "
    "(for ElementTriBDM1 only) sqrt(3) folded through a double with "
    "tolerance 1e-11 on coefficients. Not decided: ElementGlobal and "
    "subclasses, ElementLinePp/ElementQuadP, skeleton elements, ElementTriN3's "
    "run-time index swaps in gbasis.")
EXPLANATION = ("Polynomial-identity proof of derivative/nodality/duality "
               "obligations on the translated local bases plus canonical "
               "einsum-signature comparison of the gbasis mapping rules.")
TRUSTED = ["numpy pointwise arithmetic and einsum semantics",
           "fractions.Fraction"]
ASSUMPTIONS = ["the local basis of an analysed class is the polynomial the "
               "syntax-directed translation of its lbasis body denotes"]

# Classes confirmed by reading to be nodal Lagrange-type elements: phi_i at
# doflocs_j is delta_ij and all functions sum to one.
NODAL = {
    "ElementLineP0", "ElementLineP1", "ElementLineP2", "ElementLineP1DG",
    "ElementTriP0", "ElementTriP1", "ElementTriP1DG", "ElementTriP2",
    "ElementTriCR", "ElementQuad0", "ElementQuad1", "ElementQuad1DG",
    "ElementQuad2", "ElementQuadS2", "ElementTetP0", "ElementTetP1",
    "ElementTetP2", "ElementTetCR", "ElementHex0", "ElementHex1",
    "ElementHex1DG", "ElementHex2", "ElementHexS2", "ElementWedge1",
    "ElementTetCCR", "ElementTriP3", "ElementTriP4",
}
# bubble-enriched elements: the non-interior functions alone are a partition
# of unity (the interior bubble is an extra, its DOF location is NaN)
VERTEX_POU = {"ElementLineMini", "ElementTriP1B", "ElementTetMini",
              "ElementTriP2B"}
LOWEST_HDIV = {"ElementTriRT1", "ElementQuadRT1", "ElementTetRT1",
               "ElementHexRT1"}
LOWEST_HCURL = {"ElementTriN1", "ElementQuadN1", "ElementTetN1"}


def _curl(phi: Arr, dim: int):
    if dim == 2:
        return pdiff(phi[1], "x") - pdiff(phi[0], "y")
    return Arr([pdiff(phi[2], "y") - pdiff(phi[1], "z"),
                pdiff(phi[0], "z") - pdiff(phi[2], "x"),
                pdiff(phi[1], "x") - pdiff(phi[0], "y")])


def _div(phi: Arr, dim: int):
    tot = Poly()
    for d in range(dim):
        tot = tot + pdiff(phi[d], COORDS[d])
    return tot


def _same(a, b, approx):
    if eq(a, b):
        return True
    return approx and approx_eq(a, b)


# ----------------------------------------------------------------------
def facet_param(rd, k) -> Tuple[List[Poly], Any, List[str]]:
    """Affine parametrisation of facet k of a reference cell and its
    outward measure-weighted normal N (so that flux = int phi.N ds dt over
    the parameter domain: unit interval / unit triangle / unit square)."""
    vs = [rd.p[v] for v in rd.facets[k]]
    dim = rd.dim
    o = vs[0]
    if dim == 2:
        a = [vs[1][d] - o[d] for d in range(2)]
        pt = [Poly.const(o[d]) + Poly.sym("s") * a[d] for d in range(2)]
        N = [a[1], -a[0]]
        params, dom = ["s"], "interval"
    else:
        if len(vs) == 3:
            a = [vs[1][d] - o[d] for d in range(3)]
            b = [vs[2][d] - o[d] for d in range(3)]
            dom = "triangle"
        else:   # cyclic quadrilateral face: o, a-neighbour, opposite, b-nb
            a = [vs[1][d] - o[d] for d in range(3)]
            b = [vs[3][d] - o[d] for d in range(3)]
            dom = "square"
        pt = [Poly.const(o[d]) + Poly.sym("s") * a[d] + Poly.sym("t") * b[d]
              for d in range(3)]
        N = [a[1] * b[2] - a[2] * b[1], a[2] * b[0] - a[0] * b[2],
             a[0] * b[1] - a[1] * b[0]]
        params = ["s", "t"]
    # orient outward: away from the cell centroid
    c = [sum(p[d] for p in rd.p) / len(rd.p) for d in range(dim)]
    fc = [sum(v[d] for v in vs) / len(vs) for d in range(dim)]
    if sum(N[d] * (fc[d] - c[d]) for d in range(dim)) < 0:
        N = [-x for x in N]
    return pt, N, params, dom


def _integrate(p: Poly, params, dom) -> Fraction:
    from ..poly import integrate_box, integrate_simplex
    if dom == "interval":
        return integrate_box(p, params)
    if dom == "square":
        return integrate_box(p, params)
    return integrate_simplex(p, params)


def _restrict(v, pt):
    env = {COORDS[d]: pt[d] for d in range(len(pt))}
    if isinstance(v, Arr):
        return v.map(lambda t: _restrict(t, pt))
    v = as_poly(v)
    if isinstance(v, Poly):
        return v.subs(env)
    raise Unsupported("restriction of a rational function")


# ----------------------------------------------------------------------
# R5: mapping rules

class Contraction:
    def __init__(self, ops, out, scalar):
        self.ops, self.out, self.scalar = ops, out, scalar

    def canon(self):
        """Normal form up to index renaming and operand order (operands of
        equal role are tried in every order; the least labelling wins)."""
        from itertools import permutations
        best = None
        roles = sorted({r for r, _ in self.ops})
        groups = [[o for o in self.ops if o[0] == r] for r in roles]

        def orders(gs):
            if not gs:
                yield []
                return
            for p in permutations(gs[0]):
                for rest in orders(gs[1:]):
                    yield list(p) + rest
        for ops in orders(groups):
            ren = {}
            for _, idx in ops:
                for ch in idx:
                    ren.setdefault(ch, chr(ord("a") + len(ren)))
            for ch in self.out:
                ren.setdefault(ch, chr(ord("a") + len(ren)))
            c = (tuple((r, "".join(ren[c] for c in idx)) for r, idx in ops),
                 "".join(ren[c] for c in self.out))
            if best is None or c < best:
                best = c
        return best

    def __repr__(self):
        c = self.canon()
        return ",".join(f"{r}[{i}]" for r, i in c[0]) + "->" + c[1] + \
            f" * ({self.scalar})"


ARRAY_ROLES = ("DF", "invDF", "phi", "dphi")


def _reduce_sign(p, sym="orient"):
    """orient is +-1 per cell: reduce its exponents modulo 2."""
    p = as_poly(p)
    if isinstance(p, Rat):
        # multiply numerator and denominator so that the denominator is free
        # of odd powers of the sign: 1/orient == orient
        n, d = p.n, p.d
        return Rat(_reduce_sign(n * d_sign(d, sym), sym),
                   _reduce_sign(d * d_sign(d, sym), sym))
    out: Dict = {}
    for m, c in p.t.items():
        md = dict(m)
        if sym in md:
            md[sym] %= 2
            if md[sym] == 0:
                del md[sym]
        k = tuple(sorted(md.items()))
        out[k] = out.get(k, 0) + c
    return Poly(out)


def d_sign(d: Poly, sym):
    # if every monomial of d carries an odd power of sym, multiply by sym
    if d.t and all(dict(m).get(sym, 0) % 2 == 1 for m in d.t):
        return Poly.sym(sym)
    return Poly.const(1)


def _split_operand(v):
    """operand -> (array role or None, scalar factor)."""
    v = as_poly(v)
    if isinstance(v, Poly) and len(v.t) == 1:
        (m, c), = v.t.items()
        roles = [s for s, e in m if s in ARRAY_ROLES]
        if len(roles) == 1 and dict(m)[roles[0]] == 1:
            rest = Poly({tuple((s, e) for s, e in m if s != roles[0]): c})
            return roles[0], rest
    if any(s in ARRAY_ROLES for s in (v.symbols())):
        raise Unsupported("einsum operand mixes array roles")
    return None, v


def _gbasis_fields(model: Model, cls_name: str, meshdim: int, xdim: int,
                   calls_log: list):
    """Symbolically evaluate <cls>.gbasis for a points array of ``xdim`` axes
    and return the keyword -> value dict passed to DiscreteField."""
    c = model.class_by_name(cls_name)
    fn = c.methods.get("gbasis")
    if fn is None:
        raise AnalysisError(f"{cls_name}.gbasis not found")

    class XArg:
        shape = tuple([PTS] * xdim)

    class Mapping:
        pass

    class MeshStub:
        pass
    X, mp, mesh = XArg(), Mapping(), MeshStub()
    tind = Poly.sym("tind")

    def attr_hook(interp, o, name, node):
        if o is X and name == "shape":
            return X.shape
        if o is mp:
            if name == "mesh":
                return mesh
            if name in ("DF", "invDF", "detDF"):
                def f(args, kwargs, node, name=name):
                    calls_log.append((name, args, kwargs, node))
                    return Poly.sym(name)
                return PyFunc(f)
        if o is mesh and name == "dim":
            return PyFunc(lambda a, k, n: meshdim)
        return NotImplemented

    def call_hook(interp, name, args, kwargs, node):
        if name.endswith("DiscreteField"):
            if args:
                raise Unsupported("positional DiscreteField fields")
            return {"__fields__": kwargs}
        if name == "numpy.einsum":
            sig = args[0]
            if not isinstance(sig, str) or "->" not in sig:
                raise Unsupported("einsum without explicit output")
            ins, out = sig.replace(" ", "").split("->")
            ins = ins.split(",")
            if len(ins) != len(args) - 1:
                raise Unsupported("einsum arity")
            ops, scalar = [], Poly.const(1)
            for idx, v in zip(ins, args[1:]):
                role, sc = _split_operand(v)
                scalar = scalar * sc
                if role is not None:
                    ops.append((role, idx))
                else:
                    # scalar operand: its indices must survive to the output
                    for ch in idx:
                        if ch not in out:
                            raise Unsupported("scalar operand contracted")
            return Contraction(ops, out, scalar)
        if name in ("numpy.abs", "numpy.absolute"):
            v = as_poly(args[0])
            if v == Poly.sym("detDF"):
                return Poly.sym("absdet")
            raise Unsupported("abs of a compound expression")
        return NotImplemented

    it = Interp(model, attr_hook=attr_hook, call_hook=call_hook)
    obj = Obj(c)
    obj.attrs["lbasis"] = PyFunc(lambda a, k, n: (Poly.sym("phi"),
                                                 Poly.sym("dphi")))

    def orient(a, k, n):
        calls_log.append(("orient", a, k, n))
        return Poly.sym("orient")
    obj.attrs["orient"] = PyFunc(orient)
    try:
        r = it.call(fn, [mp, X, Poly.sym("i"), tind], {}, self_obj=obj)
    except Raised as e:
        raise AnalysisError(f"{cls_name}.gbasis raises for a {xdim}-axis "
                            f"point array in dimension {meshdim}: {e.what}")
    except Unsupported as e:
        raise AnalysisError(f"{cls_name}.gbasis outside grammar: {e}")
    if not (isinstance(r, tuple) and len(r) == 1 and isinstance(r[0], dict)
            and "__fields__" in r[0]):
        raise AnalysisError(f"{cls_name}.gbasis does not return a 1-tuple of "
                            f"DiscreteField")
    return r[0]["__fields__"]


def _C(ops, out, scalar):
    return Contraction(ops, out, scalar)


def _expected(family: str, meshdim: int, xdim: int) -> Dict[str, Any]:
    """The mathematical mapping rules, written as contractions.  ``r`` is
    the index tail of the reference operand: 'l' for shared points, 'kl' for
    per-cell points."""
    r = "l" if xdim == 2 else "kl"
    o, ad, d = Poly.sym("orient"), Poly.sym("absdet"), Poly.sym("detDF")
    if family == "ElementH1":
        return {"value": Poly.sym("phi"),
                # grad_j = sum_i invDF[i, j] dphi[i]   (DF^-T)
                "grad": _C([("invDF", "ijkl"), ("dphi", "i" + r)], "jkl",
                           Poly.const(1))}
    if family == "ElementHdiv":
        return {  # contravariant Piola: DF phi / |det|, sign by orient
            "value": _C([("DF", "ijkl"), ("phi", "j" + r)], "ikl", o / ad),
            "div": Poly.sym("dphi") * o / ad}
    if family == "ElementHcurl":
        e = {"value": _C([("invDF", "ijkl"), ("phi", "i" + r)], "jkl", o)}
        if meshdim == 3:
            e["curl"] = _C([("DF", "ijkl"), ("dphi", "j" + r)], "ikl", o / d)
        else:
            e["curl"] = Poly.sym("dphi") * o / d
        return e
    if family == "ElementMatrix":
        return {"value": _C([("DF", "ijkl"), ("phi", "ja" + r),
                             ("DF", "bakl")], "ibkl",
                            Poly.const(1) / (ad * ad))}
    raise AnalysisError(f"no mapping specification for {family}")


def _check_mapping(model: Model, rep) -> None:
    R5 = "C09-R5"
    cases = [("ElementH1", 2), ("ElementHdiv", 2), ("ElementHcurl", 2),
             ("ElementHcurl", 3), ("ElementMatrix", 2)]
    for fam, md in cases:
        c = model.class_by_name(fam)
        for xdim in (2, 3):
            log: list = []
            got = _gbasis_fields(model, fam, md, xdim, log)
            want = _expected(fam, md, xdim)
            tag = f"{fam}.gbasis[dim={md},X.ndim={xdim}]"
            for field in sorted(set(want) | set(got)):
                cons = f"{tag}.{field}"
                if field not in got or got.get(field) is None:
                    rep.fail(R5, c.path, f"{fam}.gbasis", cons,
                             f"field '{field}' is not delivered",
                             c.methods["gbasis"].lineno)
                    continue
                if field not in want:
                    rep.fail(R5, c.path, f"{fam}.gbasis", cons,
                             f"unexpected field '{field}'",
                             c.methods["gbasis"].lineno)
                    continue
                g, w = got[field], want[field]
                if isinstance(w, Contraction):
                    if not isinstance(g, Contraction):
                        raise AnalysisError(f"{cons}: not an einsum")
                    okc = g.canon() == w.canon()
                    oks = _reduce_sign(as_poly(g.scalar)) == \
                        _reduce_sign(as_poly(w.scalar))
                    if okc and oks:
                        rep.ok(R5, cons, f"{g!r}")
                    else:
                        rep.fail(R5, c.path, f"{fam}.gbasis", cons,
                                 f"mapping rule is {g!r}, the family's rule "
                                 f"is {w!r}", c.methods["gbasis"].lineno)
                else:
                    if isinstance(g, Contraction):
                        raise AnalysisError(f"{cons}: unexpected einsum")
                    if _reduce_sign(as_poly(g)) == _reduce_sign(as_poly(w)):
                        rep.ok(R5, cons, f"{g}")
                    else:
                        rep.fail(R5, c.path, f"{fam}.gbasis", cons,
                                 f"delivered {g}, the family's rule is {w}",
                                 c.methods["gbasis"].lineno)
            # every Jacobian evaluator / orient call forwards (X, tind)
            for name, args, kwargs, node in log:
                cons = f"{tag}:{name}-args"
                if name == "orient":
                    good = len(args) == 3 and as_poly(args[2]) == \
                        Poly.sym("tind") and as_poly(args[1]) == Poly.sym("i")
                else:
                    good = len(args) == 2 and is_scalar(args[1]) and \
                        as_poly(args[1]) == Poly.sym("tind")
                if good:
                    rep.ok(R5, cons, "cell subset and local index forwarded")
                else:
                    rep.fail(R5, c.path, f"{fam}.gbasis", cons,
                             f"{name}(...) is not evaluated for the "
                             f"requested cell subset / local index",
                             getattr(node, "lineno", None))


# ----------------------------------------------------------------------
def _trin3_siblings(model, rep):
    """ElementTriN3 overrides gbasis and builds the mapped value / curl of
    up to three local functions (the plain one and the pair it may be
    exchanged with) from the same Piola expressions.  Cross-check of the
    siblings: after renaming the per-function suffixes, all value
    expressions are one expression and all curl expressions are one
    expression; and the orientation sign multiplies the curl exactly when
    it multiplies the value (curl(s * v) = s * curl v)."""
    import re
    R5 = "C09-R5"
    cls = model.cls("skfem.element.element_tri.element_tri_n3",
                    "ElementTriN3")
    fn = cls.methods.get("gbasis")
    if fn is None:
        raise AnalysisError("ElementTriN3.gbasis not found")
    pat = re.compile(r"^(val|curl|phi|dphi)(_\w+)?$")

    class Ren(ast.NodeTransformer):
        def visit_Name(self, n):
            m = pat.match(n.id)
            if m:
                return ast.copy_location(ast.Name(id=m.group(1) + "_#",
                                                  ctx=n.ctx), n)
            return n
    vals, curls = {}, {}
    for st in ast.walk(fn.node):
        if isinstance(st, ast.Assign) and len(st.targets) == 1 and \
                isinstance(st.targets[0], ast.Name):
            nm = st.targets[0].id
            m = re.match(r"^(val|curl)_(\w+)$", nm)
            if not m:
                continue
            # only the Piola expressions, not the masked combinations
            if any(isinstance(x, ast.Name) and (
                    x.id.startswith("mask")
                    or re.match(r"^(val|curl)_\w+$", x.id))
                    for x in ast.walk(st.value)):
                continue
            import copy
            norm = ast.unparse(Ren().visit(copy.deepcopy(st.value)))
            (vals if m.group(1) == "val" else curls)[m.group(2)] = (norm, st)
    if len(vals) < 3 or set(vals) != set(curls):
        raise AnalysisError(f"ElementTriN3.gbasis: value / curl siblings "
                            f"{sorted(vals)} / {sorted(curls)} not found")
    for kind, table in (("value", vals), ("curl", curls)):
        forms = {}
        for sfx, (norm, st) in table.items():
            forms.setdefault(norm, []).append((sfx, st))
        cons = f"ElementTriN3.gbasis:{kind}-siblings"
        if len(forms) == 1:
            rep.ok(R5, cons, f"{len(table)} sibling {kind} expressions are "
                   f"one expression: {next(iter(forms))[:60]}")
        else:
            major = max(forms.values(), key=len)
            for norm, lst in forms.items():
                if lst is major:
                    continue
                sfx, st = lst[0]
                rep.fail(R5, fn.path, "ElementTriN3.gbasis",
                         f"{cons}[{sfx}]",
                         f"{kind}_{sfx} = {ast.unparse(st.value)[:70]} "
                         f"differs from its sibling(s) "
                         f"{[s_ for s_, _ in major]}: the delivered {kind} "
                         f"of the exchanged edge function is not mapped "
                         f"like the others (e.g. the orientation sign is "
                         f"missing, so the curl is minus the curl of the "
                         f"delivered value on reversed edges)", st.lineno)
    for sfx in vals:
        vo = "orient" in vals[sfx][0]
        co = "orient" in curls[sfx][0]
        cons = f"ElementTriN3.gbasis:sign[{sfx}]"
        if vo == co:
            rep.ok(R5, cons, "orientation sign on value and curl alike")
        else:
            rep.fail(R5, fn.path, "ElementTriN3.gbasis", cons,
                     f"the orientation sign multiplies the "
                     f"{'value' if vo else 'curl'} of function '{sfx}' but "
                     f"not its {'curl' if vo else 'value'}",
                     curls[sfx][1].lineno)


# ----------------------------------------------------------------------
def _power_basis(model, rep):
    """ElementGlobal builds its local functions from a power basis whose
    derivatives are generated as strings (coefficient loops + eval).  The
    generator is interpreted for every exponent triple and derivative order
    in range and compared with the exact derivative of the monomial."""
    R7 = "C09-R7"
    cls = model.cls("skfem.element.element_global", "ElementGlobal")
    fn = cls.methods.get("_pbasis_create")
    if fn is None:
        raise AnalysisError("ElementGlobal._pbasis_create not found")
    X = [Poly.sym(v) for v in "xyz"]
    obj = Obj(cls, {})
    n = 0
    for dim, emax, dmax in ((1, 7, 6), (2, 5, 4), (3, 3, 3)):
        bad = None
        rng = range(emax + 1)
        for exps in iprod(*([rng] * dim)):
            for ds in iprod(*([range(dmax + 1)] * dim)):
                n += 1
                kw = dict(zip(("dx", "dy", "dz"), ds))
                try:
                    it = Interp(model)
                    f = it.call(fn, list(exps), kw, self_obj=obj)
                    got = it.apply(f, X[:dim], {}, fn.node)
                except Raised as e:
                    bad = bad or (exps, ds, f"raises {e.what}", None)
                    continue
                except Unsupported as e:
                    raise AnalysisError(f"_pbasis_create{exps}{ds}: {e}")
                want = Poly.const(1)
                for v, p_ in zip("xyz", exps):
                    for _ in range(p_):
                        want = want * Poly.sym(v)
                for v, d_ in zip("xyz", ds):
                    for _ in range(d_):
                        want = want.diff(v)
                if Poly.coerce(got) != want and bad is None:
                    bad = (exps, ds, Poly.coerce(got), want)
        cons = f"ElementGlobal._pbasis_create[{dim}d]"
        if bad is None:
            rep.ok(R7, cons, f"exponents 0..{emax}, derivative orders "
                   f"0..{dmax} per variable: generated term == exact "
                   f"derivative of the monomial")
        else:
            exps, ds, got, want = bad
            rep.fail(R7, fn.path, "ElementGlobal._pbasis_create", cons,
                     f"derivative orders {ds} of the monomial with exponents "
                     f"{exps}: generated {got}, exact derivative {want} - "
                     f"the delivered higher derivatives of every "
                     f"ElementGlobal element of this dimension are not "
                     f"derivatives of the delivered value", fn.lineno)
    rep.units("power-basis derivative instances", n)


def _layout_dependence(model, rep):
    """gbasis receives the local points either as (dim, npts) - the same
    points in every cell - or as (dim, ncells, npts) - facet bases,
    per-element quadrature, probes.  lbasis returns arrays of different
    rank for the two, so an einsum with *fixed* subscripts over them can
    serve only one layout.  Every gbasis that contracts the local basis
    functions with np.einsum must make the subscripts depend on the rank of
    X (len(X.shape), X.ndim, X.shape)."""
    R5 = "C09-R5"
    n = 0
    for fn in model.all_functions():
        if fn.name != "gbasis" or fn.cls is None or \
                not fn.path.startswith("skfem/element/"):
            continue
        pars = fn.params()
        if "X" not in pars:
            continue
        # names bound from self.lbasis(X, ...) (also through a local helper)
        local_fields = set()
        for x in ast.walk(fn.node):
            if isinstance(x, ast.Assign) and isinstance(x.value, ast.Call) \
                    and (src(x.value.func).endswith("lbasis")
                         or (isinstance(x.value.func, ast.Name)
                             and "lbasis" in x.value.func.id)):
                for t in x.targets:
                    local_fields |= {y.id for y in ast.walk(t)
                                     if isinstance(y, ast.Name)}
        eins = [c for c in ast.walk(fn.node) if isinstance(c, ast.Call)
                and src(c.func) in ("np.einsum", "numpy.einsum")
                and any(isinstance(a, ast.Name) and a.id in local_fields
                        for a in c.args[1:])]
        if not eins:
            continue
        n += 1
        dep = any(isinstance(x, ast.Attribute) and x.attr in ("shape",
                                                              "ndim")
                  and isinstance(x.value, ast.Name) and x.value.id == "X"
                  for x in ast.walk(fn.node))
        # subscripts with an ellipsis adapt to the rank by themselves
        generic = all(c.args and isinstance(c.args[0], ast.Constant)
                      and isinstance(c.args[0].value, str)
                      and "..." in c.args[0].value for c in eins)
        dep = dep or generic
        cons = f"{fn.cls.name}.gbasis:point-layouts"
        if dep:
            rep.ok(R5, cons, f"{len(eins)} contraction(s) of the local "
                             f"basis functions, subscripts chosen by the "
                             f"rank of X")
        else:
            rep.fail(R5, fn.path, fn.short(), cons,
                     f"'{src(eins[0])[:70]}' contracts the local basis "
                     f"functions with fixed subscripts and the method never "
                     f"looks at the rank of X: for per-cell points (dim, "
                     f"ncells, npts) - FacetBasis, InteriorFacetBasis, "
                     f"probes, interpolator - einsum raises, although the "
                     f"base class accepts both layouts", eins[0].lineno)
    if n < 3:
        raise AnalysisError(f"only {n} gbasis implementations contracting "
                            f"local basis functions found")


def run(model: Model, rep, tier: str) -> None:
    rep.rule("C09-R1", "delivered derivative field == derivative of the "
             "delivered value (grad / div / curl) as polynomial identity")
    rep.rule("C09-R2", "nodal elements: phi_i(dofloc_j) = delta_ij")
    rep.rule("C09-R3", "value-type functions sum to one identically")
    rep.rule("C09-R4", "lowest-order H(div)/H(curl): facet flux / edge "
             "circulation of phi_i over entity k is +-delta_ik; ElementTriN3: "
             "the function delivered by gbasis for index i is dual to the "
             "point functional at doflocs[i], both edge orientations")
    rep.rule("C09-R5", "gbasis applies the family's Piola map (canonical "
             "einsum signature + scalar factor), shared- and per-cell-point "
             "branches alike, for the requested cell subset")
    rep.rule("C09-R6", "local index chain covers exactly 0..N-1 and index N "
             "raises")
    rep.rule("C09-R7", "ElementGlobal power basis: every generated "
             "derivative term is the exact derivative of its monomial")
    _power_basis(model, rep)
    refdoms = load_refdoms(model)
    els = load_elements(model, refdoms)
    n_cls = n_fn = 0
    for name in sorted(els):
        e = els[name]
        if e.basis is None:
            if e.why_not and e.why_not.startswith("RAISED-EARLY"):
                _, what, k = e.why_not.split(":")
                rep.fail("C09-R6", e.cls.path, f"{name}.lbasis",
                         f"{name}:index<{e.nbfun}",
                         f"local index {k} of {e.nbfun} raises ({what}): the "
                         f"index chain does not cover the DOF counts",
                         e.lbasis_owner.methods["lbasis"].lineno
                         if e.lbasis_owner else None)
            elif e.why_not and e.why_not.startswith("outside grammar"):
                raise AnalysisError(f"{name}.lbasis: {e.why_not}")
            elif e.lbasis_owner is not None:
                rep.skip(f"{name}: {e.why_not}")
            continue
        n_cls += 1
        n_fn += len(e.basis)
        lb = e.cls.find_method("lbasis")
        path, ln = lb.path, lb.lineno
        dim = e.dim
        # R6
        if e.else_raises:
            rep.ok("C09-R6", f"{name}:chain", f"indices 0..{e.nbfun - 1} "
                   f"translate, index {e.nbfun} raises")
        else:
            rep.fail("C09-R6", path, f"{name}.lbasis", f"{name}:index={e.nbfun}",
                     f"local index {e.nbfun} (one past the last) does not "
                     f"raise", ln)
        # R1
        for i, r in enumerate(e.basis):
            phi, dphi = r[0], (r[1] if len(r) > 1 else None)
            cons = f"{name}[{i}]"
            try:
                if e.family == "h1":
                    want = Arr(grad(phi, dim))
                    got = dphi if isinstance(dphi, Arr) else Arr([dphi])
                    kind = "grad"
                elif e.family == "hdiv":
                    want, got, kind = _div(phi, dim), dphi, "div"
                elif e.family == "hcurl":
                    want, got, kind = _curl(phi, dim), dphi, "curl"
                elif e.family == "matrix":
                    if dphi is None:
                        continue
                    raise Unsupported("derivative of a matrix element")
                else:
                    raise Unsupported(f"family {e.family}")
            except Unsupported as ex:
                raise AnalysisError(f"{cons}: {ex}")
            if _same(want, got, e.approx):
                rep.ok("C09-R1", cons, f"{kind} of the value == delivered "
                       f"{kind}: {str(as_poly(got) if not isinstance(got, Arr) else got.flat())[:80]}",
                       sample=(name == "ElementTriRT1" and i == 0))
            else:
                rep.fail("C09-R1", path, f"{name}.lbasis", cons,
                         f"delivered {kind} {got!r:.120} is not the {kind} of "
                         f"the delivered value, which is {want!r:.120}", ln)
        # R2 / R3
        if name in NODAL:
            if e.doflocs is None or len(e.doflocs) != e.nbfun:
                rep.fail("C09-R2", path, name, f"{name}:doflocs",
                         f"{0 if e.doflocs is None else len(e.doflocs)} DOF "
                         f"locations for {e.nbfun} local functions",
                         e.cls.node.lineno)
            else:
                bad = []
                for i, r in enumerate(e.basis):
                    for j, pt in enumerate(e.doflocs):
                        v = subs_point(r[0], tuple(Fraction(x) for x in pt))
                        if v != (1 if i == j else 0):
                            bad.append((i, j, v))
                if not bad:
                    rep.ok("C09-R2", f"{name}:nodal",
                           f"{e.nbfun}x{e.nbfun} values at the DOF locations "
                           f"form the identity")
                else:
                    i, j, v = bad[0]
                    rep.fail("C09-R2", path, f"{name}.lbasis", f"{name}:nodal",
                             f"phi_{i} at DOF location {j} is {v}, expected "
                             f"{1 if i == j else 0} ({len(bad)} entries off)",
                             ln)
        if name in NODAL or name in VERTEX_POU:
            k = e.nbfun if name in NODAL else sum(e.block_sizes()[:3])
            tot = Poly()
            for r in e.basis[:k]:
                tot = tot + as_poly(r[0])
            if tot == Poly.const(1):
                rep.ok("C09-R3", f"{name}:pou", f"sum of the "
                       f"{'all' if name in NODAL else 'non-interior'} {k} "
                       f"functions == 1")
            else:
                rep.fail("C09-R3", path, f"{name}.lbasis", f"{name}:pou",
                         f"the value-type functions sum to {tot}, not 1", ln)
        # R4
        if name in LOWEST_HDIV or name in LOWEST_HCURL:
            _duality(rep, e, name, path, ln)
    rep.units("element classes translated", n_cls)
    rep.units("local basis functions translated", n_fn)
    if n_cls < 40 or n_fn < 250:
        raise AnalysisError(f"only {n_cls} classes / {n_fn} functions "
                            f"translated (44 / 277 confirmed by hand)")
    missing = [n for n in NODAL | VERTEX_POU | LOWEST_HDIV | LOWEST_HCURL
               if n not in els or els[n].basis is None]
    real_missing = [n for n in missing if n in els and
                    not (els[n].why_not or "").startswith("RAISED-EARLY")]
    if [n for n in missing if n not in els] or real_missing:
        raise AnalysisError(f"frozen rule instances vanished: {missing}")
    _check_mapping(model, rep)
    _trin3_siblings(model, rep)
    if "ElementTriN3" not in els or els["ElementTriN3"].basis is None:
        raise AnalysisError("ElementTriN3 not translated")
    _trin3_point_duality(model, rep, els["ElementTriN3"])
    _wrappers(model, rep)
    _layout_dependence(model, rep)
    rep.require_min("C09-R1", 240)
    rep.require_min("C09-R2", 20)
    rep.require_min("C09-R3", 28)
    rep.require_min("C09-R4", 9)
    rep.require_min("C09-R5", 30)


def _wrappers(model: Model, rep) -> None:
    """R6 (second half): wrapper elements forward every field of the
    wrapped element's basis function, for the requested arguments."""
    R6 = "C09-R6"
    # ---- ElementVector.gbasis
    cls = model.cls("skfem.element.element_vector", "ElementVector")
    fn = cls.methods["gbasis"]
    calls = []

    class Fld:
        skv_isarray = True

        def __init__(self, tag):
            self.tag = tag
            self.shape = ("S",)

        def skv_getattr(self, name):
            if name == "shape":
                return ("S", "Q")
            raise Unsupported("field." + name)

    class Tmp:
        def __init__(self, shape):
            self.shape, self.stores = shape, []

        def skv_setitem(self, ix, v):
            self.stores.append((ix, v))
    f0, f2 = Fld("value"), Fld("grad")

    def inner_gbasis(a, k, n):
        calls.append((a, k))
        return (Obj(None, {"astuple": (f0, None, f2)}),)

    def hook(interp, name, args, kwargs, node):
        if name == "numpy.zeros":
            return Tmp(args[0])
        if name.endswith("DiscreteField"):
            return ("DF", args)
        return NotImplemented
    dim = 3
    for i in (0, 4, 8):
        calls.clear()
        obj = Obj(cls, {"elem": Obj(None, {"gbasis": PyFunc(inner_gbasis)}),
                        "_dim": dim})
        try:
            r = Interp(model, call_hook=hook).call(
                fn, ["MAP", "X", i, "TIND"], {}, self_obj=obj)
        except (Unsupported, Raised) as e:
            raise AnalysisError(f"ElementVector.gbasis: {e}")
        ok = False
        detail = repr(r)[:120]
        if isinstance(r, tuple) and len(r) == 1 and r[0][0] == "DF":
            flds = r[0][1]
            ok = (len(flds) == 3 and flds[1] is None
                  and all(isinstance(flds[j], Tmp) and
                          flds[j].shape[0] == dim and
                          flds[j].stores == [(i % dim, src_)]
                          for j, src_ in ((0, f0), (2, f2)))
                  and len(calls) == 1
                  and list(calls[0][0][:3]) == ["MAP", "X", i // dim]
                  and (tuple(calls[0][0][3:]) == ("TIND",)
                       or calls[0][1].get("tind") == "TIND"))
        cons = f"ElementVector.gbasis[i={i}]"
        if ok:
            rep.ok(R6, cons, f"every field of scalar function {i // dim} is "
                   f"placed in component {i % dim} of a zero "
                   f"{dim}-vector; absent fields stay None")
        else:
            rep.fail(R6, cls.path, "ElementVector.gbasis", cons,
                     f"fields of the wrapped element are not all forwarded "
                     f"into component i % dim of function i // dim for the "
                     f"requested cells ({detail})", fn.lineno)
    # ---- ElementDG forwards everything unchanged
    dg = model.cls("skfem.element.element_dg", "ElementDG")
    for meth in ("gbasis", "lbasis"):
        f = dg.methods[meth]
        got = []
        obj = Obj(dg, {"elem": Obj(None, {meth: PyFunc(
            lambda a, k, n: got.append((a, k)) or "RESULT")})})
        try:
            r = Interp(model).call(f, ["A", "B"], {"tind": "T"},
                                   self_obj=obj)
        except (Unsupported, Raised) as e:
            raise AnalysisError(f"ElementDG.{meth}: {e}")
        ok = r == "RESULT" and got == [(["A", "B"], {"tind": "T"})]
        cons = f"ElementDG.{meth}"
        if ok:
            rep.ok(R6, cons, "arguments and result forwarded unchanged")
        else:
            rep.fail(R6, dg.path, f"ElementDG.{meth}", cons,
                     "the wrapped element is not called with the same "
                     "arguments or its result is altered", f.lineno)
    # ---- ElementComposite.gbasis: component n gets function ind, others 0
    cc = model.cls("skfem.element.element_composite", "ElementComposite")
    f = cc.methods["gbasis"]
    log = []

    def mk(k):
        def gb(a, kw, n, k=k):
            log.append((k, a))
            return (Obj(None, {"zeros": PyFunc(lambda a2, k2, n2:
                                               ("zero", k)),
                               "tag": ("fn", k, a[2])}),)
        return Obj(None, {"gbasis": PyFunc(gb)})
    elems = [mk(0), mk(1), mk(2)]
    obj = Obj(cc, {"elems": elems,
                   "_deduce_bfun": PyFunc(lambda a, k, n: (1, 5))})
    try:
        r = Interp(model).call(f, ["MAP", "X", 9, "TIND"], {}, self_obj=obj)
    except (Unsupported, Raised) as e:
        raise AnalysisError(f"ElementComposite.gbasis: {e}")
    ok = (isinstance(r, tuple) and len(r) == 3 and r[0] == ("zero", 0)
          and r[2] == ("zero", 2) and isinstance(r[1], Obj)
          and r[1].attrs.get("tag") == ("fn", 1, 5)
          and all(a[0] == "MAP" and a[1] == "X" and a[3] == "TIND"
                  for _, a in log))
    if ok:
        rep.ok(R6, "ElementComposite.gbasis",
               "component n evaluates its own function ind, every other "
               "component contributes the zero field of its own element")
    else:
        rep.fail(R6, cc.path, "ElementComposite.gbasis",
                 "ElementComposite.gbasis",
                 "the composite basis function is not (0, ..., component "
                 "n's function ind, ..., 0) with each zero taken from its "
                 "own component", f.lineno)


def _duality(rep, e: ElementInfo, name, path, ln):
    rd = e.refdom
    R4 = "C09-R4"
    if e.family == "hdiv":
        ents = list(range(rd.nfacets))
        M = []
        for i, r in enumerate(e.basis[:rd.nfacets]):
            row = []
            for k in ents:
                pt, N, params, dom = facet_param(rd, k)
                ph = _restrict(r[0], pt)
                f = Poly()
                for d in range(rd.dim):
                    f = f + as_poly(ph[d]) * N[d]
                row.append(_integrate(f, params, dom))
            M.append(row)
        what = "outward flux through facet"
    else:
        table = rd.facets if rd.dim == 2 else rd.edges
        M = []
        for i, r in enumerate(e.basis[:len(table)]):
            row = []
            for k, (a, b) in enumerate(table):
                pa, pb = rd.p[a], rd.p[b]
                pt = [Poly.const(pa[d]) + Poly.sym("s") * (pb[d] - pa[d])
                      for d in range(rd.dim)]
                ph = _restrict(r[0], pt)
                f = Poly()
                for d in range(rd.dim):
                    f = f + as_poly(ph[d]) * (pb[d] - pa[d])
                row.append(_integrate(f, ["s"], "interval"))
            M.append(row)
        what = "circulation along edge"
    # the functional must be the same on every entity: equal non-zero
    # magnitude c on the diagonal (c = 1, or 1/2 on the tetrahedron where the
    # library normalises by twice the face area), zero elsewhere
    c = abs(M[0][0])
    bad = [(i, k, M[i][k]) for i in range(len(M)) for k in range(len(M))
           if (abs(M[i][k]) != c or c == 0 if i == k else M[i][k] != 0)]
    if not bad:
        rep.ok(R4, f"{name}:duality",
               f"{what} k of phi_i = +-{c}*delta_ik; diagonal "
               f"{[str(M[i][i]) for i in range(len(M))]}", sample=True)
    else:
        i, k, v = bad[0]
        rep.fail(R4, path, f"{name}.lbasis", f"{name}:duality",
                 f"{what} {k} of phi_{i} is {v}, expected "
                 f"{'+-' + str(c) if i == k else '0'} ({len(bad)} entries "
                 f"off)", ln)


class _LC:
    """Linear combination of local functions (value or curl channel) - the
    abstract value of a mapped field on the reference cell."""
    def __init__(self, t):
        self.t = {k: v for k, v in t.items() if v != 0}

    def skv_neg(self):
        return _LC({k: -v for k, v in self.t.items()})

    def skv_getitem(self, ix):
        return self

    def skv_binop(self, op, o, swapped):
        if isinstance(o, _Sgn):
            o = o.v
        if isinstance(o, _LC):
            keys = set(self.t) | set(o.t)
            if isinstance(op, ast.Add):
                return _LC({k: self.t.get(k, 0) + o.t.get(k, 0)
                            for k in keys})
            if isinstance(op, ast.Sub):
                a, b = (o, self) if swapped else (self, o)
                return _LC({k: a.t.get(k, 0) - b.t.get(k, 0) for k in keys})
            raise Unsupported("product of two local functions")
        if isinstance(o, (int, float, Fraction)):
            o = Fraction(o)
            if isinstance(op, ast.Mult):
                return _LC({k: v * o for k, v in self.t.items()})
            if isinstance(op, ast.Div) and not swapped and o != 0:
                return _LC({k: v / o for k, v in self.t.items()})
        raise Unsupported(f"local function {type(op).__name__} "
                          f"{type(o).__name__}")


class _Sgn:
    """One concrete value of the per-cell orientation sign (or of a mask
    derived from it by a comparison)."""
    def __init__(self, v):
        self.v = Fraction(v)

    def skv_getitem(self, ix):
        return self

    def skv_neg(self):
        return _Sgn(-self.v)

    def skv_compare(self, op, o):
        import operator
        f = {ast.Gt: operator.gt, ast.Lt: operator.lt, ast.GtE: operator.ge,
             ast.LtE: operator.le, ast.Eq: operator.eq,
             ast.NotEq: operator.ne}.get(type(op))
        if f is None or not isinstance(o, (int, float, Fraction)):
            raise Unsupported("comparison of the orientation sign")
        return _Sgn(1 if f(self.v, o) else 0)

    def skv_binop(self, op, o, swapped):
        if isinstance(o, _LC):
            return o.skv_binop(op, self, not swapped)
        ov = o.v if isinstance(o, _Sgn) else o
        if not isinstance(ov, (int, float, Fraction)):
            raise Unsupported("arithmetic on the orientation sign")
        ov = Fraction(ov)
        a, b = (ov, self.v) if swapped else (self.v, ov)
        if isinstance(op, ast.Mult):
            return _Sgn(a * b)
        if isinstance(op, ast.Add):
            return _Sgn(a + b)
        if isinstance(op, ast.Sub):
            return _Sgn(a - b)
        if isinstance(op, ast.Div) and b != 0:
            return _Sgn(a / b)
        raise Unsupported("arithmetic on the orientation sign")

    def skv_getattr(self, name):
        if name == "astype":
            return PyFunc(lambda a, k, n: self)
        raise Unsupported(f"attribute {name} of the orientation sign")


def _trin3_delivered(model, i: int, sign: int):
    """ElementTriN3.gbasis interpreted on the reference cell (DF = I) for the
    concrete local index ``i`` and the concrete orientation sign: which
    combination of the local functions is delivered."""
    cls = model.cls("skfem.element.element_tri.element_tri_n3",
                    "ElementTriN3")
    fn = cls.methods.get("gbasis")
    if fn is None:
        raise AnalysisError("ElementTriN3.gbasis not found")

    class XArg:
        shape = (2, PTS)

    class Mapping:
        pass
    X, mp = XArg(), Mapping()

    def attr_hook(interp, o, name, node):
        if o is X and name == "shape":
            return X.shape
        if o is mp and name in ("invDF", "DF"):
            return PyFunc(lambda a, k, n: "<identity>")
        if o is mp and name == "detDF":
            return PyFunc(lambda a, k, n: 1)
        return NotImplemented

    def call_hook(interp, name, args, kwargs, node):
        if name.endswith("DiscreteField"):
            return {"__fields__": kwargs}
        if name == "numpy.einsum":
            ops = list(args[1:])
            lcs = [a for a in ops if isinstance(a, _LC)]
            if len(lcs) != 1 or any(not isinstance(a, (_LC, _Sgn))
                                    and a != "<identity>" for a in ops):
                raise Unsupported("einsum operands")
            out = lcs[0]
            for a in ops:
                if isinstance(a, _Sgn):
                    out = out.skv_binop(ast.Mult(), a, False)
            return out
        return NotImplemented
    it = Interp(model, attr_hook=attr_hook, call_hook=call_hook)
    obj = Obj(cls)
    obj.attrs["lbasis"] = PyFunc(lambda a, k, n: (_LC({a[1]: 1}),
                                                 _LC({a[1]: 1})))
    obj.attrs["orient"] = PyFunc(lambda a, k, n: _Sgn(sign))
    try:
        r = it.call(fn, [mp, X, i, None], {}, self_obj=obj)
    except Raised as e:
        raise AnalysisError(f"ElementTriN3.gbasis raises for i={i}: {e.what}")
    except Unsupported as e:
        raise AnalysisError(f"ElementTriN3.gbasis outside grammar: {e}")
    try:
        f = r[0]["__fields__"]
        val, curl = f["value"], f["curl"]
    except (TypeError, KeyError, IndexError):
        raise AnalysisError("ElementTriN3.gbasis does not return a "
                            "DiscreteField with value and curl")
    if not isinstance(val, _LC) or not isinstance(curl, _LC):
        raise AnalysisError("ElementTriN3.gbasis: delivered fields are not "
                            "combinations of local functions")
    return val, curl


def _trin3_point_duality(model, rep, e: ElementInfo):
    """ElementTriN3 is point-nodal: tangential component at three points of
    every edge, x / y component at interior points, the points published in
    ``doflocs``.  The overridden gbasis exchanges and negates edge functions
    depending on the orientation sign.  Decided here, exactly: the function
    *delivered* for local index i (gbasis interpreted on the reference cell
    for each concrete sign) is dual to the functional at ``doflocs[i]`` -
    in the standard orientation along first -> second vertex of the edge;
    on a reversed edge the k-th function belongs to the k-th point counted
    from the other end, with the opposite tangent (so that both neighbours
    of the edge deliver the same trace)."""
    R4 = "C09-R4"
    rd = e.refdom
    path = e.cls.path
    per = e.counts["facet_dofs"]
    nf = rd.nfacets
    nedge = per * nf
    if e.doflocs is None or len(e.doflocs) != e.nbfun or \
            e.dofnames is None:
        raise AnalysisError("ElementTriN3: doflocs / dofnames not found")
    inner = e.dofnames[per:]
    if len(inner) < e.nbfun - nedge or any(
            n not in ("u^x", "u^y") for n in inner[:e.nbfun - nedge]):
        raise AnalysisError(f"ElementTriN3: interior dofnames {inner}")

    def direction(k, sign):
        if k < nedge:
            a, b = rd.facets[k // per]
            return [sign * (rd.p[b][d] - rd.p[a][d]) for d in range(2)]
        return [1, 0] if inner[k - nedge] == "u^x" else [0, 1]

    def functional(k, sign, lc):
        pt = tuple(Fraction(x) for x in e.doflocs[k])
        t = direction(k, sign)
        tot = Fraction(0)
        for j, c in lc.t.items():
            v = subs_point(e.basis[j][0], pt)
            tot += c * sum(Fraction(v.flat()[d]) * t[d] for d in range(2))
        return tot
    gb = e.cls.find_method("gbasis")
    for sign, label in ((1, "standard"), (-1, "reversed")):
        bad = []
        for i in range(e.nbfun):
            s_i = sign if i < nedge else 1
            val, curl = _trin3_delivered(model, i, s_i)
            if val.t != curl.t:
                bad.append((i, i, f"value {val.t} and curl {curl.t} are "
                                  f"different combinations"))
                continue
            for k in range(e.nbfun):
                # the functional that local index i must be dual to
                if k < nedge and sign < 0:
                    own = (k // per == i // per and i < nedge
                           and k % per == per - 1 - i % per)
                    s_k = -1
                else:
                    own, s_k = (k == i), 1
                if sign < 0 and k < nedge and i < nedge and \
                        k // per != i // per:
                    s_k = 1   # another edge's sign is irrelevant: must be 0
                got = functional(k, s_k, val)
                if got != (1 if own else 0):
                    bad.append((i, k, got))
        cons = f"ElementTriN3:point-duality[{label}]"
        if not bad:
            rep.ok(R4, cons, f"{e.nbfun}x{e.nbfun}: the function delivered "
                   f"for index i is dual to the point functional at "
                   f"doflocs[i] ({label} edge orientation)", sample=True)
        else:
            i, k, got = bad[0]
            rep.fail(R4, path, "ElementTriN3", cons,
                     f"{label} edge orientation: the function delivered for "
                     f"local index {i} gives {got} under the functional at "
                     f"doflocs[{k}] = {tuple(str(x) for x in e.doflocs[k])} "
                     f"(expected {1 if (i == k and sign > 0) else 'delta'}); "
                     f"{len(bad)} entries off - gbasis' exchange of edge "
                     f"functions and the published DOF locations disagree",
                     gb.lineno if gb else e.cls.node.lineno)


# ----------------------------------------------------------------------
_E = "skfem/element/"
MUTANTS = [
    ("third-order Nedelec triangle contracts with the shared-points "
     "subscripts only",
     ("skfem/element/element_tri/element_tri_n3.py",
      "        subs = 'ijkl,il,k->jkl' if len(X.shape) == 2 else "
      "'ijkl,ikl,k->jkl'", "        subs = 'ijkl,il,k->jkl'"), "C09-R5"),
    ("TriN3: exchanged edge function's curl without the orientation sign",
     ("skfem/element/element_tri/element_tri_n3.py",
      "            curl_B = dphi_B / detDF * orient[:, None]",
      "            curl_B = dphi_B / detDF"), "C09-R5"),
    ("TriN3: DOF locations of the third edge listed downwards again",
     ("skfem/element/element_tri/element_tri_n3.py",
      "            [0.0, 0.25],\n            [0.0, 0.50],\n"
      "            [0.0, 0.75],\n",
      "            [0.0, 0.75],\n            [0.0, 0.50],\n"
      "            [0.0, 0.25],\n"), "C09-R4"),
    ("TriN3: third edge exchanged on reversed orientation like the others",
     ("skfem/element/element_tri/element_tri_n3.py",
      "                swap_condition = 1  # Swap if orient > 0",
      "                swap_condition = -1  # Swap if orient > 0"), "C09-R4"),
    ("TriN3: downward definition of the third edge not negated",
     ("skfem/element/element_tri/element_tri_n3.py",
      "                return -p, -dp", "                return p, dp"),
     "C09-R4"),
    ("TriN3: exchange of the first two edges dropped",
     ("skfem/element/element_tri/element_tri_n3.py",
      "            if edge_idx in [0, 1]:\n                if local_idx == 0:\n"
      "                    target_swap = i + 2",
      "            if edge_idx in [0, 1]:\n                if local_idx == 9:\n"
      "                    target_swap = i + 2"), "C09-R4"),
    ("power basis: repeated z-derivatives use a constant factor",
     ("skfem/element/element_global.py",
      "                    cz *= k - dz + l", "                    cz *= k - "
      "dz + 1"), "C09-R7"),
    ("power basis 2d: y-coefficient from the x exponent",
     ("skfem/element/element_global.py",
      "                    cy *= j - dy + l\n            return eval((\"lambda"
      " x, y: ", "                    cy *= i - dy + l\n            return "
      "eval((\"lambda x, y: "), "C09-R7"),
    ("H1: one coefficient of a gradient (ElementTriP2)",
     (_E + "element_tri/element_tri_p2.py",
      "dphi = np.array([4. * x - 1, 0. * x])",
      "dphi = np.array([4. * x + 1, 0. * x])"), "C09-R1"),
    ("H1: hexahedral gradient component sign",
     (_E + "element_hex/element_hex1.py",
      "            dphi = np.array([y * (1 - z),\n"
      "                             x * (1 - z),\n"
      "                             -x * y])",
      "            dphi = np.array([y * (1 - z),\n"
      "                             x * (1 - z),\n"
      "                             x * y])"), "C09-R1"),
    ("H(div): divergence of an RT function",
     (_E + "element_tri/element_tri_rt1.py",
      "            phi = np.array([x, y])\n            dphi = 2. + 0. * x",
      "            phi = np.array([x, y])\n            dphi = 1. + 0. * x"),
     "C09-R1"),
    ("H(div): flux duality (value shifted, divergence unchanged)",
     (_E + "element_tri/element_tri_rt1.py",
      "phi = np.array([x, y - 1.])", "phi = np.array([x, y + 1.])"),
     "C09-R4"),
    ("H(curl): value component sign (ElementTetN1)",
     (_E + "element_tet/element_tet_n1.py",
      "phi = np.array([1 - z - y, x, x])",
      "phi = np.array([1 - z - y, x, -x])"), "C09-R1"),
    ("H(curl): Nedelec 2 curl coefficient",
     (_E + "element_tri/element_tri_n2.py", "dphi = -24*y-24*x+18",
      "dphi = -24*y-24*x+16"), "C09-R1"),
    ("index chain: else branch removed (ElementTriP2)",
     (_E + "element_tri/element_tri_p2.py",
      "        else:\n            self._index_error()\n", ""), "C09-R6"),
    ("index chain: last function unreachable (ElementTetP1)",
     (_E + "element_tet/element_tet_p1.py", "elif i == 3:", "elif i == 4:"),
     "C09-R6"),
    ("mapping: gradient contracted over the wrong Jacobian index",
     (_E + "element_h1.py", "'ijkl,il->jkl'", "'ijkl,jl->ikl'"), "C09-R5"),
    ("mapping: per-cell-point branch differs from the shared-point one",
     (_E + "element_h1.py", "'ijkl,ikl->jkl'", "'ijkl,jkl->ikl'"), "C09-R5"),
    ("mapping: cell subset not forwarded to the inverse Jacobian",
     (_E + "element_h1.py", "invDF = mapping.invDF(X, tind)",
      "invDF = mapping.invDF(X)"), "C09-R5"),
    ("mapping: H(div) value loses the absolute value of the determinant",
     (_E + "element_hdiv.py",
      "value=np.einsum('ijkl,jl,kl->ikl', DF, phi,\n"
      "                                1. / np.abs(detDF) * orient[:, None]),",
      "value=np.einsum('ijkl,jl,kl->ikl', DF, phi,\n"
      "                                1. / detDF * orient[:, None]),"),
     "C09-R5"),
    ("mapping: H(curl) value uses DF instead of its inverse transpose",
     (_E + "element_hcurl.py",
      "                    value=np.einsum('ijkl,il,k->jkl', invDF, phi, "
      "orient),\n                    curl=np.einsum('ijkl,jl,kl->ikl'",
      "                    value=np.einsum('ijkl,il,k->jkl', DF, phi, "
      "orient),\n                    curl=np.einsum('ijkl,jl,kl->ikl'"),
     "C09-R5"),
    ("mapping: H(div) divergence not divided by the determinant",
     (_E + "element_hdiv.py",
      "                                1. / np.abs(detDF) * orient[:, None]),\n"
      "                div=dphi / (np.abs(detDF) * orient[:, None])\n"
      "            ),)\n        elif",
      "                                1. / np.abs(detDF) * orient[:, None]),\n"
      "                div=dphi * orient[:, None]\n"
      "            ),)\n        elif"), "C09-R5"),
    ("nodality: a DOF location moved (ElementTriP2)",
     (_E + "element_tri/element_tri_p2.py", "[.5, .5],", "[.5, .4],"),
     "C09-R2"),
    ("partition of unity: bubble-free part of MINI rescaled",
     (_E + "element_tri/element_tri_p1b.py", "phi = 1. - x - y",
      "phi = 1. - x - 2. * y"), None),
    ("vector wrapper drops the derivative fields",
     (_E + "element_vector.py",
      "        for field in self.elem.gbasis(mapping, X, ind, tind)[0]."
      "astuple:", "        for field in self.elem.gbasis(mapping, X, ind, "
      "tind)[0].astuple[:1]:"), "C09-R6"),
    ("vector wrapper evaluates the scalar function on all cells",
     (_E + "element_vector.py",
      "        for field in self.elem.gbasis(mapping, X, ind, tind)[0]."
      "astuple:", "        for field in self.elem.gbasis(mapping, X, ind)"
      "[0].astuple:"), "C09-R6"),
    ("composite: zero fields taken from the active component",
     (_E + "element_composite.py",
      "                output.append(e.gbasis(mapping, X, 0, tind)[0]."
      "zeros())", "                output.append(self.elems[n].gbasis("
      "mapping, X, 0, tind)[0].zeros())"), "C09-R6"),
    ("matrix element: Piola map applies DF only once",
     (_E + "element_matrix.py",
      "'ijkl,jal,bakl,kl->ibkl', DF, phi, DF,", "'ijkl,jal,abkl,kl->ibkl', "
      "DF, phi, DF,"), "C09-R5"),
]
TWINS = [
    ("TriN3: mask written with the other comparison",
     ("skfem/element/element_tri/element_tri_n3.py",
      "                mask = (orient < 0).astype(np.float64)",
      "                mask = (orient <= -1).astype(np.float64)")),
    ("TriN3: masked combination written as B + mask * (A - B)",
     ("skfem/element/element_tri/element_tri_n3.py",
      "            val_final = val_A * mask_val + val_B * (1.0 - mask_val)",
      "            val_final = val_B + mask_val * (val_A - val_B)")),
    ("einsum indices renamed",
     (_E + "element_h1.py", "'ijkl,il->jkl'", "'abcd,ad->bcd'")),
    ("einsum operands exchanged",
     (_E + "element_h1.py", "np.einsum('ijkl,il->jkl', invDF, dphi)",
      "np.einsum('il,ijkl->jkl', dphi, invDF)")),
    ("algebraically equal rewrite of a shape function",
     (_E + "element_tri/element_tri_p2.py", "phi = 2. * x ** 2 - x",
      "phi = x * (2. * x - 1.)")),
    ("matrix Piola map with renamed indices and exchanged DF operands",
     (_E + "element_matrix.py",
      "'ijkl,jal,bakl,kl->ibkl', DF, phi, DF,", "'bakl,jal,ijkl,kl->ibkl', "
      "DF, phi, DF,")),
    ("gradient written with explicit products",
     (_E + "element_tri/element_tri_p2.py",
      "dphi = np.array([4. * y, 4. * x])",
      "dphi = np.array([2. * y + 2. * y, x * 4.])")),
    ("H(div) divergence written as product with orient",
     (_E + "element_hdiv.py",
      "                                1. / np.abs(detDF) * orient[:, None]),\n"
      "                div=dphi / (np.abs(detDF) * orient[:, None])\n"
      "            ),)\n        elif",
      "                                1. / np.abs(detDF) * orient[:, None]),\n"
      "                div=dphi * orient[:, None] / np.abs(detDF)\n"
      "            ),)\n        elif")),
]
