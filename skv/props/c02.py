"""C02 - integration is exact for polynomial data: dx = |det| * W with the
determinant of the right kind on the right subset, default order dominates
2 * maxdeg on the reference domain of the basis kind, declared maxdeg covers
the degree of every local basis polynomial.  (The rule tables: C08.)"""
from __future__ import annotations

import ast
from fractions import Fraction
from typing import Any, Dict, List

from ..elements import as_poly, load_elements, load_refdoms
from ..interp import (Arr, Interp, Obj, PyFunc, Raised, Unsupported, Opaque)
from ..model import staged, AnalysisError, Model, src
from ..poly import Poly

PID = "C02"
LEVEL = "other"
TECHNIQUE = ("symbolic run of the CellBasis / FacetBasis constructors with "
             "recording mapping, element and quadrature stubs (which "
             "determinant, which points, which subset, absolute value, "
             "weights); the default order as a polynomial in maxdeg; degree "
             "of the translated local basis polynomials versus the declared "
             "maxdeg")
LEVEL_TEXT = (
    "Decides the structural necessary conditions of exactness: (R1) "
    "dx = |detDF(X, tind)| * W for cell bases and |detDG(X, find)| * W for "
    "facet bases, with exactly the points and subset the basis functions "
    "are evaluated for, the facet basis pulling its points back through "
    "G(X, find) and invF(., tind) of the adjacent cell and taking normals "
    "from the first neighbour; (R2) the default integration order, as a "
    "polynomial in the element's maxdeg, dominates 2*maxdeg, is requested "
    "on mesh.refdom / mesh.brefdom respectively, and is overridden by "
    "intorder= and by quadrature=; (R3) for every element whose local basis "
    "is polynomial the declared maxdeg is at least the total degree of each "
    "local function - so mass entries are integrated by a rule of "
    "sufficient degree (the rules themselves: C08). Equality of assembled "
    "numbers on concrete meshes and invariance under renumbering / motion / "
    "refinement are runtime statements and are not decided.")
LEVEL_TEXT += (
    " Added after the seeding phase: (R1) the mapping a CellBasis stores - "
    "and hands on to derived bases - is the one given or the mesh's own "
    "whole-mesh mapping, for subset and whole-mesh bases on affine and "
    "non-affine meshes.")
LEVEL_TEXT += (
    " Added in the hunting round (defects found by independent agents "
    "on the unchanged tree, DESIGN.md 9.4 / 9.6): "
    "split_bases forwards cells / facets / side like the other derived "
    "bases; the supermesh quadrature evaluates every map at points of "
    "its own reference frame.")
LEVEL_TEXT += (
    " Added in the second hunting round (DESIGN.md 9.6): "
    "the 1-D supermesh is built from its operands' nodes with a merge "
    "that is invariant under translation and change of unit "
    "(skv/invariance.py).")
LEVEL_NOTE = ("Trusted: numpy abs/broadcast_to; the quadrature rules deliver "
              "their degree (C08); determinants are those of C10.")
EXPLANATION = "Symbolic constructor runs + degree audit of local bases."
TRUSTED = ["numpy abs / broadcast_to", "C08 (rule degree)", "C10 (Jacobians)"]
ASSUMPTIONS = ["cells are non-degenerate; mirrored cells have negative "
               "determinant, which |.| must absorb"]

AB = "skfem.assembly.basis"


class Rec:
    """value returned by a recorded stub call"""
    def __init__(self, what, args, kwargs):
        self.what, self.args, self.kwargs = what, args, kwargs

    skv_isarray = True

    def __repr__(self):
        return f"{self.what}(...)"

    def skv_binop(self, op, other, reflected):
        if isinstance(op, ast.Mult):
            return T(("mul", self, other))
        raise Unsupported("arithmetic on a recorded call")

    def skv_len(self):
        return Poly.sym(f"len[{self.what}]")


class Stub:
    def __init__(self, name, log, attrs=None):
        self.name, self.log, self.attrs = name, log, attrs or {}

    def skv_getattr(self, attr):
        if attr in self.attrs:
            return self.attrs[attr]

        def call(a, k, n, attr=attr):
            r = Rec(f"{self.name}.{attr}", a, k)
            self.log.append(r)
            if attr == "_mapping":
                # the mesh's own mapping: an object with methods again
                m = Stub("mapping", self.log)
                m.origin = r
                return m
            return r
        return PyFunc(call)


class T(tuple):
    """structural term: behaves like a tuple for comparison by the rule,
    supports * and == inside the interpreted code"""
    skv_isarray = True

    def skv_binop(self, op, other, reflected):
        if isinstance(op, ast.Mult):
            return T(("mul", self, other))
        if isinstance(op, ast.Sub):
            return T(("sub", other, self) if reflected
                     else ("sub", self, other))
        if isinstance(op, ast.Pow):
            return T(("pow", other, self) if reflected
                     else ("pow", self, other))
        raise Unsupported("arithmetic on a recorded term")

    def skv_compare(self, op, other):
        name = {ast.Eq: "==", ast.NotEq: "!="}.get(type(op))
        if name is None:
            raise Unsupported("comparison on a recorded term")
        return T(("cmp", name, self, other))

    def skv_getattr(self, name):
        if name == "astype":
            return PyFunc(lambda a, k, n: self)
        raise Unsupported(f"attribute {name} of a recorded term")

    def skv_len(self):
        return Poly.sym("len")


class F2T:
    def skv_getitem(self, ix):
        return T(("f2t", ix))


def _run_basis(model: Model, clsname: str, modname: str, kwargs: Dict):
    kwargs = dict(kwargs)
    cls = model.cls(f"{AB}.{modname}", clsname)
    log: List[Rec] = []
    quad_calls = []
    refdom, brefdom = object(), object()
    W = Poly.sym("W")
    mesh = Stub("mesh", log, {"refdom": refdom, "brefdom": brefdom,
                              "nelements": Poly.sym("nelements"),
                              "f2t": F2T(), "t2f": "T2F",
                              "affine": kwargs.pop("#affine", False)})
    elem = Stub("elem", log, {"refdom": refdom, "maxdeg": Poly.sym("m"),
                              "dim": 2})
    mapping = Stub("mapping", log)

    def hook(interp, name, args, kwargs_, node):
        if name.endswith(".Dofs"):
            return Obj(None, {"element_dofs": Opaque("ed"), "N": 5})
        if name in ("numpy.abs", "numpy.absolute"):
            return T(("abs", args[0]))
        if name == "numpy.broadcast_to":
            return args[0]
        if name in ("numpy.ones", "numpy.zeros", "numpy.empty"):
            return T((name.split(".")[1], "shape"))
        if name == "numpy.nonzero":
            return [T(("nonzero", args[0]))]
        if name.endswith("DiscreteField"):
            return ("field", kwargs_ or args)
        if name.startswith("skfem.mapping.") and name.rsplit(".", 1)[-1][
                :7] == "Mapping":
            r = Rec("new " + name.rsplit(".", 1)[-1], args, kwargs_)
            log.append(r)
            return Stub("constructed-mapping", log)
        return NotImplemented

    def attr_hook(interp, o, name, node):
        if isinstance(o, Opaque) and o.tag == "ed" and name == "shape":
            return (3, 7)
        if isinstance(o, Poly) and name == "shape":
            return ("shape",)
        return NotImplemented
    it = Interp(model, call_hook=hook, attr_hook=attr_hook)

    def gq(args, kw, node):
        quad_calls.append(args)
        return (Poly.sym("X"), W)
    it.overrides["skfem.quadrature.get_quadrature"] = PyFunc(gq)
    obj = Obj(cls)
    kw = {"disable_doflocs": True, "mapping": mapping}
    kwargs = dict(kwargs)
    kw.update(kwargs)
    kw.pop("#affine", None)
    if kw.get("mapping", 0) is None:
        kw.pop("mapping")
    try:
        it.call(cls.methods["__init__"], [mesh, elem], kw, self_obj=obj)
    except Raised as e:
        raise AnalysisError(f"{clsname}.__init__ raises on the symbolic run: "
                            f"{e.what}")
    except Unsupported as e:
        raise AnalysisError(f"{clsname}.__init__ outside grammar: {e}")
    return obj, log, quad_calls, (refdom, brefdom), mesh, mapping


def _binmul_hook():
    pass


def _derived_bases(model, rep):
    """with_element / with_elements rebuild the basis: everything that
    defines *where* and *how* the original integrates - the mesh, the
    mapping, the quadrature, the cell subset or the facets and their side -
    must be handed to the constructor, only the requested item changes."""
    R1 = "C02-R1"
    cases = [
        ("cell_basis", "CellBasis", "with_element", ["E2"],
         {"mapping": "MAP", "quadrature": "QUAD", "elements": "TIND"},
         ["MESH", "E2"]),
        ("cell_basis", "CellBasis", "with_elements", ["SUB"],
         {"mapping": "MAP", "quadrature": "QUAD", "elements": "SUB"},
         ["MESH", "ELEM"]),
        ("facet_basis", "FacetBasis", "with_element", ["E2"],
         {"mapping": "MAP", "quadrature": "QUAD", "facets": "FIND",
          "side": "SIDE"}, ["MESH", "E2"]),
    ]
    for modn, clsn, meth, args, want_kw, want_pos in cases:
        cls = model.cls(f"{AB}.{modn}", clsn)
        fn = cls.methods.get(meth)
        if fn is None:
            raise AnalysisError(f"{clsn}.{meth} not found")
        built = {}

        def ctor(a, k, n):
            built["a"], built["k"] = list(a), dict(k)
            return "NEW"
        obj = Obj(cls, {"mesh": "MESH", "elem": "ELEM", "mapping": "MAP",
                        "quadrature": "QUAD", "tind": "TIND",
                        "find": "FIND", "side": "SIDE",
                        "intorder": "ORDER"})
        it = Interp(model)
        orig = it.builtin

        def builtin(f, a, k, node, orig=orig, ctor=ctor):
            if f.name == "type" and len(a) == 1:
                return PyFunc(ctor)
            return orig(f, a, k, node)
        it.builtin = builtin
        try:
            it.call(fn, list(args), {}, self_obj=obj)
        except (Unsupported, Raised) as e:
            raise AnalysisError(f"{clsn}.{meth}: {e}")
        a, k = built.get("a"), built.get("k")
        if a is None:
            raise AnalysisError(f"{clsn}.{meth}: constructor not called")
        sig = cls.methods["__init__"].params()[1:]
        bound = dict(zip(sig, a))
        bound.update(k)
        ok_pos = [bound.get("mesh"), bound.get("elem")] == want_pos
        missing = sorted(kk for kk, v in want_kw.items()
                         if bound.get(kk) != v)
        # an explicit quadrature may be replaced by intorder only if the
        # order is what defined the rule; here the stored rule is forwarded
        cons = f"{clsn}.{meth}:forwards"
        if ok_pos and not missing:
            rep.ok(R1, cons, f"rebuilt with {sorted(want_kw)} of the "
                   f"original")
        else:
            rep.fail(R1, fn.path, f"{clsn}.{meth}", cons,
                     f"the rebuilt basis does not receive "
                     f"{missing or 'the mesh / element'} of the original "
                     f"(got {bound}): it integrates over other cells / "
                     f"facets / the other side than the basis it was "
                     f"derived from", fn.lineno)


def _split_bases(model, rep):
    """split_bases (used by split / interpolate of composite and vector
    elements) builds one basis per component: each must integrate over the
    same cells / facets / side with the same rule as the basis it is a
    component of."""
    R1 = "C02-R1"
    acls = model.cls(f"{AB}.abstract_basis", "AbstractBasis")
    fn = acls.find_method("split_bases")
    if fn is None:
        raise AnalysisError("AbstractBasis.split_bases not found")
    ecomp = model.cls("skfem.element.element_composite", "ElementComposite")
    evec = model.cls("skfem.element.element_vector", "ElementVector")
    kinds = [("cell_basis", "CellBasis",
              {"mapping": "MAP", "quadrature": "QUAD", "elements": "TIND"}),
             ("facet_basis", "FacetBasis",
              {"mapping": "MAP", "quadrature": "QUAD", "facets": "FIND",
               "side": "SIDE"})]
    elems = [("composite", lambda: Obj(ecomp, {"elems": ["E0", "E1"]}),
              ["E0", "E1"]),
             ("vector", lambda: Obj(evec, {"elem": "E0", "dim": 2}),
              ["E0", "E0"])]
    for modn, clsn, want_kw in kinds:
        cls = model.cls(f"{AB}.{modn}", clsn)
        for ename, mk, want_elems in elems:
            built = []

            def ctor(a, k, n, built=built):
                built.append((list(a), dict(k)))
                return "NEW"
            obj = Obj(cls, {"mesh": "MESH", "elem": mk(), "mapping": "MAP",
                            "quadrature": "QUAD", "tind": "TIND",
                            "find": "FIND", "side": "SIDE",
                            "intorder": "ORDER"})
            it = Interp(model)
            orig = it.builtin

            def builtin(f, a, k, node, orig=orig, ctor=ctor):
                if f.name == "type" and len(a) == 1:
                    return PyFunc(ctor)
                return orig(f, a, k, node)
            it.builtin = builtin
            try:
                it.call(fn, [], {}, self_obj=obj)
            except (Unsupported, Raised) as e:
                raise AnalysisError(f"{clsn}.split_bases[{ename}]: {e}")
            sig = cls.methods["__init__"].params()[1:]
            cons = f"{clsn}.split_bases[{ename}]:forwards"
            bad = None
            if len(built) != len(want_elems):
                bad = f"{len(built)} component bases are built, " \
                      f"{len(want_elems)} expected"
            for (a, k), we in zip(built, want_elems):
                bound = dict(zip(sig, a))
                bound.update(k)
                missing = sorted(kk for kk, v in want_kw.items()
                                 if bound.get(kk) != v)
                if [bound.get("mesh"), bound.get("elem")] != ["MESH", we]:
                    bad = f"component built on {bound.get('mesh')!r} with " \
                          f"element {bound.get('elem')!r}"
                elif missing:
                    bad = (f"the component basis does not receive "
                           f"{missing} of the basis it belongs to (got "
                           f"{ {x: v for x, v in bound.items() if v is not None} })"
                           f": it integrates over all cells / all boundary "
                           f"facets / side 0")
            if bad is None:
                rep.ok(R1, cons, f"every component basis receives "
                       f"{sorted(want_kw)} of the original")
            else:
                rep.fail(R1, fn.path, "AbstractBasis.split_bases", cons,
                         bad, fn.lineno)


def _supermesh_vertices(model, rep):
    """supermeshing._intersect1d merges the vertices of the two segment
    meshes into the vertices of the supermesh.  The element-wise quadrature
    built on it is exact only if the cells of the supermesh end at the
    *breakpoints themselves*: the vertices handed to the supermesh must be
    the operands' coordinates (a position, not a rounded copy), and which
    vertices count as one must not depend on the unit of length or the
    position of the meshes.  Abstract evaluation over {position, invariant
    quantity} (skv/invariance.py)."""
    R1 = "C02-R1"
    from ..invariance import AFF, straight_line
    fn = model.func("skfem.supermeshing", "_intersect1d")
    init = {p_: (AFF if p_.startswith("p") else ("inv", 0))
            for p_ in fn.params()}
    out, env, ev = straight_line(fn.node.body, init)
    ctor = [c for c in ast.walk(fn.node) if isinstance(c, ast.Call)
            and src(c.func) == "MeshLine" and c.args
            and isinstance(c.args[0], ast.Name)]
    ret = [c for c in ctor if any(isinstance(r, ast.Return) and c in list(
        ast.walk(r)) for r in ast.walk(fn.node))]
    if not ret:
        raise AnalysisError("_intersect1d: returned supermesh not found")
    # the value of the point array at the end of the function
    v = env.get(ret[0].args[0].id, ("bad", "point array not assigned"))
    cons = "_intersect1d:supermesh-vertices"
    if v == AFF:
        rep.ok(R1, cons, "the supermesh is built from the operands' "
               "coordinates; the merge of coincident vertices is invariant "
               "under translation and change of unit")
    else:
        first = next((st for st, nm, val in out if val[0] == "bad"), None)
        rep.fail(R1, fn.path, "_intersect1d", cons,
                 f"the vertices of the 1-D supermesh are not the operands' "
                 f"coordinates up to a scale-free merge: {v[1]} - for "
                 f"meshes of size 1e-6 the breakpoints move by 3e-5 of the "
                 f"mesh size and element-wise quadrature integrates across "
                 f"them; at 1e-10 the supermesh collapses to one cell",
                 first.lineno if first is not None else fn.lineno)


def _supermesh_quadrature(model, rep):
    """supermeshing.elementwise_quadrature builds, per cell of the mesh, the
    rule of the supermesh triangles lying in it: points Y = F_mesh^-1
    (F_super(X)), weights |det DF_super(X)| / |det DF_mesh(.)| W.  The
    Jacobian of the mesh map belongs to the *pulled-back* points Y (local
    coordinates of the mesh cell), not to the reference points X of the
    supermesh triangle - the two differ unless the mesh map is affine.
    Symbolic run with point arrays typed by the reference frame they live
    in."""
    R1 = "C02-R1"
    fn = model.func("skfem.supermeshing", "elementwise_quadrature")
    log = []

    class Pts:
        skv_isarray = True

        def __init__(self, frame):
            self.frame = frame

    class Val:
        skv_isarray = True

        def skv_binop(self, op, other, reflected):
            return Val()

    def mapping(owner, ref_frame):
        def F(a, k, n):
            log.append((owner, "F", a[0].frame if isinstance(a[0], Pts)
                        else "?"))
            return Pts("global")

        def invF(a, k, n):
            log.append((owner, "invF", a[0].frame if isinstance(a[0], Pts)
                        else "?"))
            return Pts(ref_frame)

        def detDF(a, k, n):
            log.append((owner, "detDF", a[0].frame if isinstance(a[0], Pts)
                        else "?"))
            return Val()
        return Obj(None, {"F": PyFunc(F), "invF": PyFunc(invF),
                          "detDF": PyFunc(detDF)})
    mesh = Obj(None, {"mapping": PyFunc(lambda a, k, n: mapping(
        "mesh", "mesh cell"))})
    sup = Obj(None, {"elem": "SUPER-ELEM", "mapping": PyFunc(
        lambda a, k, n: mapping("supermesh", "supermesh cell"))})

    def hook(interp, name, args, kwargs, node):
        if name.endswith("get_quadrature"):
            return (Pts("supermesh cell"), Val())
        if name in ("numpy.abs", "numpy.absolute"):
            return Val()
        return NotImplemented
    try:
        it = Interp(model, call_hook=hook)
        it.overrides["skfem.quadrature.get_quadrature"] = PyFunc(
            lambda a, k, n: (Pts("supermesh cell"), Val()))
        r = it.call(fn, [mesh], {"supermesh": sup, "tind": "TIND"})
    except (Unsupported, Raised) as e:
        raise AnalysisError(f"elementwise_quadrature: {e}")
    want = {"mesh": "mesh cell", "supermesh": "supermesh cell"}
    bad = [(o, f, fr) for o, f, fr in log
           if (f in ("F", "detDF") and fr != want[o])
           or (f == "invF" and fr != "global")]
    okr = isinstance(r, tuple) and len(r) == 2 and isinstance(r[0], Pts) \
        and r[0].frame == "mesh cell"
    if not bad and okr and any(o == "mesh" and f == "detDF"
                               for o, f, _ in log):
        rep.ok(R1, "elementwise_quadrature:frames",
               "every map is evaluated at points of its own reference "
               "frame; the rule's points are local coordinates of the mesh "
               "cell")
    else:
        o, f, fr = bad[0] if bad else ("?", "?", "?")
        rep.fail(R1, fn.path, "elementwise_quadrature",
                 "elementwise_quadrature:frames",
                 f"{o}.{f} is evaluated at points of the {fr} frame"
                 f" (log {log}): the Jacobian of the mesh map has to be "
                 f"taken at the pulled-back points F_mesh^-1(F_super(X)); "
                 f"at the supermesh's reference points it is right only "
                 f"for affine mesh cells - on a trapezoid the weights give "
                 f"area 1.5732 instead of 13/8", fn.lineno)


def _boundary_basis(model, rep):
    """CellBasis.boundary(facets, intorder, quadrature): the facet basis is
    built on the same mesh / element / mapping and with the facets, order
    and rule the caller asked for."""
    R1 = "C02-R1"
    cls = model.cls(f"{AB}.cell_basis", "CellBasis")
    fn = cls.methods.get("boundary")
    if fn is None:
        raise AnalysisError("CellBasis.boundary not found")
    built = {}

    def hook(interp, name, args, kwargs, node):
        if name.endswith(".FacetBasis") or name.endswith(
                ".BoundaryFacetBasis"):
            built["a"], built["k"] = list(args), dict(kwargs)
            return "FB"
        return NotImplemented
    obj = Obj(cls, {"mesh": "MESH", "elem": "ELEM", "mapping": "MAP",
                    "tind": None, "dofs": "DOFS", "quadrature": "QSELF"})
    try:
        Interp(model, call_hook=hook).call(
            fn, [], {"facets": "F", "intorder": "K", "quadrature": "Q"},
            self_obj=obj)
    except (Unsupported, Raised) as e:
        raise AnalysisError(f"CellBasis.boundary: {e}")
    if "a" not in built:
        raise AnalysisError("CellBasis.boundary: FacetBasis not constructed")
    fcls = model.cls(f"{AB}.facet_basis", "FacetBasis")
    sig = fcls.methods["__init__"].params()[1:]
    bound = dict(zip(sig, built["a"]))
    bound.update(built["k"])
    want = {"mesh": "MESH", "elem": "ELEM", "mapping": "MAP", "facets": "F",
            "intorder": "K", "quadrature": "Q"}
    missing = sorted(k for k, v in want.items() if bound.get(k) != v)
    if not missing:
        rep.ok(R1, "CellBasis.boundary:forwards", "facets, intorder and "
               "quadrature of the call, mesh / element / mapping of the "
               "basis")
    else:
        rep.fail(R1, fn.path, "CellBasis.boundary",
                 "CellBasis.boundary:forwards",
                 f"the facet basis does not receive {missing} (got "
                 f"{ {k: v for k, v in bound.items() if v is not None} }): "
                 f"e.g. a requested integration order is silently replaced "
                 f"by the default 2*maxdeg rule on the boundary",
                 fn.lineno)
    # a basis on a subset of cells has no 'boundary': must raise
    obj2 = Obj(cls, {"mesh": "MESH", "elem": "ELEM", "mapping": "MAP",
                     "tind": "TIND", "dofs": "DOFS"})
    try:
        Interp(model, call_hook=hook).call(fn, [], {}, self_obj=obj2)
        raised = False
    except Raised:
        raised = True
    except Unsupported as e:
        raise AnalysisError(f"CellBasis.boundary(subset): {e}")
    if raised:
        rep.ok(R1, "CellBasis.boundary:subset", "a basis on a cell subset "
               "refuses to guess its boundary")
    else:
        rep.fail(R1, fn.path, "CellBasis.boundary",
                 "CellBasis.boundary:subset", "a basis restricted to a cell "
                 "subset returns the boundary of the whole mesh",
                 fn.lineno)


def _r12(model, rep):
    R1, R2 = "C02-R1", "C02-R2"
    # ---------------- CellBasis
    ccls = model.cls(f"{AB}.cell_basis", "CellBasis")
    path, line = ccls.path, ccls.methods["__init__"].lineno
    for sub in (None, "ELEMS"):
        kw = {} if sub is None else {"elements": "ELEMS"}
        obj, log, qc, (rd, brd), mesh, mp = _run_basis(
            model, "CellBasis", "cell_basis", kw)
        tag = "subset" if sub else "all"
        dx = obj.attrs.get("dx")
        tind = obj.attrs.get("tind")
        X = obj.attrs.get("X")
        det = [r for r in log if r.what == "mapping.detDF"]
        gb = [r for r in log if r.what == "elem.gbasis"]
        # dx must be ('abs', detDF rec) * W
        ok_abs = isinstance(dx, tuple) and dx[0] == "mul" and any(
            isinstance(f, tuple) and f[0] == "abs" and f[1] in det
            for f in dx[1:]) and any(f == Poly.sym("W") for f in dx[1:])
        raw = isinstance(dx, tuple) and dx[0] == "mul" and any(
            f in det for f in dx[1:])
        if ok_abs:
            rep.ok(R1, f"CellBasis.dx[{tag}]:abs", "dx = |detDF| * W")
        else:
            rep.fail(R1, path, "CellBasis.__init__", f"CellBasis.dx[{tag}]:abs",
                     ("dx multiplies the weights by the signed determinant: "
                      "mirrored cells contribute negative measure" if raw
                      else f"dx = {dx!r} is not |detDF| times the weights"),
                     line)
        d = det[0] if det else None
        ok_args = d is not None and d.args and d.args[0] is X and \
            d.kwargs.get("tind", d.args[1] if len(d.args) > 1 else None) \
            is tind and (tind is None) == (sub is None)
        if ok_args and len(det) == 1:
            rep.ok(R1, f"CellBasis.dx[{tag}]:args",
                   "determinant evaluated at the basis' quadrature points "
                   "for the basis' cell subset")
        else:
            rep.fail(R1, path, "CellBasis.__init__",
                     f"CellBasis.dx[{tag}]:args",
                     "the determinant in dx is not evaluated at (self.X, "
                     "tind=self.tind): it belongs to other cells than the "
                     "basis functions", line)
        ok_gb = len(gb) == 3 and all(
            r.args[0] is obj.attrs.get("mapping") and r.args[1] is X
            and r.kwargs.get("tind") is tind for r in gb) and \
            [r.args[2] for r in gb] == [0, 1, 2]
        if ok_gb:
            rep.ok(R1, f"CellBasis.basis[{tag}]",
                   "all Nbfun functions evaluated at (mapping, X, j, tind)")
        else:
            rep.fail(R1, path, "CellBasis.__init__", f"CellBasis.basis[{tag}]",
                     "basis functions are not evaluated for j in "
                     "range(Nbfun) at (self.mapping, self.X, tind=self.tind)",
                     line)
        if sub is None:
            ok = len(qc) == 1 and qc[0][0] is rd
            if ok:
                rep.ok(R2, "CellBasis:refdom", "rule requested on "
                       "mesh.refdom")
            else:
                rep.fail(R2, path, "CellBasis.__init__", "CellBasis:refdom",
                         "the quadrature rule is not requested on the "
                         "mesh's cell reference domain", line)
            _order_rule(rep, R2, "CellBasis", path, line, qc)
    # which mapping the basis keeps: it is handed on to derived bases
    for given in (True, False):
        for sub in (None, "ELEMS"):
            for affine in (True, False):
                kw = {"#affine": affine}
                if sub:
                    kw["elements"] = "ELEMS"
                if not given:
                    kw["mapping"] = None
                obj, log, qc, _, mesh, mp = _run_basis(
                    model, "CellBasis", "cell_basis", kw)
                got = obj.attrs.get("mapping")
                own = [r for r in log if r.what == "mesh._mapping"]
                built = [r for r in log if r.what.startswith("new ")]
                if given:
                    ok = got is mp and not built
                else:
                    ok = len(own) == 1 and getattr(got, "origin", None) \
                        is own[0] and not built
                cons = (f"CellBasis.mapping[{'given' if given else 'default'}"
                        f",{'subset' if sub else 'all'},"
                        f"{'affine' if affine else 'non-affine'} mesh]")
                if ok:
                    rep.ok(R1, cons, "the basis keeps the mapping it was "
                           "given" if given else "the basis keeps the "
                           "mesh's own whole-mesh mapping")
                else:
                    rep.fail(R1, path, "CellBasis.__init__", cons,
                             f"the basis keeps "
                             f"{built[0].what[4:] + '(' + ', '.join(k for k in built[0].kwargs) + '=...)' if built else repr(got)}"
                             f" instead of "
                             f"{'the mapping it was given' if given else 'mesh._mapping()'}"
                             f": the stored mapping is handed on to derived "
                             f"bases (with_elements, facet bases built from "
                             f"it), which then evaluate the geometry of "
                             f"other cells", line)
    # explicit overrides
    for kw, nm in (({"intorder": Poly.sym("k")}, "intorder"),
                   ({"quadrature": (Poly.sym("Xq"), Poly.sym("Wq"))},
                    "quadrature")):
        obj, log, qc, _, _, _ = _run_basis(model, "CellBasis", "cell_basis",
                                           kw)
        if nm == "intorder":
            ok = len(qc) == 1 and as_poly(qc[0][1]) == Poly.sym("k")
        else:
            ok = not qc and obj.attrs.get("X") == Poly.sym("Xq") and \
                obj.attrs.get("W") == Poly.sym("Wq")
        acls = model.cls(f"{AB}.abstract_basis", "AbstractBasis")
        if ok:
            rep.ok(R2, f"AbstractBasis:{nm}-override",
                   f"an explicit {nm}= replaces the default order")
        else:
            rep.fail(R2, acls.path, "AbstractBasis.__init__",
                     f"AbstractBasis:{nm}-override",
                     f"an explicit {nm}= does not determine the rule used",
                     acls.methods["__init__"].lineno)
    # ---------------- FacetBasis
    fcls = model.cls(f"{AB}.facet_basis", "FacetBasis")
    path, line = fcls.path, fcls.methods["__init__"].lineno
    for side in (0, 1):
        obj, log, qc, (rd, brd), mesh, mp = _run_basis(
            model, "FacetBasis", "facet_basis",
            {"facets": "FACETS", "side": side})
        find = obj.attrs.get("find")
        tind = obj.attrs.get("tind")
        tn = obj.attrs.get("tind_normals")
        X = obj.attrs.get("X")
        dx = obj.attrs.get("dx")
        tag = f"side={side}"
        det = [r for r in log if r.what == "mapping.detDG"]
        G = [r for r in log if r.what == "mapping.G"]
        invF = [r for r in log if r.what == "mapping.invF"]
        nrm = [r for r in log if r.what == "mapping.normals"]
        gb = [r for r in log if r.what == "elem.gbasis"]
        ok_find = isinstance(find, Rec) and \
            find.what == "mesh.normalize_facets"
        ok_tind = tind == ("f2t", (side, find)) and tn == ("f2t", (0, find))
        if ok_find and ok_tind:
            rep.ok(R1, f"FacetBasis.tind[{tag}]",
                   "cells = f2t[side, find]; normals from the first "
                   "neighbour f2t[0, find]")
        else:
            rep.fail(R1, path, "FacetBasis.__init__", f"FacetBasis.tind[{tag}]",
                     f"adjacent cells are {tind!r} (normals: {tn!r}); "
                     f"expected f2t[side, find] and f2t[0, find]", line)
        ok_abs = isinstance(dx, tuple) and dx[0] == "mul" and any(
            isinstance(f, tuple) and f[0] == "abs" and f[1] in det
            for f in dx[1:]) and any(f == Poly.sym("W") for f in dx[1:])
        ok_args = len(det) == 1 and det[0].args[0] is X and \
            det[0].kwargs.get("find") is find
        if ok_abs and ok_args:
            rep.ok(R1, f"FacetBasis.dx[{tag}]", "dx = |detDG(X, find)| * W")
        else:
            rep.fail(R1, path, "FacetBasis.__init__", f"FacetBasis.dx[{tag}]",
                     f"dx = {dx!r}: the surface factor must be "
                     f"|detDG(self.X, find=self.find)| times the weights",
                     line)
        okG = len(G) == 1 and G[0].args[0] is X and \
            G[0].kwargs.get("find") is find
        Y = [r for r in invF if r.kwargs.get("tind") is tind
             or (isinstance(r.kwargs.get("tind"), tuple)
                 and r.kwargs.get("tind") == tind)]
        Y0 = [r for r in invF if r.kwargs.get("tind") == tn]
        # pull-backs of the facet points; each use is checked on its own
        invF = [r for r in invF if okG and r.args and r.args[0] is G[0]]
        okY = okG and any(r.kwargs.get("tind") == tind for r in invF)
        ybasis = [r for r in invF if r.kwargs.get("tind") == tind]
        ok_gb = okY and len(gb) == 3 and all(
            r.args[1] in ybasis and r.kwargs.get("tind") == tind
            for r in gb) and [r.args[2] for r in gb] == [0, 1, 2]
        if ok_gb:
            rep.ok(R1, f"FacetBasis.basis[{tag}]",
                   "functions evaluated at invF(G(X, find), tind) of the "
                   "adjacent cell, for that cell")
        else:
            rep.fail(R1, path, "FacetBasis.__init__",
                     f"FacetBasis.basis[{tag}]",
                     "reference points of the basis functions are not "
                     "invF(G(X, find), tind) of the cell f2t[side, find] "
                     "they are evaluated for", line)
        okn = len(nrm) == 1 and len(nrm[0].args) == 4 and \
            nrm[0].args[0] in [r for r in invF
                               if r.kwargs.get("tind") == tn] and \
            nrm[0].args[1] == tn and nrm[0].args[2] is find and \
            nrm[0].args[3] == "T2F"
        if okn:
            rep.ok(R1, f"FacetBasis.normals[{tag}]",
                   "normals(invF(x, tind_normals), tind_normals, find, t2f)")
        else:
            rep.fail(R1, path, "FacetBasis.__init__",
                     f"FacetBasis.normals[{tag}]",
                     "normals are not taken from the first neighbour's cell "
                     "at the points pulled back into that cell", line)
        if side == 0:
            ok = len(qc) == 1 and qc[0][0] is brd
            if ok:
                rep.ok(R2, "FacetBasis:refdom", "rule requested on "
                       "mesh.brefdom")
            else:
                rep.fail(R2, path, "FacetBasis.__init__", "FacetBasis:refdom",
                         "the quadrature rule is not requested on the "
                         "facets' reference domain", line)
            _order_rule(rep, R2, "FacetBasis", path, line, qc)
    # default facets: boundary = second neighbour missing
    obj, log, qc, _, mesh, _ = _run_basis(model, "FacetBasis", "facet_basis",
                                          {})
    find = obj.attrs.get("find")
    ok = (isinstance(find, tuple) and find[0] == "nonzero"
          and tuple(find[1]) == ("cmp", "==", ("f2t", 1), -1))
    if ok:
        rep.ok(R1, "FacetBasis.find[default]", "boundary facets: f2t[1] == "
               "-1")
    else:
        rep.fail(R1, path, "FacetBasis.__init__", "FacetBasis.find[default]",
                 f"default facet set is {find!r}, not the facets whose "
                 f"second neighbour is missing (f2t[1] == -1)", line)


def _interior_basis(model, rep):
    R1 = "C02-R1"
    icls = model.cls(f"{AB}.interior_facet_basis", "InteriorFacetBasis")
    path, line = icls.path, icls.methods["__init__"].lineno
    for side in (0, 1):
        obj, log, qc, _, mesh, mp = _run_basis(
            model, "InteriorFacetBasis", "interior_facet_basis",
            {"side": side})
        find = obj.attrs.get("find")
        tind = obj.attrs.get("tind")
        nf = [r for r in log if r.what == "mesh.normalize_facets"]
        arg = nf[0].args[0] if nf else None
        # normalised once here and once more (idempotently) by FacetBasis
        chain_ok = all(nf[i + 1].args[0] is nf[i]
                       for i in range(len(nf) - 1))
        ok_def = (1 <= len(nf) <= 2 and isinstance(arg, tuple)
                  and arg[0] == "nonzero"
                  and tuple(arg[1]) == ("cmp", "!=", ("f2t", 1), -1)
                  and chain_ok and find is nf[-1])
        ok_side = tind == ("f2t", (side, find))
        if ok_def and ok_side:
            rep.ok(R1, f"InteriorFacetBasis[side={side}]",
                   "default facets: second neighbour present (f2t[1] != "
                   "-1); cells = f2t[side, find]")
        else:
            rep.fail(R1, path, "InteriorFacetBasis.__init__",
                     f"InteriorFacetBasis[side={side}]",
                     f"default facet set {arg!r} / adjacent cells {tind!r}: "
                     f"interior facets are those with a second neighbour "
                     f"and side {side} must evaluate in f2t[{side}, find]",
                     line)


def _order_rule(rep, rule, name, path, line, qc):
    if len(qc) != 1:
        rep.fail(rule, path, f"{name}.__init__", f"{name}:default-order",
                 "the default quadrature is not requested exactly once", line)
        return
    order = as_poly(qc[0][1])
    m = Poly.sym("m")
    diff = order - m * 2
    ok = isinstance(diff, Poly) and all(c >= 0 for c in diff.t.values()) \
        and diff.symbols() <= {"m"}
    if ok:
        rep.ok(rule, f"{name}:default-order",
               f"default order {order} (m = maxdeg) dominates 2*maxdeg: "
               f"products of two basis functions are covered", sample=True)
    else:
        rep.fail(rule, path, "AbstractBasis.__init__",
                 f"{name}:default-order",
                 f"default integration order is {order} (m = maxdeg), which "
                 f"does not dominate 2*maxdeg: mass matrix entries are "
                 f"under-integrated", line)


def _r3(model, rep):
    R3 = "C02-R3"
    els = load_elements(model, load_refdoms(model))
    n = 0
    for name in sorted(els):
        e = els[name]
        if e.basis is None or e.maxdeg is None:
            continue
        n += 1
        deg = 0
        worst = None
        for i, r in enumerate(e.basis):
            vals = r[0].flat() if isinstance(r[0], Arr) else [r[0]]
            for v in vals:
                v = as_poly(v)
                if isinstance(v, Poly) and v.total_degree() > deg:
                    deg, worst = v.total_degree(), i
        lb = e.cls.find_method("lbasis")
        if e.maxdeg >= deg:
            rep.ok(R3, f"{name}:maxdeg",
                   f"maxdeg = {e.maxdeg} >= degree {deg} of the local basis")
        else:
            rep.fail(R3, e.cls.path, name, f"{name}:maxdeg",
                     f"declared maxdeg = {e.maxdeg} but local function "
                     f"{worst} has total degree {deg}: the default "
                     f"quadrature (order 2*maxdeg) under-integrates its "
                     f"mass entries", e.cls.node.lineno)
    if n < 40:
        raise AnalysisError(f"only {n} element classes with polynomial "
                            f"local basis")


def run(model: Model, rep, tier: str) -> None:
    rep.rule("C02-R1", "dx = |det| * W with the determinant of the basis "
             "kind at the basis' points and subset; facet points pulled "
             "back through G and invF of the adjacent cell")
    rep.rule("C02-R2", "default order dominates 2*maxdeg, on refdom / "
             "brefdom; intorder= and quadrature= override it")
    rep.rule("C02-R3", "declared maxdeg >= total degree of every local "
             "basis polynomial")
    staged(lambda: _derived_bases(model, rep),
           lambda: _split_bases(model, rep),
           lambda: _supermesh_quadrature(model, rep),
           lambda: _supermesh_vertices(model, rep),
           lambda: _boundary_basis(model, rep),
           lambda: _r12(model, rep), lambda: _interior_basis(model, rep),
           lambda: _r3(model, rep))
    rep.require_min("C02-R1", 12)
    rep.require_min("C02-R2", 6)
    rep.require_min("C02-R3", 40)


_CB = "skfem/assembly/basis/cell_basis.py"
_FB = "skfem/assembly/basis/facet_basis.py"
_ABF = "skfem/assembly/basis/abstract_basis.py"
MUTANTS = [
    ("1-D supermesh built from rounded nodes",
     ("skfem/supermeshing.py",
      "    p = np.sort(np.concatenate((p1.flatten(), p2.flatten())))",
      "    p = np.sort(np.concatenate((p1.flatten().round(decimals=10), "
      "p2.flatten().round(decimals=10))))"), "C02-R1"),
    ("1-D supermesh merges nodes with an absolute tolerance",
     ("skfem/supermeshing.py",
      "np.diff(p) > 1e-10 * (p[-1] - p[0])))]", "np.diff(p) > 1e-10))]"),
     "C02-R1"),
    ("supermesh quadrature divides by the mesh Jacobian at the supermesh's "
     "reference points",
     ("skfem/supermeshing.py",
      "        np.abs(smap.detDF(X) / mmap.detDF(Y, tind=tind)) * W,",
      "        np.abs(smap.detDF(X) / mmap.detDF(X, tind=tind)) * W,"),
     "C02-R1"),
    ("component bases rebuilt without the restriction of their parent",
     ("skfem/assembly/basis/abstract_basis.py",
      "            return [self.with_element(e) for e in self.elem.elems]",
      "            return [type(self)(self.mesh, e, self.mapping,\n"
      "                               quadrature=self.quadrature)\n"
      "                    for e in self.elem.elems]"), "C02-R1"),
    ("boundary() forgets the requested integration order",
     ("skfem/assembly/basis/cell_basis.py",
      "            facets=facets,\n            intorder=intorder,\n",
      "            facets=facets,\n"), "C02-R1"),
    ("with_element forgets the cell subset",
     ("skfem/assembly/basis/cell_basis.py",
      "            quadrature=self.quadrature,\n            "
      "elements=self.tind,\n", "            quadrature=self.quadrature,\n"),
     "C02-R1"),
    ("facet with_element forgets the side again",
     ("skfem/assembly/basis/facet_basis.py",
      "            facets=self.find,\n            side=self.side,\n",
      "            facets=self.find,\n"), "C02-R1"),
    ("subset basis stores a mapping restricted to its own cells",
     ("skfem/assembly/basis/cell_basis.py",
      "            self.nelems = len(self.tind)\n",
      "            self.nelems = len(self.tind)\n"
      "            if mapping is None and mesh.affine:\n"
      "                from skfem.mapping import MappingAffine\n"
      "                self.mapping = MappingAffine(mesh, tind=self.tind)\n"),
     "C02-R1"),
    ("cell dx without the absolute value",
     (_CB, "        self.dx = (np.abs(self.mapping.detDF(self.X, "
      "tind=self.tind))\n", "        self.dx = (self.mapping.detDF(self.X, "
      "tind=self.tind)\n"), "C02-R1"),
    ("facet dx without the absolute value",
     (_FB, "        self.dx = (np.abs(self.mapping.detDG(self.X, "
      "find=self.find))\n", "        self.dx = (self.mapping.detDG(self.X, "
      "find=self.find)\n"), "C02-R1"),
    ("cell dx for all cells although a subset was requested",
     (_CB, "        self.dx = (np.abs(self.mapping.detDF(self.X, "
      "tind=self.tind))\n", "        self.dx = (np.abs(self.mapping.detDF("
      "self.X))\n"), "C02-R1"),
    ("facet dx uses the cell determinant",
     (_FB, "        self.dx = (np.abs(self.mapping.detDG(self.X, "
      "find=self.find))\n", "        self.dx = (np.abs(self.mapping.detDF("
      "self.X, tind=self.tind))\n"), "C02-R1"),
    ("facet basis evaluated for the first neighbour regardless of side",
     (_FB, "            self.tind = self.mesh.f2t[side, self.find]\n",
      "            self.tind = self.mesh.f2t[0, self.find]\n"), "C02-R1"),
    ("facet basis functions evaluated at the normals' pull-back",
     (_FB, "        self.basis = [self.elem.gbasis(self.mapping, Y, j, "
      "tind=self.tind)", "        self.basis = [self.elem.gbasis("
      "self.mapping, Y0, j, tind=self.tind)"), "C02-R1"),
    ("facet map evaluated for all facets",
     (_FB, "        x = self.mapping.G(self.X, find=self.find)\n",
      "        x = self.mapping.G(self.X)\n"), "C02-R1"),
    ("default boundary set tests the first neighbour",
     (_FB, "np.nonzero(self.mesh.f2t[1] == -1)[0]", "np.nonzero("
      "self.mesh.f2t[0] == -1)[0]"), "C02-R1"),
    ("interior facet basis forgets to forward the side",
     ("skfem/assembly/basis/interior_facet_basis.py",
      "            side=side,\n", "            side=0,\n"), "C02-R1"),
    ("weights dropped from the cell dx",
     (_CB, "                   * np.broadcast_to(self.W, (self.nelems, "
      "self.W.shape[-1])))", "                   * np.ones((self.nelems, "
      "self.W.shape[-1])))"), "C02-R1"),
    ("default order lowered to maxdeg",
     (_ABF, "intorder if intorder is not None else 2 * self.elem.maxdeg",
      "intorder if intorder is not None else self.elem.maxdeg"), "C02-R2"),
    ("default order 2*maxdeg - 1",
     (_ABF, "intorder if intorder is not None else 2 * self.elem.maxdeg",
      "intorder if intorder is not None else 2 * self.elem.maxdeg - 1"),
     "C02-R2"),
    ("explicit intorder ignored",
     (_ABF, "intorder if intorder is not None else 2 * self.elem.maxdeg",
      "2 * self.elem.maxdeg"), "C02-R2"),
    ("facet basis integrates with the cell reference domain",
     (_FB, "            quadrature,\n            mesh.brefdom,",
      "            quadrature,\n            mesh.refdom,"), "C02-R2"),
    ("ElementTriP2 declares maxdeg 1",
     ("skfem/element/element_tri/element_tri_p2.py", "    maxdeg = 2\n",
      "    maxdeg = 1\n"), "C02-R3"),
    ("ElementHex2 declares maxdeg 4",
     ("skfem/element/element_hex/element_hex2.py", "    maxdeg = 6\n",
      "    maxdeg = 4\n"), "C02-R3"),
]
TWINS = [
    ("1-D supermesh merge tolerance from np.ptp",
     ("skfem/supermeshing.py",
      "np.diff(p) > 1e-10 * (p[-1] - p[0])))]",
      "np.diff(p) > 1e-10 * np.ptp(p)))]")),
    ("default order raised to 2*maxdeg + 1",
     (_ABF, "intorder if intorder is not None else 2 * self.elem.maxdeg",
      "intorder if intorder is not None else 2 * self.elem.maxdeg + 1")),
    ("absolute value spelled np.absolute",
     (_CB, "        self.dx = (np.abs(self.mapping.detDF(self.X, "
      "tind=self.tind))\n", "        self.dx = (np.absolute("
      "self.mapping.detDF(self.X, tind=self.tind))\n")),
    ("weights multiplied first",
     (_FB, "        self.dx = (np.abs(self.mapping.detDG(self.X, "
      "find=self.find))\n                   * np.broadcast_to(self.W, "
      "(self.nelems, self.W.shape[-1])))",
      "        self.dx = (np.broadcast_to(self.W, (self.nelems, "
      "self.W.shape[-1]))\n                   * np.abs(self.mapping.detDG("
      "self.X, find=self.find)))")),
]
