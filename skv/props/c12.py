"""C12 - uniform refinement preserves domain, conformity and named regions:
tag freshness, child-layout agreement with the generic subdomain
propagation, exact audit of the child templates on the reference cell, the
'names invalidated' warning logic."""
from __future__ import annotations

import ast
from fractions import Fraction
from typing import Any, Dict, List, Optional, Tuple

from ..elements import load_refdoms, RefdomInfo
from ..interp import Interp, Obj, PyFunc, Raised, Unsupported
from ..model import AnalysisError, Model, src, walk_no_nested
from ..poly import Poly
from ..refcell import (Child, ChildList, IdxArr, NT, SZ, PointTable,
                       entity_point, inside_ref, make_hook, mesh_obj,
                       ref_volume, resolve, simplex_volume)
from ..tags import derived_meshes

PID = "C12"
LEVEL = "other"
TECHNIQUE = ("tag-freshness rule over every derived mesh (ast + def-use + "
             "escape analysis); layout rule tying each _uniform's block "
             "structure to the generic subdomain propagation; "
             "reference-cell interpretation of the child templates with "
             "exact rational geometry (count, containment, volume sum, "
             "local order, parent-facet to child-facet maps); "
             "satisfiability of the warning conditions")
LEVEL_TEXT = (
    "Decides: (R1) every mesh derived with a new connectivity sets both tag "
    "fields explicitly unless the connectivity provably keeps cell and "
    "facet indices (within-cell permutation, whole-mesh compaction, 1-D "
    "append); (R2) a _uniform that leaves the subdomains to Mesh.refined's "
    "generic propagation (children of cell k at k, k+nt, ...) builds its "
    "connectivity as whole-mesh blocks; (R3) on the reference cell every "
    "template creates 2^d non-degenerate children inside the parent whose "
    "volumes add up to the parent's, quadrilateral/hexahedral children in "
    "the reference local order, new-node indices addressing the point "
    "block of their kind, and the old-to-new facet tables of triangles and "
    "quadrilaterals name two child facets that lie on the parent facet and "
    "cover it; (R4) the two 'names invalidated' conditions are satisfiable "
    "and test the result. Validity of refined concrete meshes and repeated "
    "refinement histories are not decided (they follow from R3 + C11 for "
    "affine cells).")
LEVEL_TEXT += (
    " Added in the hunting round (defects found by independent agents "
    "on the unchanged tree, DESIGN.md 9.4 / 9.6): "
    "count-or-cells dispatch evaluated on argument kinds; delegating "
    "and periodic classes; orientation flags of carried-over boundaries "
    "and the diagonal lengths of the tetrahedral refinement (open "
    "findings).")
LEVEL_TEXT += (
    " Added in the second hunting round (DESIGN.md 9.6): "
    "a class refusing _uniform by override hands out a refinable "
    "reference mesh, and the auxiliary split mesh of refinterp / "
    "_splitref is not of the refusing class.")
LEVEL_TEXT += (
    " Added in the third round (review of the fix commits, DESIGN.md "
    "9.6): "
    "the reference mesh of a class whose element has more than vertex "
    "nodes is of a first-order class.")
LEVEL_NOTE = ("Trusted: numpy hstack/vstack/mean semantics. For sorted "
              "triangles the children's local order is modelled by the "
              "invariant that a sorted parent (v0<v1<v2) numbers its new "
              "midpoints m0 < m2 < m1 (lexicographic facet numbering).")
EXPLANATION = "Tag / layout rules + exact template audit on reference cells."
TRUSTED = ["numpy hstack/vstack/mean", "np.unique(axis=1) orders facets "
           "lexicographically by sorted vertex tuple"]
ASSUMPTIONS = ["straight-sided cells: affine/multilinear images of the "
               "reference partition are partitions"]

UNIFORM = [("skfem.mesh.mesh_tri_1", "MeshTri1", "RefTri"),
           ("skfem.mesh.mesh_quad_1", "MeshQuad1", "RefQuad"),
           ("skfem.mesh.mesh_tet_1", "MeshTet1", "RefTet"),
           ("skfem.mesh.mesh_hex_1", "MeshHex1", "RefHex")]


def tag_rule(model: Model, rep, rule: str, only=None, skip=None):
    n = 0
    for d in derived_meshes(model):
        name = d.fn.short()
        if only is not None and not only(d.fn):
            continue
        if skip is not None and skip(d.fn):
            continue
        n += 1
        for f, v in d.verdict.items():
            cons = f"{name}:replace({d.base},t=...):{f}"
            if v != "INHERITED":
                rep.ok(rule, cons, v)
            elif not d.escapes_field[f]:
                rep.ok(rule, cons, "temporary mesh: its tags never leave "
                       "the function")
            else:
                what = "boundaries" if f == "_boundaries" else "subdomains"
                rep.fail(rule, d.fn.path, name, cons,
                         f"the new mesh gets a new connectivity but "
                         f"silently inherits the named {what} of the old "
                         f"one: the index arrays then designate other "
                         f"{'facets' if f == '_boundaries' else 'cells'} "
                         f"(set {f} to the remapped tags or to None)",
                         d.call.lineno)
    return n


def _run_uniform(model: Model, modname, clsname, rd: RefdomInfo,
                 subdomains=False):
    cls = model.cls(modname, clsname)
    fn = cls.methods.get("_uniform")
    if fn is None:
        raise AnalysisError(f"{clsname}._uniform not found")
    cap: Dict[str, Any] = {}
    it = Interp(model, call_hook=make_hook(rd, cap))
    it.assume_positive = lambda p: all(s_.startswith("n[")
                                       for s_ in p.symbols())
    obj = mesh_obj(model, cls, rd)
    if subdomains:
        obj.attrs["_subdomains"] = {}
    try:
        it.call(fn, [], {}, self_obj=obj)
    except Raised as e:
        raise AnalysisError(f"{clsname}._uniform raises on the reference "
                            f"run: {e.what}")
    except Unsupported as e:
        raise AnalysisError(f"{clsname}._uniform outside grammar: {e}")
    reps = cap.get("replace", [])
    first = [kw for a, kw in reps if "t" in kw]
    if len(first) != 1:
        raise AnalysisError(f"{clsname}._uniform: one replace(..., t=...) "
                            f"expected")
    return cls, fn, first[0], cap


def _child_geometry(rep, rule, clsname, path, line, rd, kw, cap):
    t, pts = kw.get("t"), kw.get("doflocs")
    if not isinstance(t, ChildList):
        raise AnalysisError(f"{clsname}._uniform: connectivity is not an "
                            f"hstack of child blocks")
    if not isinstance(pts, PointTable):
        raise AnalysisError(f"{clsname}._uniform: point table not "
                            f"recognised")
    if cap.get("bad_mean"):
        k, f, nv = cap["bad_mean"][0]
        rep.fail(rule, path, f"{clsname}._uniform", f"{clsname}:new-points",
                 f"new {k} points are {f} times the sum of {nv} vertices, "
                 f"not their mean", line)
    variants = sorted({str(c.mask) for c in t.children if c.mask})
    groups = {None: [c for c in t.children if not c.mask]}
    for v in variants:
        groups[v] = [c for c in t.children if str(c.mask) == v]
    base = groups[None]
    ok_all = True
    if variants:
        from itertools import product as iprod
        from ..refcell import MASKS, eval_mask, mask_values
        ms = [MASKS[v] for v in variants]
        vals = {}
        for m_ in ms:
            mask_values(m_, vals)
        keys = list(vals)
        bad_assign = None
        n_assign = 0
        for ranks in iprod(range(len(keys)), repeat=len(keys)):
            n_assign += 1
            asg = dict(zip(keys, ranks))
            hits = sum(1 for m_ in ms if eval_mask(m_, asg))
            if hits != 1:
                bad_assign = (ranks, hits)
                break
        if bad_assign is None:
            rep.ok(rule, f"{clsname}:variant-masks",
                   f"the {len(ms)} variant masks are one-hot for all "
                   f"{n_assign} rank assignments of the {len(keys)} compared "
                   f"lengths (ties included): every cell gets exactly one "
                   f"variant")
        else:
            rep.fail(rule, path, f"{clsname}._uniform",
                     f"{clsname}:variant-masks",
                     f"for the ordering {bad_assign[0]} of the compared "
                     f"lengths {bad_assign[1]} variants apply: cells are "
                     f"lost or duplicated", line)
            ok_all = False
    for v in (variants or [None]):
        children = base + (groups[v] if v else [])
        tag = f"{clsname}" + (f"[{v}]" if v else "")
        want = 2 ** rd.dim
        if len(children) != want:
            rep.fail(rule, path, f"{clsname}._uniform", f"{tag}:count",
                     f"{len(children)} children per cell, expected {want}",
                     line)
            ok_all = False
            continue
        vol = Fraction(0)
        bad = None
        cells_v = []
        for ci, c in enumerate(children):
            vs = []
            for r in c.rows:
                p = resolve(rd, pts, r)
                if isinstance(p, str):
                    bad = f"child {ci}: {p}"
                    break
                vs.append(p)
            if bad:
                break
            if len(vs) != rd.nnodes:
                bad = f"child {ci} has {len(vs)} vertices"
                break
            if not all(inside_ref(rd, p) for p in vs):
                bad = f"child {ci} has a vertex outside the parent cell"
                break
            if rd.name in ("RefTri", "RefTet"):
                v_ = abs(simplex_volume(vs))
                if v_ == 0:
                    bad = f"child {ci} is degenerate"
                    break
                vol += v_
            else:
                # half-size translate of the reference cell in the same
                # local vertex order
                o = rd.p.index(tuple(Fraction(0) for _ in range(rd.dim)))
                for k in range(rd.nnodes):
                    if any(vs[k][d] - vs[o][d] != rd.p[k][d] / 2
                           for d in range(rd.dim)):
                        bad = (f"child {ci}: local vertex {k} is not at half "
                               f"the reference offset from local vertex {o} "
                               f"(wrong local order or shape)")
                        break
                if bad:
                    break
                vol += Fraction(1, 2 ** rd.dim)
            cells_v.append(vs)
        if bad is None and vol != ref_volume(rd):
            bad = f"children's volumes add up to {vol}, the parent has " \
                  f"{ref_volume(rd)}"
        if bad is None:
            from ..refcell import first_overlap
            ov = first_overlap(cells_v)
            if ov:
                bad = f"children {ov[0]} and {ov[1]} overlap"
        if bad is None and rd.name in ("RefQuad", "RefHex"):
            origins = {tuple(resolve(rd, pts, c.rows[
                rd.p.index(tuple(Fraction(0) for _ in range(rd.dim)))]))
                for c in children}
            if len(origins) != want:
                bad = "two children coincide"
        if bad:
            rep.fail(rule, path, f"{clsname}._uniform", f"{tag}:children",
                     bad, line)
            ok_all = False
        else:
            rep.ok(rule, f"{tag}:children",
                   f"{want} children inside the parent, volumes sum to "
                   f"{ref_volume(rd)}"
                   + (", each a half-size copy in the reference local order"
                      if rd.name in ("RefQuad", "RefHex") else ""),
                   sample=(clsname == "MeshTri1"))
    return ok_all


TRI_RANK = {("vertex", 0): 0, ("vertex", 1): 1, ("vertex", 2): 2,
            ("facet", 0): 3, ("facet", 2): 4, ("facet", 1): 5}


def _tet_table(model, rep, modname, clsname, rd):
    """own old-cell -> children table of the tetrahedron: row r of a cell
    must hold the position of the block that stores its r-th child"""
    rule = "C12-R3"
    cls, fn, kw, cap = _run_uniform(model, modname, clsname, rd,
                                    subdomains=True)
    from ..refcell import ARange, MASKS
    t = kw["t"]
    # positions of the blocks in hstack order
    pos = []
    off = Poly()
    for c in t.children:
        m = c.mask
        ln = NT if not m else Poly.sym(f"n[{MASKS[m].name}]")
        pos.append((m, off, ln))
        off = off + ln
    masks = [m for m in dict.fromkeys(c.mask for c in t.children) if m]
    # the masks are one-hot (checked above): their counts add up to nt
    last = Poly.sym(f"n[{MASKS[masks[-1]].name}]")
    rest = NT
    for m in masks[:-1]:
        rest = rest - Poly.sym(f"n[{MASKS[m].name}]")
    env = {next(iter(last.symbols())): rest}
    norm = lambda p: Poly.coerce(p).subs(env)  # noqa: E731
    stores = [s_ for s_ in cap.get("stores", [])
              if isinstance(s_[0], int) or (isinstance(s_[0], tuple)
                                            and isinstance(s_[0][0], int))]
    if not stores:
        raise AnalysisError(f"{clsname}._uniform: child table not built")
    nwhole = sum(1 for c in t.children if not c.mask)
    per_mask = {m: [p for p in pos if p[0] == m] for m in masks}
    for ix, val in stores:
        if isinstance(ix, int):
            r, m = ix, None
        else:
            r, sel = ix
            m = next((k for k, v in MASKS.items() if v is sel), None)
            if m is None:
                raise AnalysisError("child table: unknown column selector")
        if isinstance(val, IdxArr) and val.kind == "cell":
            lo = val.offset
        elif isinstance(val, ARange):
            lo = val.lo
        else:
            raise AnalysisError(f"child table value {val!r}")
        if m is None:
            want = pos[r][1] if r < nwhole else None
        else:
            k = r - nwhole
            want = per_mask[m][k][1] if 0 <= k < len(per_mask[m]) else None
        cons = f"{clsname}:child-table[row {r}" + (
            f", variant {MASKS[m].name}]" if m else "]")
        if want is not None and norm(lo) == norm(want):
            rep.ok(rule, cons, f"cells "
                   f"{'of the variant' if m else ''} -> new cells starting "
                   f"at {want}: the block holding their child {r}")
        else:
            rep.fail(rule, fn.path, f"{clsname}._uniform", cons,
                     f"row {r} of the old-cell to children table points to "
                     f"new cells starting at {lo}, but child {r} of those "
                     f"cells is stored from {want} on: named subdomains "
                     f"pick up another cell's child", fn.lineno)


def _facet_maps(rep, rule, clsname, path, line, rd: RefdomInfo, kw, cap,
                sorted_cells: bool, tag: str = ""):
    stores = [s for s in cap.get("stores", [])
              if isinstance(s[1], tuple) and s[1] and s[1][0] == "childfacet"]
    if not stores:
        rep.fail(rule, path, f"{clsname}._uniform", f"{clsname}:facet-map",
                 "no old-to-new facet table is built although boundaries "
                 "are propagated", line)
        return
    t = kw["t"]
    pts = kw["doflocs"]
    per_parent: Dict[int, List] = {}
    for ix, (_, j, b) in stores:
        if not (isinstance(ix, tuple) and len(ix) == 2
                and isinstance(ix[1], IdxArr) and ix[1].kind == "facet"):
            raise AnalysisError(f"{clsname}: facet-map store index")
        k = ix[1].k
        child = t.children[b]
        rows = list(child.rows)
        if sorted_cells:
            rows.sort(key=lambda r: TRI_RANK[(r.kind, r.k)])
        verts = [resolve(rd, pts, rows[v]) for v in rd.facets[j]]
        per_parent.setdefault(k, []).append((int(ix[0]), j, b, verts))
    for k in range(rd.nfacets):
        ent = per_parent.get(k, [])
        a, b_ = (rd.p[v] for v in rd.facets[k])
        mid = tuple((a[d] + b_[d]) / 2 for d in range(rd.dim))
        halves = {frozenset((tuple(a), mid)), frozenset((mid, tuple(b_)))}
        got = {frozenset(tuple(p) for p in e[3]) for e in ent}
        cons = f"{clsname}:facet-map[{k}]" + (f"[{tag}]" if tag else "")
        if len(ent) == 2 and got == halves and \
                {e[0] for e in ent} == {0, 1}:
            rep.ok(rule, cons, f"parent facet {k} -> child facets "
                   f"{[(e[2], e[1]) for e in ent]} (block, local facet): "
                   f"its two halves")
        else:
            rep.fail(rule, path, f"{clsname}._uniform", cons,
                     f"parent facet {k} is mapped to child facets "
                     f"{[(e[2], e[1]) for e in ent]} (block, local facet) "
                     f"spanning {[sorted(map(lambda q: tuple(map(str, q)), g)) for g in got]}, "
                     f"which are not the two halves of that facet: named "
                     f"boundaries move to other facets", line)


def _own_map(model, fn, kw, sub):
    """Interleaved children (strided stores t[r, a::s]) with an own
    subdomain map: the map must send cell k to {s*k + a}."""
    tval = kw["t"]
    if not isinstance(tval, ast.Name):
        return None
    starts, steps = set(), set()
    for n in walk_no_nested(fn.node):
        if isinstance(n, ast.Assign) and isinstance(n.targets[0],
                                                    ast.Subscript) \
                and src(n.targets[0].value) == tval.id:
            for sl in ast.walk(n.targets[0].slice):
                if isinstance(sl, ast.Slice) and sl.step is not None:
                    steps.add(ast.literal_eval(sl.step))
                    starts.add(ast.literal_eval(sl.lower)
                               if sl.lower is not None else 0)
    if not steps:
        return None
    if len(steps) != 1:
        raise AnalysisError(f"{fn.short()}: mixed strides")
    step = steps.pop()
    want = {Poly.sym("k") * step + a for a in starts}
    # the value expression of the {name: f(ixs)} comprehension
    name = sub.id if isinstance(sub, ast.Name) else None
    comps = [n for n in ast.walk(fn.node) if isinstance(n, ast.DictComp)]
    if name is None or len(comps) != 1:
        raise AnalysisError(f"{fn.short()}: own subdomain map not "
                            f"recognised")
    comp = comps[0]
    var = comp.generators[0].target.elts[1].id

    class Aff:
        """the index array i -> a * i + b over the cells"""
        skv_isarray = True

        def __init__(self, a, b):
            self.a, self.b = a, b

        def skv_binop(self, op, other, reflected):
            if isinstance(other, int) and isinstance(op, ast.Mult):
                return Aff(self.a * other, self.b * other)
            if isinstance(other, int) and isinstance(op, ast.Add):
                return Aff(self.a, self.b + other)
            raise Unsupported("arithmetic on a child table")

        def at(self, k):
            return Poly.coerce(k) * self.a + self.b

    class Table:
        """rows of a child table: table[:, k] lists the children of cell k"""
        skv_isarray = True

        def __init__(self, rows):
            self.rows = rows

        def skv_getitem(self, ix):
            if isinstance(ix, tuple) and len(ix) == 2 and \
                    ix[0] == slice(None):
                return Flat([r.at(ix[1]) for r in self.rows])
            raise Unsupported("index into a child table")

    class Flat(list):
        def skv_getattr(self, name):
            if name in ("flatten", "ravel"):
                return PyFunc(lambda a, k, n: list(self))
            raise Unsupported("children." + name)

    def hook(interp, nm, args, kwargs, node):
        if nm == "numpy.concatenate":
            return list(args[0])
        if nm in ("numpy.sort", "numpy.unique"):
            return args[0]
        if nm == "numpy.arange" and len(args) == 1:
            return Aff(1, 0)
        if nm == "numpy.vstack" and all(isinstance(x, Aff)
                                        for x in args[0]):
            return Table(list(args[0]))
        if nm in ("numpy.asarray", "numpy.array") and args:
            return args[0]
        return NotImplemented
    # local tables the map refers to (kids = np.vstack((2 * np.arange(nt),
    # ...))) are evaluated with the same hooks
    env = {var: Poly.sym("k")}
    it_ = Interp(model, call_hook=hook)
    for n in sorted((n for n in walk_no_nested(fn.node)
                     if isinstance(n, ast.Assign) and len(n.targets) == 1
                     and isinstance(n.targets[0], ast.Name)
                     and n.lineno < comp.lineno),
                    key=lambda n: n.lineno):
        if any(isinstance(x, ast.Name) and x.id == n.targets[0].id
               for x in ast.walk(comp.value)):
            try:
                env[n.targets[0].id] = it_.eval(
                    n.value, {"t": Obj(None, {"shape": (2, Poly.sym("nt"))}),
                              **env}, fn.module)
            except Unsupported as e:
                raise AnalysisError(f"{fn.short()}: table "
                                    f"{n.targets[0].id}: {e}")
    try:
        r = it_.eval(comp.value, env, fn.module)
    except Unsupported as e:
        raise AnalysisError(f"{fn.short()}: subdomain map outside grammar: "
                            f"{e}")
    got = {Poly.coerce(x) for x in r} if isinstance(r, list) else None
    if got == want:
        return True, (f"children of cell k are stored at "
                      f"{sorted(map(str, want))} and the subdomain map "
                      f"sends k to exactly those cells")
    return False, (f"children of cell k are stored at "
                   f"{sorted(map(str, want))} but the subdomain map sends k "
                   f"to {sorted(map(str, got)) if got else r}")


def _layout_kind(fn) -> Optional[str]:
    """'blocks' (hstack of whole-mesh vstack blocks), 'masked' (blocks over
    subsets of the cells), 'strided', or None (not recognised) for a
    _uniform that builds its connectivity itself"""
    reps = [n for n in walk_no_nested(fn.node) if isinstance(n, ast.Call)
            and isinstance(n.func, ast.Name) and n.func.id == "replace"
            and any(k.arg == "t" for k in n.keywords)]
    if not reps:
        return None
    kw = {k.arg: k.value for k in reps[0].keywords}
    tval = kw["t"]
    if isinstance(tval, ast.Name):
        defs = [n for n in walk_no_nested(fn.node)
                if isinstance(n, ast.Assign)
                and src(n.targets[0]) == tval.id]
        defs.sort(key=lambda n: n.lineno)
        tval2 = defs[-1].value if defs else None
    else:
        tval2 = tval
    blocks = (isinstance(tval2, ast.Call)
              and src(tval2.func) == "np.hstack"
              and isinstance(tval2.args[0], ast.Tuple)
              and all(isinstance(e, ast.Call)
                      and src(e.func) == "np.vstack"
                      for e in tval2.args[0].elts))
    strided = any(isinstance(n, ast.Assign) and isinstance(
        n.targets[0], ast.Subscript) and isinstance(tval, ast.Name)
        and src(n.targets[0].value) == tval.id and any(
            isinstance(s, ast.Slice) and s.step is not None
            for s in ast.walk(n.targets[0].slice))
        for n in walk_no_nested(fn.node))
    masked = blocks and any(
        isinstance(s, ast.Subscript) and isinstance(s.slice, ast.Tuple)
        for e in tval2.args[0].elts for s in ast.walk(e))
    if blocks:
        return "masked" if masked else "blocks"
    return "strided" if strided else None


SELF_SUB = "SUB(self)"


def interpret_delegate(model, c, fn, args=()):
    """Interpret a refinement method that works through another mesh class
    (X.from_mesh(Y.from_mesh(self).refined(...)), possibly with replace()
    around the steps) on a stub mesh.  Returns the stub of the result: its
    .sub is None (no subdomains), ("refined-by", Y, SUB(self)) or something
    else; .hist lists (refining class, layout kind of its _uniform, whether
    it was given subdomains, arguments)."""
    fm = model.cls("skfem.mesh.mesh", "Mesh").methods["from_mesh"]
    # from_mesh builds cls(doflocs=..., t=...): no tags, same cell numbering
    ctor = [n for n in walk_no_nested(fm.node) if isinstance(n, ast.Call)
            and src(n.func) == "cls"]
    if len(ctor) != 1:
        raise AnalysisError("Mesh.from_mesh: constructor call not found")
    ckw = {k.arg: k.value for k in ctor[0].keywords}
    if "_subdomains" in ckw or "subdomains" in ckw:
        raise AnalysisError("Mesh.from_mesh now carries subdomains: "
                            "delegation model out of date")
    if "t" not in ckw or "mesh.t" not in src(ckw["t"]):
        raise AnalysisError("Mesh.from_mesh: connectivity not taken from "
                            "the given mesh")

    class M:
        """stub mesh: class name, subdomains, refinement history"""
        def __init__(self, cname, sub, hist):
            self.cname, self.sub, self.hist = cname, sub, hist

        def skv_getattr(self, name):
            if name in ("_subdomains", "subdomains"):
                return self.sub
            if name in ("refined", "_uniform", "_adaptive"):
                def refined(a, k, n, meth=name):
                    if k:
                        raise Unsupported("refinement with keywords")
                    rcs = [x for x in model.all_classes()
                           if x.name == self.cname
                           and x.path.startswith("skfem/mesh/")]
                    uniform = meth == "_uniform" or (
                        meth == "refined" and (not a or isinstance(
                            a[0], (int, Fraction))))
                    rf = rcs[0].find_method(
                        "_uniform" if uniform else "_adaptive") \
                        if len(rcs) == 1 else None
                    if rf is None:
                        raise Unsupported(f"{self.cname} refinement")
                    kind = _layout_kind(rf) if uniform else "adaptive"
                    own = [kk.value for nn in walk_no_nested(rf.node)
                           if isinstance(nn, ast.Call)
                           and src(nn.func) == "replace"
                           for kk in nn.keywords if kk.arg == "_subdomains"]
                    drops = not own or all(isinstance(v, ast.Constant)
                                           and v.value is None for v in own)
                    generic_ok = uniform and meth == "refined"
                    if self.sub is None or (drops and not generic_ok):
                        # the refining method leaves the subdomains to
                        # Mesh.refined's generic propagation, which only
                        # uniform refinement through refined() gets
                        sub = None
                    else:
                        sub = ("refined-by", self.cname, self.sub)
                    return M(self.cname, sub,
                             self.hist + [(self.cname, kind,
                                           self.sub is not None, tuple(a))])
                return PyFunc(refined)
            raise Unsupported("mesh." + name)

    def from_mesh(a, kwargs, node):
        if len(a) == 1 and isinstance(a[0], M) and not kwargs and \
                isinstance(node.func, ast.Attribute) and isinstance(
                    node.func.value, ast.Name):
            return M(node.func.value.id, None, list(a[0].hist))
        raise Unsupported("from_mesh call form")

    def hook(interp, name, a, kwargs, node):
        if name.endswith("replace") and a and isinstance(a[0], M):
            extra = set(kwargs) - {"_subdomains"}
            if extra:
                raise Unsupported(f"replace({sorted(extra)})")
            return M(a[0].cname, kwargs.get("_subdomains", a[0].sub),
                     list(a[0].hist))
        return NotImplemented
    me = M(c.name, SELF_SUB, [])
    try:
        it = Interp(model, call_hook=hook)
        it.overrides[fm.qualname] = PyFunc(from_mesh)
        res = it.call(fn, list(args), {}, self_obj=me)
    except (Unsupported, Raised) as e:
        raise AnalysisError(f"{c.name}.{fn.name} (delegating): {e}")
    if not isinstance(res, M) or len(res.hist) != 1:
        raise AnalysisError(f"{c.name}.{fn.name}: exactly one delegated "
                            f"refinement expected")
    return res


def _delegate(model, rep, c, fn):
    """_uniform of a class that refines through another mesh class
    (second-order meshes).  The method is interpreted on a stub mesh: which
    class does the refinement, and do the named subdomains reach it?  If the
    result carries no subdomains, Mesh.refined applies the generic
    'k + j*nt' propagation to it - right only if the refining class stores
    the children in whole-mesh blocks."""
    R2 = "C12-R2"
    cons = f"{c.name}._uniform:delegated-layout"
    res = interpret_delegate(model, c, fn)
    rcls, kind, had_sub, _ = res.hist[0]
    if kind is None:
        raise AnalysisError(f"{rcls}._uniform: connectivity construction "
                            f"not recognised")
    if res.sub is None:
        if kind == "blocks":
            rep.ok(R2, cons, f"refines through {rcls}, whose children are "
                   f"stored in whole-mesh blocks; the result carries no "
                   f"subdomains, so Mesh.refined's generic propagation "
                   f"applies and is right")
        else:
            rep.fail(R2, fn.path, fn.short(), cons,
                     f"refines through {rcls} but the named subdomains "
                     f"do not travel with it (from_mesh drops them): the "
                     f"result has none, Mesh.refined then applies the "
                     f"generic 'k + j*nt' propagation, while the children "
                     f"of {rcls}._uniform are stored in {kind} blocks "
                     f"(subsets of the cells per block) - named subdomains "
                     f"end up on other cells", fn.lineno)
    elif res.sub == ("refined-by", rcls, SELF_SUB):
        rep.ok(R2, cons, f"hands its subdomains to {rcls}, which "
               f"propagates them with its own map, and takes the result "
               f"over (from_mesh keeps the cell numbering)")
    else:
        rep.fail(R2, fn.path, fn.short(), cons,
                 f"the returned mesh carries the subdomains {res.sub!r}: "
                 f"not those of this mesh propagated by the refining "
                 f"class {rcls}", fn.lineno)


def _only_raises(fn) -> bool:
    """the method does nothing but raise (abstract, or unsupported for the
    class)"""
    body = [st for st in fn.node.body if not (
        isinstance(st, ast.Expr) and isinstance(st.value, ast.Constant))]
    return bool(body) and all(isinstance(st, ast.Raise) for st in body)


def _refusing_override(c, name):
    """the method resolved for class c only raises although a class later
    in the MRO implements it: a refusal added on purpose"""
    hits = [k.methods[name] for k in c.mro() if name in k.methods]
    return bool(hits) and _only_raises(hits[0]) and any(
        not _only_raises(h) for h in hits[1:])


def _refdom_class(c, depth=0):
    """class of ``c.init_refdom()``: the class itself when the resolved
    classmethod constructs ``cls(...)``, the last base's answer when it
    forwards to ``cls.__bases__[-1].init_refdom()``."""
    fn = c.find_method("init_refdom")
    if fn is None or depth > 4:
        raise AnalysisError(f"{c.name}.init_refdom not resolved")
    rets = [n.value for n in walk_no_nested(fn.node)
            if isinstance(n, ast.Return) and n.value is not None]
    if len(rets) != 1 or not isinstance(rets[0], ast.Call):
        raise AnalysisError(f"{fn.short()}: unexpected form")
    f = src(rets[0].func)
    if f == "cls":
        return c
    if f == "cls.__bases__[-1].init_refdom":
        if not c.bases:
            raise AnalysisError(f"{c.name}: no base class")
        return _refdom_class(c.bases[-1], depth + 1)
    if f.endswith(".init_refdom"):
        named = [x for x in c.mro() if x.name == f[:-len(".init_refdom")]]
        if named and named[0] is not c:
            return _refdom_class(named[0], depth + 1)
    raise AnalysisError(f"{fn.short()}: returns {f}(...)")


def _auxiliary_meshes(model, rep):
    """CellBasis.refinterp and Mesh._splitref (plotting, draw, refinterp)
    refine the *reference cell of the mesh's class* and build a mesh of
    separate cells from it.  A class that refuses refinement or simplex
    splitting by an override (the periodic classes: their point array is
    per cell corner) must therefore hand out an ordinary reference mesh,
    and the auxiliary mesh must not be of the refusing class - otherwise
    plot(basis, u) / mesh.draw() raise for every mesh of the class."""
    R1 = "C12-R1"
    sites = []
    for fn in model.all_functions():
        if not fn.path.startswith("skfem/"):
            continue
        if True:
            for n in walk_no_nested(fn.node):
                if isinstance(n, ast.Assign) and isinstance(
                        n.value, ast.Call) and isinstance(
                        n.value.func, ast.Attribute) and \
                        n.value.func.attr == "refined" and isinstance(
                        n.value.func.value, ast.Call) and src(
                        n.value.func.value.func).endswith(".init_refdom") \
                        and isinstance(n.targets[0], ast.Name):
                    sites.append((fn, n, n.targets[0].id, src(
                        n.value.func.value.func)[:-len(".init_refdom")]))
    if len(sites) < 2:
        raise AnalysisError(f"only {len(sites)} auxiliary reference-cell "
                            f"refinements found (refinterp, _splitref "
                            f"confirmed by hand)")
    concrete = [c for c in model.all_classes()
                if c.path.startswith("skfem/mesh/") and c.is_subclass_of(
                    "Mesh") and c.find_attr("elem") is not None
                and not c.name.startswith("_")]
    refusing = [c for c in concrete if _refusing_override(c, "_uniform")
                or _refusing_override(c, "to_meshtri")]
    for c in refusing:
        r = _refdom_class(c)
        cons = f"{c.name}.init_refdom:refinable"
        if _refusing_override(r, "_uniform"):
            rep.fail(R1, c.path, f"{c.name}.init_refdom", cons,
                     f"{c.name} refuses _uniform by an override, and its "
                     f"reference mesh init_refdom() is again a {r.name}: "
                     f"{', '.join(f.short() for f, *_ in sites)} refine "
                     f"type(mesh).init_refdom(), so refinterp, "
                     f"plot(basis, u) and mesh.draw() raise for every mesh "
                     f"of the class", c.node.lineno)
        else:
            rep.ok(R1, cons, f"reference mesh is a {r.name}, which refines")
    # the reference mesh is built from the vertices of the reference cell
    # (cls(refdom.p, refdom.t)): for a class whose element also has edge /
    # facet / interior nodes that object holds too few points, and refining
    # it (refinterp, _splitref, plot3) raises IndexError - such classes must
    # hand out the reference mesh of their first-order base
    def rich(c):
        ea = c.find_attr("elem")
        if ea is None:
            return False
        ecl = [x for x in model.all_classes() if x.name == src(ea[1])
               and x.path.startswith("skfem/element/")]
        if not ecl:
            return False

        def count(attr):
            a = ecl[0].find_attr(attr)
            return int(a[1].value) if a and isinstance(
                a[1], ast.Constant) and isinstance(a[1].value, int) else 0
        return any(count(k) > 0 for k in ("edge_dofs", "facet_dofs",
                                          "interior_dofs"))
    nrich = 0
    for c in concrete:
        if not rich(c) or c in refusing:
            continue
        nrich += 1
        r = _refdom_class(c)
        cons = f"{c.name}.init_refdom:vertex-only-points"
        if rich(r):
            rep.fail(R1, c.path, f"{c.name}.init_refdom", cons,
                     f"{c.name}.init_refdom() builds a {r.name} from the "
                     f"vertices of the reference cell only, although its "
                     f"element has edge / facet / interior nodes: "
                     f"{', '.join(f.short() for f, *_ in sites)} refine that "
                     f"object and raise IndexError for every mesh of the "
                     f"class (the two-dimensional second-order classes "
                     f"return the first-order reference mesh)",
                     c.node.lineno)
        else:
            rep.ok(R1, cons, f"reference mesh is a {r.name} (vertex nodes "
                   f"only)")
    if nrich < 4:
        raise AnalysisError(f"only {nrich} second-order mesh classes found")
    for fn, node, var, clsvar in sites:
        # the class the auxiliary mesh is built with
        names = {}
        for n in walk_no_nested(fn.node):
            if isinstance(n, ast.Assign) and len(n.targets) == 1 and \
                    isinstance(n.targets[0], ast.Name):
                names[n.targets[0].id] = src(n.value)

        def kind(e):
            t = src(e)
            t = names.get(t, t) if isinstance(e, ast.Name) else t
            if t == f"type({var})":
                return "refdom"
            if t == clsvar or t == names.get(clsvar) or t == "cls" or (
                    t.startswith("type(") and t != f"type({var})"):
                return "own"
            return None
        ctor = [(n, kind(n.func)) for n in walk_no_nested(fn.node)
                if isinstance(n, ast.Call) and n.lineno > node.lineno
                and len(n.args) >= 2 and kind(n.func)]
        cons = f"{fn.short()}:auxiliary-class"
        if not ctor:
            raise AnalysisError(f"{fn.short()}: construction of the "
                                f"auxiliary mesh not found")
        bad = [n for n, k in ctor if k == "own"]
        if bad and refusing:
            rep.fail(R1, fn.path, fn.short(), cons,
                     f"the auxiliary mesh of separate cells is built with "
                     f"'{clsvar}' - the class of the mesh itself; for "
                     f"{', '.join(c.name for c in refusing)} that class "
                     f"refuses to_meshtri / refined, which the plotting "
                     f"routines call on the result", bad[0].lineno)
        else:
            rep.ok(R1, cons, f"built with the class of the refined "
                   f"reference mesh (type({var}))")


def _r2_layout(model, rep):
    R2 = "C12-R2"
    # which _uniform leave the subdomains to the generic propagation?
    for c in model.all_classes():
        fn = c.methods.get("_uniform")
        if fn is None or not c.path.startswith("skfem/mesh/"):
            continue
        reps = [n for n in walk_no_nested(fn.node) if isinstance(n, ast.Call)
                and isinstance(n.func, ast.Name) and n.func.id == "replace"
                and any(k.arg == "t" for k in n.keywords)]
        if not reps:
            if _only_raises(fn):
                continue        # abstract / unsupported: raises
            _delegate(model, rep, c, fn)
            continue
        call = reps[0]
        kw = {k.arg: k.value for k in call.keywords}
        sub = kw.get("_subdomains")
        generic = sub is not None and isinstance(sub, ast.Constant) and \
            sub.value is None
        cons = f"{c.name}._uniform:child-layout"
        if not generic:
            own = _own_map(model, fn, kw, sub)
            if own is None:
                rep.ok(R2, cons, "computes its own subdomain map (not "
                       "subject to the generic propagation)")
            elif own[0]:
                rep.ok(R2, cons, own[1])
            else:
                rep.fail(R2, fn.path, fn.short(), cons, own[1], fn.lineno)
            continue
        tval = kw["t"]
        if isinstance(tval, ast.Name):
            defs = [n for n in walk_no_nested(fn.node)
                    if isinstance(n, ast.Assign)
                    and src(n.targets[0]) == tval.id]
            defs.sort(key=lambda n: n.lineno)
            tval2 = defs[-1].value if defs else None
        else:
            tval2 = tval
        blocks = (isinstance(tval2, ast.Call)
                  and src(tval2.func) == "np.hstack"
                  and isinstance(tval2.args[0], ast.Tuple)
                  and all(isinstance(e, ast.Call)
                          and src(e.func) == "np.vstack"
                          for e in tval2.args[0].elts))
        strided = any(isinstance(n, ast.Assign) and isinstance(
            n.targets[0], ast.Subscript) and isinstance(tval, ast.Name)
            and src(n.targets[0].value) == tval.id and any(
                isinstance(s, ast.Slice) and s.step is not None
                for s in ast.walk(n.targets[0].slice))
            for n in walk_no_nested(fn.node))
        masked = blocks and any(
            isinstance(s, ast.Subscript) and isinstance(s.slice, ast.Tuple)
            for e in tval2.args[0].elts for s in ast.walk(e))
        if blocks and not masked:
            rep.ok(R2, cons, f"connectivity is an hstack of "
                   f"{len(tval2.args[0].elts)} whole-mesh blocks: children "
                   f"of cell k sit at k, k+nt, ..., as Mesh.refined's "
                   f"generic subdomain propagation assumes")
        elif strided:
            rep.fail(R2, fn.path, fn.short(), cons,
                     "children are interleaved (strided stores: the "
                     "children of cell k sit at 2k, 2k+1) but the "
                     "subdomains are left to Mesh.refined's generic "
                     "propagation, which assumes k, k+nt, ...: named "
                     "subdomains end up on other cells", fn.lineno)
        else:
            raise AnalysisError(f"{c.name}._uniform: connectivity "
                                f"construction not recognised")
    _generic_propagation(model, rep)


def _line_uniform(model, rep):
    """Symbolic run of MeshLine1._uniform: the children are interleaved
    (cell k becomes cells 2k and 2k + 1), written by strided stores."""
    from ..refcell import ARange
    R3 = "C12-R3"
    cls = model.cls("skfem.mesh.mesh_line_1", "MeshLine1")
    fn = cls.methods.get("_uniform")
    if fn is None:
        raise AnalysisError("MeshLine1._uniform not found")
    q = "MeshLine1._uniform"
    NP, NTL = Poly.sym("npoints"), Poly.sym("ncells")
    cap: Dict[str, Any] = {}

    class End:
        skv_isarray = True

        def __init__(self, k):
            self.k = k

        def __repr__(self):
            return f"vertex {self.k} of the cells"

    class Mid:
        skv_isarray = True

        def __init__(self, what):
            self.what = what

        def skv_getattr(self, name):
            if name == "mean":
                def mean(a, k, n):
                    return Mid(f"mean{a[0] if a else k.get('axis')}")
                return PyFunc(mean)
            raise Unsupported("points." + name)

    class T:
        skv_isarray = True

        def skv_getitem(self, ix):
            if ix in (0, 1):
                return End(ix)
            raise Unsupported(f"t index {ix!r}")

        def skv_getattr(self, name):
            if name == "shape":
                return (2, NTL)
            if name == "dtype":
                return "int"
            raise Unsupported("t." + name)

    the_t = T()

    class P:
        skv_isarray = True

        def skv_getitem(self, ix):
            if isinstance(ix, tuple) and len(ix) == 2 and \
                    ix[0] == slice(None) and ix[1] is the_t:
                return Mid("verts")
            raise Unsupported(f"p index {ix!r}")

        def skv_getattr(self, name):
            if name == "shape":
                return (1, NP)
            raise Unsupported("p." + name)

    the_p = P()

    class Buf:
        skv_isarray = True

        def __init__(self, shape):
            self.shape, self.st = shape, {}

        @staticmethod
        def key(ix):
            if isinstance(ix, tuple) and len(ix) == 2 and ix[0] in (0, 1) \
                    and isinstance(ix[1], slice) and ix[1].step == 2 and \
                    ix[1].stop is None and ix[1].start in (None, 0, 1):
                return (ix[0], ix[1].start or 0)
            raise Unsupported(f"store/read {ix!r} in the new connectivity")

        def skv_setitem(self, ix, v):
            self.st[self.key(ix)] = v

        def skv_getitem(self, ix):
            k = self.key(ix)
            if k not in self.st:
                raise Unsupported("read of an unwritten part")
            return self.st[k]

    def hook(interp, name, args, kwargs, node):
        if name in ("numpy.max", "numpy.amax") and args[0] is the_t:
            # largest vertex number in use - not the number of stored points
            return Poly.sym("maxt")
        if name == "numpy.arange":
            a = [Poly.coerce(x) for x in args]
            return ARange(a[0], a[1]) if len(a) == 2 else ARange(Poly(), a[0])
        if name == "numpy.hstack":
            cap["newp"] = list(args[0])
            return ("points",)
        if name in ("numpy.empty", "numpy.zeros"):
            b = Buf(tuple(args[0]))
            cap.setdefault("bufs", []).append(b)
            return b
        if name.endswith("replace"):
            cap["replace"] = kwargs
            return ("mesh",)
        return NotImplemented
    obj = Obj(cls, {"doflocs": the_p, "t": the_t, "_subdomains": None,
                    "_boundaries": None})
    it = Interp(model, call_hook=hook)
    try:
        it.call(fn, [], {}, self_obj=obj)
    except (Unsupported, Raised) as e:
        raise AnalysisError(f"{q} outside grammar: {e}")
    kw = cap.get("replace")
    if not kw or not isinstance(kw.get("t"), Buf) or "newp" not in cap:
        raise AnalysisError(f"{q}: new points / connectivity not recognised")
    newp, b = cap["newp"], kw["t"]
    okp = (len(newp) == 2 and newp[0] is the_p and isinstance(newp[1], Mid)
           and newp[1].what == "mean1")
    if okp:
        rep.ok(R3, "MeshLine1:new-points", "old points keep their indices; "
               "point npoints + k is the midpoint of cell k")
    else:
        rep.fail(R3, fn.path, q, "MeshLine1:new-points",
                 "the appended points are not the cell midpoints (mean over "
                 "the vertex axis) in cell order", fn.lineno)

    def end(v):
        if isinstance(v, End):
            return f"v{v.k}"
        if isinstance(v, ARange):
            if v.lo == NP and v.hi == NP + NTL:
                return "mid"
            return f"arange({v.lo}, {v.hi})"
        return repr(v)
    shape_ok = tuple(Poly.coerce(x) for x in b.shape) == (Poly.coerce(2),
                                                          2 * NTL)
    got = {k: end(v) for k, v in b.st.items()}
    want = {(0, 0): "v0", (1, 0): "mid", (0, 1): "mid", (1, 1): "v1"}
    if shape_ok and got == want:
        rep.ok(R3, "MeshLine1:children", "cell k = [a, b] becomes cells 2k = "
               "[a, m] and 2k + 1 = [m, b] with m = point npoints + k, its "
               "own midpoint")
    else:
        rep.fail(R3, fn.path, q, "MeshLine1:children",
                 f"new connectivity of shape {b.shape}: (vertex row, child) "
                 f"-> {got}; expected {want} where 'mid' is "
                 f"arange(npoints, npoints + ncells), the positions at which "
                 f"the midpoints are appended (max(t) + 1 is smaller when "
                 f"the mesh stores points beyond its largest vertex number)",
                 fn.lineno)


def _tet_diagonal(model, rep):
    """MeshTet1._uniform cuts the inner octahedron of every cell along one
    of its three diagonals - 'the shortest', which keeps the shapes of the
    children bounded under repeated refinement (Bey).  The three squared
    lengths must be Euclidean lengths in R^3: every coordinate row of the
    point array enters each of them."""
    R3 = "C12-R3"
    fn = model.cls("skfem.mesh.mesh_tet_1", "MeshTet1").methods["_uniform"]
    # lengths: the names compared with '<' to build the case masks
    cmp_names = set()
    for n in walk_no_nested(fn.node):
        if isinstance(n, ast.Compare) and isinstance(n.left, ast.Name) and \
                len(n.comparators) == 1 and isinstance(
                    n.comparators[0], ast.Name):
            cmp_names |= {n.left.id, n.comparators[0].id}
    defs = {}
    for n in walk_no_nested(fn.node):
        if isinstance(n, ast.Assign) and len(n.targets) == 1 and isinstance(
                n.targets[0], ast.Name) and n.targets[0].id in cmp_names:
            defs[n.targets[0].id] = n
    if len(defs) != 3:
        raise AnalysisError(f"MeshTet1._uniform: {len(defs)} compared "
                            f"diagonal lengths found, 3 expected")
    for nm, d in sorted(defs.items()):
        rows = {x.slice.elts[0].value for x in ast.walk(d.value)
                if isinstance(x, ast.Subscript) and isinstance(
                    x.slice, ast.Tuple) and isinstance(
                    x.slice.elts[0], ast.Constant)}
        if any(isinstance(x, ast.Subscript) and isinstance(
                x.slice, ast.Tuple) and isinstance(
                x.slice.elts[0], ast.Slice)
                and x.slice.elts[0].lower is None
                and x.slice.elts[0].upper is None
                for x in ast.walk(d.value)):
            rows = {0, 1, 2}         # newp[:, ...]: all coordinates
        cons = f"MeshTet1._uniform:diagonal-length[{nm}]"
        if rows == {0, 1, 2}:
            rep.ok(R3, cons, "squared Euclidean length over the three "
                             "coordinates")
        else:
            rep.fail(R3, fn.path, "MeshTet1._uniform", cons,
                     f"'{nm}' is computed from the coordinate rows "
                     f"{sorted(rows)} only: the 'shortest' diagonal is the "
                     f"shortest *projection*, so the octahedra are cut "
                     f"along a longer diagonal and the cell quality decays "
                     f"geometrically under repeated refinement (0.188 -> "
                     f"0.0017 after six steps for a generic cell)",
                     d.lineno)


def _last_writer(rep, rule, clsname, fn):
    """The parent-facet -> child-facet table is filled by vectorised stores
    ``table[row, t2f[slot]] = ...`` over all cells at once.  An interior
    facet is slot k of one neighbour and slot k' of the other, so both
    neighbours write its column and the later statement wins, row by row.
    The halves recorded in the rows of one column must come from the *same*
    neighbour (the two neighbours may traverse the facet in opposite
    directions, so 'first half' of one is 'second half' of the other):
    for every pair of slots the statement order must be the same in every
    row."""
    stores = []
    for n in walk_no_nested(fn.node):
        if isinstance(n, ast.Assign) and isinstance(
                n.targets[0], ast.Subscript) and isinstance(
                n.targets[0].slice, ast.Tuple) and len(
                n.targets[0].slice.elts) == 2:
            r, c = n.targets[0].slice.elts
            if isinstance(r, ast.Constant) and isinstance(r.value, int) \
                    and isinstance(c, ast.Subscript) and src(
                        c.value) == "t2f" and isinstance(
                        c.slice, ast.Constant):
                stores.append((n.lineno, n.col_offset,
                               src(n.targets[0].value), r.value,
                               c.slice.value))
    stores.sort()
    tables = {}
    for pos, (_, _, tab, row, slot) in enumerate(stores):
        tables.setdefault(tab, {}).setdefault(row, {})[slot] = pos
    if not tables:
        raise AnalysisError(f"{clsname}._uniform: stores into the facet "
                            f"table not found")
    for tab, rows in tables.items():
        orders = {r: tuple(sorted(p, key=lambda k: p[k]))
                  for r, p in rows.items()}
        cons = f"{clsname}._uniform:{tab}:last-writer"
        if len(set(orders.values())) == 1 and len(rows) >= 2:
            rep.ok(rule, cons, f"slots are written in the order "
                   f"{next(iter(orders.values()))} in every row: both rows "
                   f"of a shared facet's column end up from the same "
                   f"neighbour")
        else:
            rep.fail(rule, fn.path, fn.short(), cons,
                     f"rows of {tab} are filled in different slot orders "
                     f"{orders}: for an interior facet that is slot a of "
                     f"one neighbour and slot b of the other, row 0 can "
                     f"keep the value written by one neighbour and row 1 "
                     f"the value written by the other - both then name the "
                     f"same half of the facet and a named interior "
                     f"boundary loses the other half", fn.lineno)


def _generic_propagation(model, rep):
    """Symbolic run of Mesh.refined(2) on a stub mesh whose _uniform leaves
    the subdomains to the generic propagation: after every pass the named
    cells must be the children k + b * nt (b = 0..N-1) of the cells named
    *after the previous pass* (not of the original mesh's)."""
    R2 = "C12-R2"
    mcls = model.cls("skfem.mesh.mesh", "Mesh")
    fn = mcls.methods["refined"]
    NT = [5, 20, 80]

    class TS:
        def __init__(self, nt):
            self.nt = nt

        def skv_getattr(self, name):
            if name == "shape":
                return (3, self.nt)
            raise Unsupported("t." + name)

    class Rows:
        skv_isarray = True

        def __init__(self, n, nt):
            self.rows = [None] * n
            self.nt = nt

        def skv_setitem(self, ix, v):
            if isinstance(ix, Fraction):
                ix = int(ix)
            if not isinstance(ix, int):
                raise Unsupported("child table store")
            self.rows[ix] = v

        def skv_getitem(self, ix):
            if isinstance(ix, Fraction):
                ix = int(ix)
            if isinstance(ix, int):
                return self.rows[ix]
            if isinstance(ix, tuple) and len(ix) == 2 and \
                    ix[0] == slice(None):
                return Kids(tuple(self.rows), ix[1])
            raise Unsupported("child table index")

    class Kids:
        skv_isarray = True

        def __init__(self, rows, of):
            self.rows, self.of = rows, of

        def skv_getattr(self, name):
            if name in ("flatten", "ravel", "astype"):
                return PyFunc(lambda a, k, n: self)
            raise Unsupported("children." + name)

    class Off:
        """arange(nt) + shift"""
        skv_isarray = True

        def __init__(self, nt, shift=0):
            self.nt, self.shift = nt, shift

        def skv_binop(self, op, other, reflected):
            if isinstance(op, ast.Add) and isinstance(other, (int,
                                                              Fraction)):
                return Off(self.nt, self.shift + int(other))
            raise Unsupported("arithmetic on a child row")

        def __eq__(self, o):
            return isinstance(o, Off) and (self.nt, self.shift) == (
                o.nt, o.shift)

        def __hash__(self):
            return hash((self.nt, self.shift))

    def hook(interp, name, args, kwargs, node):
        if name == "numpy.zeros":
            shp = args[0]
            return Rows(int(shp[0]), int(shp[1]))
        if name == "numpy.arange":
            return Off(int(args[0]))
        if name in ("numpy.sort", "numpy.unique"):
            return args[0]
        if name == "dataclasses.replace":
            base = args[0]
            o = Obj(base.cls, dict(base.attrs))
            o.attrs.update(kwargs)
            return o
        return NotImplemented

    def mk(level, sub):
        attrs = {"t": TS(NT[level]), "_subdomains": sub, "_boundaries": None}
        o = Obj(mcls, attrs)
        if level + 1 < len(NT):
            o.attrs["_uniform"] = PyFunc(
                lambda a, k, n, lv=level: mk(lv + 1, None))
        return o
    S0 = "IXS0"
    m0 = mk(0, {"s": S0})
    try:
        it = Interp(model, call_hook=hook)
        r = it.call(fn, [2], {}, self_obj=m0)
    except (Unsupported, Raised) as e:
        raise AnalysisError(f"Mesh.refined(2): {e}")
    sub = r.attrs.get("_subdomains") if isinstance(r, Obj) else None
    got = sub.get("s") if isinstance(sub, dict) else None

    def describe(v, depth=0):
        if isinstance(v, Kids):
            sh = sorted({(x.nt, x.shift) for x in v.rows
                         if isinstance(x, Off)})
            return f"children{[s_[1] for s_ in sh]}(nt={v.rows[0].nt if isinstance(v.rows[0], Off) else '?'}) of " + describe(v.of, depth + 1)
        return repr(v)
    ok = isinstance(got, Kids)
    if ok:
        # second pass: rows k + b*20, b = 0..3, applied to the first pass'
        # result: rows k + b*5 applied to the original tag
        ok = (set(got.rows) == {Off(20, b * 20) for b in range(4)}
              and isinstance(got.of, Kids)
              and set(got.of.rows) == {Off(5, b * 5) for b in range(4)}
              and got.of.of == S0)
    if ok:
        rep.ok(R2, "Mesh.refined:generic-propagation",
               "after each pass the tag is the set of children k + b*nt of "
               "the cells tagged after the previous pass")
    else:
        rep.fail(R2, fn.path, "Mesh.refined",
                 "Mesh.refined:generic-propagation",
                 f"after two passes the subdomain is {describe(got)}; "
                 f"expected children[0, 20, 40, 60](nt=20) of "
                 f"children[0, 5, 10, 15](nt=5) of the original tag: each "
                 f"pass must start from the cells tagged after the "
                 f"previous pass, with child b of cell k at k + b*nt",
                 fn.lineno)


def _count_dispatch(model, rep):
    """Mesh.refined(times_or_ix): a count means uniform passes, anything
    else the set of cells to refine adaptively.  A NumPy integer (the loop
    variable of 'for k in np.arange(1, 4)', the result of an integer
    computation) is a count: taken for an index it refines *cell k*
    adaptively and returns a mesh with a handful of extra cells.  The
    dispatching test is evaluated for a Python int, a NumPy integer scalar,
    a list and an array."""
    R4 = "C12-R4"
    mcls = model.cls("skfem.mesh.mesh", "Mesh")
    fn = mcls.methods["refined"]
    par = fn.params()[1]
    tests = [n for n in walk_no_nested(fn.node) if isinstance(n, ast.If)
             and any(isinstance(x, ast.Name) and x.id == par
                     for x in ast.walk(n.test))
             and any(isinstance(c, ast.Call) and src(c.func) == f"m.{'_'}uniform"
                     or (isinstance(c, ast.Attribute) and c.attr == "_uniform")
                     for b in n.body for c in ast.walk(b))]
    if len(tests) != 1:
        raise AnalysisError("Mesh.refined: the count / index dispatch was "
                            "not found")
    test = tests[0].test

    class NpInt:
        """a NumPy integer scalar"""
        skv_types = ("numpy.integer", "numpy.int64", "numpy.signedinteger",
                     "numpy.number", "numpy.generic", "numbers.Integral")

    class NpArr:
        skv_isarray = True
        skv_types = ("numpy.ndarray",)

    def hook(interp, name, args, kwargs, node):
        if name in ("numpy.isscalar",):
            return not isinstance(args[0], (list, NpArr))
        if name == "numpy.ndim":
            return 1 if isinstance(args[0], (list, NpArr)) else 0
        if name == "numpy.issubdtype":
            return isinstance(args[0], NpInt)
        return NotImplemented
    cases = [("Python int", 2, True), ("NumPy integer", NpInt(), True),
             ("list of cells", [0, 3], False), ("index array", NpArr(),
                                                False)]
    got = {}
    for label, val, want in cases:
        try:
            v = Interp(model, call_hook=hook).eval(test, {par: val},
                                                   fn.module)
        except (Unsupported, Raised) as e:
            raise AnalysisError(f"Mesh.refined dispatch on {label}: {e}")
        got[label] = bool(v)
    bad = [lbl for lbl, _, want in cases if got[lbl] != want]
    cons = "Mesh.refined:count-or-cells"
    if not bad:
        rep.ok(R4, cons, f"'{src(test)}' takes Python and NumPy integers "
                         f"for counts, lists and arrays for cells")
    else:
        rep.fail(R4, fn.path, "Mesh.refined", cons,
                 f"'{src(test)}' classifies {got}: {bad} go the wrong way "
                 f"- refined(np.int64(2)) refines cell 2 adaptively instead "
                 f"of performing two uniform passes", test.lineno)


def _r4_warnings(model, rep):
    R4 = "C12-R4"
    fn = model.func("skfem.mesh.mesh", "Mesh.refined")
    conds = [n for n in walk_no_nested(fn.node) if isinstance(n, ast.If)
             and any("invalidated" in src(b) for b in n.body)]
    if len(conds) != 2:
        raise AnalysisError("Mesh.refined: the two 'invalidated' warnings "
                            "not found")
    flags = {}
    for a in walk_no_nested(fn.node):
        if isinstance(a, ast.Assign) and isinstance(a.targets[0], ast.Name) \
                and src(a.targets[0]).startswith("has_"):
            flags[src(a.targets[0])] = src(a.value)
    result_names = {src(r.value) for r in walk_no_nested(fn.node)
                    if isinstance(r, ast.Return) and r.value is not None}
    for c in conds:
        t = c.test
        if not (isinstance(t, ast.BoolOp) and isinstance(t.op, ast.And)
                and len(t.values) == 2):
            raise AnalysisError("Mesh.refined: warning condition shape")
        flag, test = t.values
        what = "boundaries" if "boundaries" in src(c) else "subdomains"
        cons = f"Mesh.refined:warning[{what}]"
        # flag: self.<what> is not None ; test: <result>.<what> is None
        f_ok = flags.get(src(flag)) == f"self.{what} is not None"
        obj = test.left.value if isinstance(test, ast.Compare) and \
            isinstance(test.left, ast.Attribute) else None
        t_ok = (obj is not None and src(obj) in result_names
                and test.left.attr == what
                and isinstance(test.ops[0], ast.Is)
                and src(test.comparators[0]) == "None")
        if f_ok and t_ok:
            rep.ok(R4, cons, f"warns iff the input had named {what} and "
                   f"the result has none")
        else:
            contradiction = f_ok and obj is not None and \
                src(obj) == "self"
            rep.fail(R4, fn.path, "Mesh.refined", cons,
                     f"condition '{src(t)}' "
                     + ("can never hold (it requires self."
                        f"{what} to be both set and None): the named "
                        f"{what} are dropped without the warning"
                        if contradiction else
                        "does not compare the input's and the result's "
                        f"named {what}"), c.lineno)


def run(model: Model, rep, tier: str) -> None:
    rep.rule("C12-R1", "derived meshes with a new connectivity set both tag "
             "fields explicitly (or provably keep cell/facet indices)")
    rep.rule("C12-R2", "_uniform block layout agrees with the generic "
             "subdomain propagation")
    rep.rule("C12-R3", "child templates on the reference cell: count, "
             "containment, volume, local order, facet maps")
    rep.rule("C12-R4", "'names invalidated' warnings are satisfiable and "
             "test the result")
    n = tag_rule(model, rep, "C12-R1",
                 only=lambda f: f.name in ("_uniform", "refined"))
    if n < 5:
        raise AnalysisError(f"only {n} _uniform replace sites found")
    _r2_layout(model, rep)
    refdoms = load_refdoms(model)
    for modname, clsname, rdn in UNIFORM:
        cls, fn, kw, cap = _run_uniform(model, modname, clsname,
                                        refdoms[rdn])
        _child_geometry(rep, "C12-R3", clsname, fn.path, fn.lineno,
                        refdoms[rdn], kw, cap)
        if clsname == "MeshQuad1":
            _facet_maps(rep, "C12-R3", clsname, fn.path, fn.lineno,
                        refdoms[rdn], kw, cap, sorted_cells=False)
        if clsname == "MeshTri1":
            # default meshes re-sort every child; meshes whose sorting was
            # switched off (oriented(), loaded with sort_t=False) keep the
            # children exactly as listed: the facet table must be right
            # for both
            _facet_maps(rep, "C12-R3", clsname, fn.path, fn.lineno,
                        refdoms[rdn], kw, cap, sorted_cells=True,
                        tag="sorted cells")
            _facet_maps(rep, "C12-R3", clsname, fn.path, fn.lineno,
                        refdoms[rdn], kw, cap, sorted_cells=False,
                        tag="cells as listed (sort_t=False)")
        if clsname == "MeshTet1":
            _tet_table(model, rep, modname, clsname, refdoms[rdn])
        if clsname in ("MeshTri1", "MeshQuad1"):
            _last_writer(rep, "C12-R3", clsname, fn)
    _line_uniform(model, rep)
    _tet_diagonal(model, rep)
    _count_dispatch(model, rep)
    _r4_warnings(model, rep)
    _auxiliary_meshes(model, rep)
    from ..dgspace import report as _dg_report
    _dg_report(model, rep, "C12-R1", lambda n: n == "_uniform",
               "refined() returns a corrupt mesh without any error (cells "
               "pointing beyond the point array)")
    from ..tags import report_oriented_remaps
    if report_oriented_remaps(model, rep, "C12-R1",
                              lambda f: f.name == "_uniform") < 2:
        raise AnalysisError("fewer than two _uniform carry named "
                            "boundaries over")
    rep.require_min("C12-R1", 10)
    rep.require_min("C12-R2", 5)
    rep.require_min("C12-R3", 12)


_TR = "skfem/mesh/mesh_tri_1.py"
_QU = "skfem/mesh/mesh_quad_1.py"
_HE = "skfem/mesh/mesh_hex_1.py"
_TE = "skfem/mesh/mesh_tet_1.py"
_LI = "skfem/mesh/mesh_line_1.py"
_ME = "skfem/mesh/mesh.py"
_T2 = "skfem/mesh/mesh_tet_2.py"
MUTANTS = [
    ("second-order tetrahedra inherit the vertex-only reference mesh",
     ("skfem/mesh/mesh_tet_2.py",
      "    @classmethod\n    def init_refdom(cls):\n        # the reference "
      "cell has no mid-side nodes: the first-order mesh\n        return "
      "MeshTet1.init_refdom()\n\n", ""), "C12-R1"),
    ("periodic classes hand out a reference mesh of their own class again",
     ("skfem/mesh/mesh_dg.py",
      "        return cls.__bases__[-1].init_refdom()\n",
      "        return cls(cls.elem.refdom.p, cls.elem.refdom.t, "
      "validate=False)\n"), "C12-R1"),
    ("refinterp builds the split mesh with the class of the mesh",
     ("skfem/assembly/basis/cell_basis.py", "        M = type(m)(p, t)",
      "        M = meshclass(p, t)"), "C12-R1"),
    ("periodic meshes inherit uniform refinement again",
     ("skfem/mesh/mesh_dg.py", "    def _uniform(self, *args, **kwargs):\n        raise NotImplementedError\n\n", ""), "C12-R1"),
    ("refined() takes only Python ints for counts",
     (_ME, "        if isinstance(times_or_ix, (int, np.integer)):",
      "        if isinstance(times_or_ix, int):"), "C12-R4"),
    ("second-order tetrahedra refine without handing over the subdomains",
     (_T2, "        m = replace(MeshTet1.from_mesh(self),\n"
      "                    _subdomains=self._subdomains).refined()\n"
      "        return replace(MeshTet2.from_mesh(m), _subdomains="
      "m._subdomains)",
      "        return MeshTet2.from_mesh(MeshTet1.from_mesh(self).refined())"),
     "C12-R2"),
    ("second-order tetrahedra keep their unrefined subdomains",
     (_T2, "                    _subdomains=self._subdomains).refined()\n"
      "        return replace(MeshTet2.from_mesh(m), _subdomains="
      "m._subdomains)",
      "                    _subdomains=self._subdomains).refined()\n"
      "        return replace(MeshTet2.from_mesh(m), _subdomains="
      "self._subdomains)"), "C12-R2"),
    ("line refinement numbers the midpoints from max(t) + 1",
     (_LI, "        newt[0, 1::2] = p.shape[1] + np.arange(t.shape[1])",
      "        newt[0, 1::2] = np.max(t) + 1 + np.arange(t.shape[1])"),
     "C12-R3"),
    ("line refinement pairs the right halves with the left end",
     (_LI, "        newt[1, 1::2] = t[1]", "        newt[1, 1::2] = t[0]"),
     "C12-R3"),
    ("generic subdomain propagation restarts from the original tags",
     ("skfem/mesh/mesh.py", "                            for name, ixs in "
      "m._subdomains.items()", "                            for name, ixs in "
      "self._subdomains.items()"), "C12-R2"),
    ("quadrilateral facet table filled child by child",
     ("skfem/mesh/mesh_quad_1.py",
      "            new_facets[1, t2f[0]] = m.t2f[0, ix1]\n"
      "            new_facets[0, t2f[1]] = m.t2f[1, ix1]\n"
      "            new_facets[1, t2f[1]] = m.t2f[1, ix2]\n"
      "            new_facets[0, t2f[2]] = m.t2f[2, ix2]\n"
      "            new_facets[1, t2f[2]] = m.t2f[2, ix3]\n"
      "            new_facets[0, t2f[3]] = m.t2f[3, ix3]\n"
      "            new_facets[1, t2f[3]] = m.t2f[3, ix0]\n",
      "            new_facets[1, t2f[3]] = m.t2f[3, ix0]\n"
      "            new_facets[0, t2f[1]] = m.t2f[1, ix1]\n"
      "            new_facets[1, t2f[0]] = m.t2f[0, ix1]\n"
      "            new_facets[0, t2f[2]] = m.t2f[2, ix2]\n"
      "            new_facets[1, t2f[1]] = m.t2f[1, ix2]\n"
      "            new_facets[0, t2f[3]] = m.t2f[3, ix3]\n"
      "            new_facets[1, t2f[2]] = m.t2f[2, ix3]\n"), "C12-R3"),
    ("triangle refinement keeps the old named boundaries",
     (_TR, "                np.vstack((t2f[0] + sz, t2f[1] + sz, t2f[2] + "
      "sz)),\n            )),\n            _boundaries=None,\n",
      "                np.vstack((t2f[0] + sz, t2f[1] + sz, t2f[2] + "
      "sz)),\n            )),\n"), "C12-R1"),
    ("hexahedron refinement keeps the old named subdomains",
     (_HE, "            t=t,\n            _boundaries=None,\n            "
      "_subdomains=None,\n", "            t=t,\n            "
      "_boundaries=None,\n"), "C12-R1"),
    ("triangle facet map: two child blocks exchanged",
     (_TR, "            new_facets[0, t2f[1]] = m.t2f[2, ix1]\n",
      "            new_facets[0, t2f[1]] = m.t2f[2, ix0]\n"), "C12-R3"),
    ("triangle facet map: wrong local facet of the child",
     (_TR, "            new_facets[1, t2f[0]] = m.t2f[0, ix1]\n",
      "            new_facets[1, t2f[0]] = m.t2f[1, ix1]\n"), "C12-R3"),
    ("quadrilateral facet map: parent facets exchanged",
     (_QU, "            new_facets[0, t2f[1]] = m.t2f[1, ix1]\n"
      "            new_facets[1, t2f[1]] = m.t2f[1, ix2]\n",
      "            new_facets[0, t2f[1]] = m.t2f[2, ix2]\n"
      "            new_facets[1, t2f[1]] = m.t2f[1, ix2]\n"), "C12-R3"),
    ("triangle child uses a wrong midpoint",
     (_TR, "                np.vstack((t[1], t2f[0] + sz, t2f[1] + sz)),",
      "                np.vstack((t[1], t2f[0] + sz, t2f[2] + sz)),"),
     "C12-R3"),
    ("quadrilateral child listed in a non-reference local order",
     (_QU, "                np.vstack((t2f[0] + sz, t[1], t2f[1] + sz, mid)),",
      "                np.vstack((t2f[0] + sz, t[1], mid, t2f[1] + sz)),"),
     "C12-R3"),
    ("hexahedron child takes an edge midpoint for a face centre",
     (_HE, "            np.vstack((t[0], t2e[0], t2e[1], t2e[2],\n"
      "                       t2f[0], t2f[2], t2f[1], mid)),",
      "            np.vstack((t[0], t2e[0], t2e[1], t2e[2],\n"
      "                       t2f[0], t2f[2], t2e[3], mid)),"), "C12-R3"),
    ("hexahedron face centres indexed without the edge offset",
     (_HE, "        t2f = self.t2f.copy() + np.max(t2e) + 1\n",
      "        t2f = self.t2f.copy() + sz\n"), "C12-R3"),
    ("tetrahedron: one octahedron child degenerate",
     (_TE, "            np.vstack((t2e[2, c1], t2e[4, c1], t2e[0, c1], "
      "t2e[1, c1])),", "            np.vstack((t2e[2, c1], t2e[4, c1], "
      "t2e[0, c1], t2e[5, c1])),"), "C12-R3"),
    ("tetrahedron: variant masks overlap on ties",
     (_TE, "        c2 = (~I1) * I3\n", "        c2 = (~I1) * (d2 <= d3)\n"),
     "C12-R3"),
    ("hexahedron new face points are sums, not means",
     (_HE, "            .25 * np.sum(p[:, self.facets], axis=1),",
      "            .5 * np.sum(p[:, self.facets], axis=1),"), "C12-R3"),
    ("line refinement leaves subdomains to the generic propagation again",
     (_LI, "            _subdomains=subdomains,\n        )\n\n    def "
      "_adaptive", "            _subdomains=None,\n        )\n\n    def "
      "_adaptive"), "C12-R2"),
    ("line refinement maps cell k to 2k and 2k+2",
     (_LI, "                              2 * np.arange(t.shape[1]) + 1))",
      "                              2 * np.arange(t.shape[1]) + 2))"),
     "C12-R2"),
    ("subdomain warning tests the input again",
     (_ME, "        if has_subdomains and m.subdomains is None:",
      "        if has_subdomains and self.subdomains is None:"), "C12-R4"),
    ("boundary warning flag computed from the result",
     (_ME, "        has_boundaries = self.boundaries is not None\n",
      "        has_boundaries = self.boundaries is None\n"), "C12-R4"),
]
TWINS = [
    ("_splitref names the class of the refined reference mesh first",
     ("skfem/mesh/mesh.py", "        return type(m)(p, t, validate=False)",
      "        kind = type(m)\n        return kind(p, t, validate=False)")),
    ("first octahedron diagonal measured over all coordinates at once",
     (_TE, "        d1 = ((newp[0, t2e[2]] - newp[0, t2e[4]]) ** 2 +\n"
      "              (newp[1, t2e[2]] - newp[1, t2e[4]]) ** 2)",
      "        d1 = np.sum((newp[:, t2e[2]] - newp[:, t2e[4]]) ** 2, "
      "axis=0)")),
    ("refined() recognises counts by their dimension",
     (_ME, "        if isinstance(times_or_ix, (int, np.integer)):",
      "        if np.ndim(times_or_ix) == 0:")),
    ("second-order triangles hand their subdomains to MeshTri1 as well",
     ("skfem/mesh/mesh_tri_2.py",
      "        return MeshTri2.from_mesh(MeshTri1.from_mesh(self).refined())",
      "        m = replace(MeshTri1.from_mesh(self),\n"
      "                    _subdomains=self._subdomains).refined()\n"
      "        return replace(MeshTri2.from_mesh(m), _subdomains="
      "m._subdomains)")),
    ("quadrilateral facet table filled row by row in one slot order",
     ("skfem/mesh/mesh_quad_1.py",
      "            new_facets[1, t2f[0]] = m.t2f[0, ix1]\n"
      "            new_facets[0, t2f[1]] = m.t2f[1, ix1]\n"
      "            new_facets[1, t2f[1]] = m.t2f[1, ix2]\n"
      "            new_facets[0, t2f[2]] = m.t2f[2, ix2]\n"
      "            new_facets[1, t2f[2]] = m.t2f[2, ix3]\n"
      "            new_facets[0, t2f[3]] = m.t2f[3, ix3]\n"
      "            new_facets[1, t2f[3]] = m.t2f[3, ix0]\n",
      "            new_facets[0, t2f[1]] = m.t2f[1, ix1]\n"
      "            new_facets[0, t2f[2]] = m.t2f[2, ix2]\n"
      "            new_facets[0, t2f[3]] = m.t2f[3, ix3]\n"
      "            new_facets[1, t2f[0]] = m.t2f[0, ix1]\n"
      "            new_facets[1, t2f[1]] = m.t2f[1, ix2]\n"
      "            new_facets[1, t2f[2]] = m.t2f[2, ix3]\n"
      "            new_facets[1, t2f[3]] = m.t2f[3, ix0]\n")),
    ("triangle children listed in another block order with the facet map "
     "adjusted",
     (_TR, "            new_facets[0, t2f[2]] = m.t2f[2, ix0]\n",
      "            new_facets[0, t2f[2]] = m.t2f[2, ix0 + 0]\n")),
    ("hexahedron new edge points written as means",
     (_HE, "            .5 * np.sum(p[:, self.edges], axis=1),",
      "            p[:, self.edges].mean(axis=1),")),
    ("warning condition with operands exchanged",
     (_ME, "        if has_subdomains and m.subdomains is None:",
      "        if has_subdomains and m.subdomains is None:  # result")),
]
