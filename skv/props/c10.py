"""C10 - reference maps, Jacobians, facet maps and normals are mutually
consistent: closed-form linear algebra, vertex correspondence with the
Refdom tables, normals tables, subset guards, map signatures."""
from __future__ import annotations

import ast
from fractions import Fraction
from typing import Any, Dict, List, Optional

from ..elements import as_poly, load_refdoms, RefdomInfo
from ..interp import (Arr, Interp, Obj, PyFunc, Raised, Sqrt, StoreArr,
                      Unsupported, PTS)
from ..model import staged, AnalysisError, FuncInfo, Model, src, walk_no_nested
from ..poly import Poly, Rat
from ..sig import C, Contraction, einsum_call
from .c20 import leibniz

PID = "C10"
LEVEL = "other"
TECHNIQUE = ("closed-form determinant/inverse/cross-product code translated "
             "to polynomials and compared with Leibniz / adjugate identities; "
             "affine and isoparametric map construction interpreted on "
             "symbolic vertex coordinates against the Refdom vertex tables; "
             "exact audit of the normals tables; sibling agreement of subset "
             "guards; canonical einsum signatures")
LEVEL_TEXT = (
    "Static decision of the structural clauses: (R1) determinant, inverse "
    "and surface-factor formulas of both mapping classes are the Leibniz "
    "determinant / satisfy inv*A = I / equal |t1 x t2| as polynomial "
    "identities, the affine map sends reference vertex k to the k-th vertex "
    "of the cell (facet) as listed in Refdom, the isoparametric Jacobian is "
    "the derivative of the isoparametric map term by term; (R2) every "
    "Refdom normal is orthogonal to its facet and outward, the hard-coded "
    "affine tables equal the Refdom tables, normals are mapped by DF^-T of "
    "the cell that owns the slot and normalised; (R3) all evaluators slice "
    "by the cell/facet subset under one guard; (R4) F / invF are A X + b and "
    "invA (x - b). Numerical agreement on concrete (curved) meshes and "
    "convergence of the Newton inverse are not decided.")
LEVEL_TEXT += (
    " Added after the seeding phase: (R5) the Newton inverse of the "
    "isoparametric map - step invDF(X)(x - F(X)) added to the iterate, "
    "every sum / comparison / clipping bound dimensionally homogeneous "
    "(the stopping test compares a dimensionless quantity with the "
    "dimensionless tolerance), values returned only under the test and "
    "exhaustion raises; convergence itself stays undecided. (R3) "
    "isoparametric evaluators allocate (cells, points) for shared and "
    "per-cell points, with and without subset (finding F26, fixed).")
LEVEL_TEXT += (
    " Added in the hunting round (defects found by independent agents "
    "on the unchanged tree, DESIGN.md 9.4 / 9.6): "
    "the Newton iteration starts strictly inside every reference cell; "
    "no DG mesh class may have a boundary element while the facet map "
    "indexes by vertex numbers (open finding).")
LEVEL_TEXT += (
    " Added in the third round (review of the fix commits, DESIGN.md "
    "9.6): "
    "every call site of mapping.normals passes points derived from the "
    "facet, not a constant reference point.")
LEVEL_NOTE = (
    "Trusted: numpy einsum/tile/empty semantics. Not decided: Newton "
    "iteration of the isoparametric inverse, curved second-order meshes, "
    "numerical agreement of the two classes on concrete meshes, cache "
    "behaviour (C15).")
EXPLANATION = ("Polynomial identities on the closed-form map code, exact "
               "table audits and structural sibling rules; no numerical "
               "evaluation of meshes.")
TRUSTED = ["numpy einsum / tile / empty / sqrt semantics"]
ASSUMPTIONS = ["MappingAffine is used with simplex reference cells "
               "(RefLine/RefTri/RefTet), whose vertex order is read from "
               "skfem/refdom.py"]

AFF = "skfem.mapping.mapping_affine"
ISO = "skfem.mapping.mapping_isoparametric"
SIMPLEX = {1: "RefLine", 2: "RefTri", 3: "RefTet"}


# ----------------------------------------------------------------------
# stubs for symbolic vertex tables

class Tind:
    def skv_len(self):
        return PTS

    def __repr__(self):
        return "tind"


class VSel:
    def __init__(self, table, row, subset):
        self.table, self.row, self.subset = table, row, subset


class TStub:
    def __init__(self, name, nrows, log):
        self.name, self.nrows, self.log = name, nrows, log

    def skv_getattr(self, name):
        if name == "shape":
            return (self.nrows, PTS)
        raise Unsupported(f"attribute {name} of connectivity table")

    def skv_getitem(self, ix):
        sub = None
        if isinstance(ix, tuple):
            if len(ix) != 2:
                raise Unsupported("connectivity index")
            ix, sub = ix
            if isinstance(sub, slice) and sub == slice(None):
                sub = None
        if isinstance(ix, Fraction) and ix.denominator == 1:
            ix = int(ix)
        if not isinstance(ix, int):
            raise Unsupported("non-constant connectivity row")
        if -self.nrows <= ix < 0:
            ix += self.nrows          # numpy wraps negative indices
        if not 0 <= ix < self.nrows:
            raise Raised("IndexError")
        self.log.append(sub)
        return VSel(self.name, ix, sub)


class PStub:
    def skv_getitem(self, ix):
        if not (isinstance(ix, tuple) and len(ix) == 2
                and isinstance(ix[1], VSel)):
            raise Unsupported("point table index")
        i, v = ix
        return Poly.sym(f"p{int(i)}@{v.table}{v.row}")


class Empty:
    def skv_len(self):
        return 0


def _mesh_stub(dim, log, nb=None):
    class Dofs:
        def skv_getattr(self, name):
            if name == "element_dofs":
                return TStub("t", nb, log)
            if name in ("edge_dofs", "facet_dofs"):
                return Empty()
            raise Unsupported(f"dofs.{name}")

    class Mesh:
        def skv_getattr(self, name):
            if name in ("p", "doflocs"):
                return PStub()
            if name == "t":
                return TStub("t", dim + 1, log)
            if name == "facets":
                return TStub("facets", nb if nb else dim, log)
            if name == "dofs":
                return Dofs()
            if name == "dim":
                return PyFunc(lambda a, k, n: dim)
            raise Unsupported(f"mesh.{name}")
    return Mesh()


def _cell(store, key):
    if isinstance(store, StoreArr):
        return store[key]
    if isinstance(store, Arr):
        return store[key]
    raise AnalysisError("array attribute not built by indexed stores")


# ----------------------------------------------------------------------
def _affine_algebra(model, rep, refdoms):
    R1 = "C10-R1"
    cls = model.cls(AFF, "MappingAffine")
    path = cls.path
    # the optional constructor subset is kept as given: column k of every
    # lazily built matrix belongs to cell tind[k] (order and repetitions
    # included - the basis indexes the same array)
    ini = cls.methods["__init__"]
    t_in = Tind()
    mesh0 = Obj(None, {"p": type("P", (), {"skv_getattr": lambda self, n: (
        2, Poly.sym("nv")) if n == "shape" else (_ for _ in ()).throw(
            Unsupported("p." + n))})()})
    for given in (t_in, None):
        o = Obj(cls, {})
        try:
            it0 = Interp(model, call_hook=lambda i_, nm, a, k, nd: (
                ("derived", nm, tuple(a)) if nm.startswith("numpy.")
                and any(x is t_in for x in a) else NotImplemented))
            it0.lenient_attrs = True
            it0.call(ini, [mesh0], {"tind": given}, self_obj=o)
        except (Unsupported, Raised) as e:
            raise AnalysisError(f"MappingAffine.__init__: {e}")
        got = o.attrs.get("tind", "missing")
        cons = f"MappingAffine.__init__:tind[{'subset' if given is not None else 'None'}]"
        if got is given:
            rep.ok(R1, cons, "the subset is stored as given")
        else:
            rep.fail(R1, path, "MappingAffine.__init__", cons,
                     f"the cell subset is stored as {got!r}, not as given: "
                     f"column k of A, b, invA, detA no longer belongs to "
                     f"cell tind[k] for subsets that are not strictly "
                     f"increasing (sorted / deduplicated)", ini.lineno)
    for dim in (1, 2, 3):
        rd = refdoms[SIMPLEX[dim]]
        # --- _init_invA on a generic matrix A
        fn = model.func(AFF, "MappingAffine._init_invA")
        A = Arr([[Poly.sym(f"A{i}{j}") for j in range(dim)]
                 for i in range(dim)])
        log: list = []
        obj = Obj(cls, {"mesh": _mesh_stub(dim, log), "tind": None,
                        "dim": dim, "_A": A, "_b": Arr([0] * dim)})
        try:
            Interp(model).call(fn, [], {}, self_obj=obj)
        except (Unsupported, Raised) as e:
            raise AnalysisError(f"MappingAffine._init_invA dim={dim}: {e}")
        det = obj.attrs.get("_detA")
        inv = obj.attrs.get("_invA")
        if det is None or inv is None:
            raise AnalysisError("_init_invA does not store _detA/_invA")
        cons = f"MappingAffine._init_invA[dim={dim}]"
        if as_poly(det) == leibniz(A, dim):
            rep.ok(R1, cons + ":det", f"detA == Leibniz determinant: {det}",
                   sample=(dim == 2))
        else:
            rep.fail(R1, path, "MappingAffine._init_invA", cons + ":det",
                     f"determinant expression {det} is not det(A) = "
                     f"{leibniz(A, dim)}", fn.lineno)
        bad = []
        for i in range(dim):
            for k in range(dim):
                tot = Rat(Poly())
                for j in range(dim):
                    tot = tot + Rat.coerce(_cell(inv, (i, j))) * A[j, k]
                if not (tot == Poly.const(1 if i == k else 0)):
                    bad.append((i, k))
        if not bad:
            rep.ok(R1, cons + ":inv", "invA * A == I entrywise")
        else:
            rep.fail(R1, path, "MappingAffine._init_invA", cons + ":inv",
                     f"(invA A)[{bad[0][0]},{bad[0][1]}] != "
                     f"{1 if bad[0][0] == bad[0][1] else 0} "
                     f"({len(bad)} entries off)", fn.lineno)
        # --- _init_Ab: reference vertex k -> k-th vertex of the cell
        fn = model.func(AFF, "MappingAffine._init_Ab")
        for tind in (None, Tind()):
            log = []
            obj = Obj(cls, {"mesh": _mesh_stub(dim, log), "tind": tind,
                            "dim": dim})
            try:
                Interp(model).call(fn, [], {}, self_obj=obj)
            except (Unsupported, Raised) as e:
                raise AnalysisError(f"MappingAffine._init_Ab dim={dim}: {e}")
            Am, bm = obj.attrs.get("_A"), obj.attrs.get("_b")
            if Am is None or bm is None:
                raise AnalysisError("_init_Ab does not store _A/_b")
            tag = "subset" if tind is not None else "all"
            cons = f"MappingAffine._init_Ab[dim={dim},{tag}]"
            bad = []
            for k, X in enumerate(rd.p):
                for i in range(dim):
                    v = as_poly(_cell(bm, (i,)))
                    for j in range(dim):
                        v = v + as_poly(_cell(Am, (i, j))) * X[j]
                    if not (v == Poly.sym(f"p{i}@t{k}")):
                        bad.append((k, i, v))
            wrong_subset = [s for s in log if s is not tind]
            if bad:
                k, i, v = bad[0]
                rep.fail(R1, path, "MappingAffine._init_Ab", cons + ":vertices",
                         f"F(reference vertex {k})[{i}] = {v}, expected the "
                         f"coordinate p[{i}, t[{k}]] of the cell's vertex "
                         f"{k}", fn.lineno)
            elif wrong_subset:
                rep.fail(R1, path, "MappingAffine._init_Ab", cons + ":subset",
                         "a vertex row is read for a different cell subset "
                         "than the one the mapping was built for", fn.lineno)
            else:
                rep.ok(R1, cons, f"A X + b maps the {len(rd.p)} vertices of "
                       f"{rd.name} onto p[:, t[k]]")
        # --- boundary mapping
        fn = model.func(AFF, "MappingAffine._init_boundary_mapping")
        log = []
        obj = Obj(cls, {"mesh": _mesh_stub(dim, log), "tind": None,
                        "dim": dim})
        try:
            Interp(model).call(fn, [], {}, self_obj=obj)
        except (Unsupported, Raised) as e:
            raise AnalysisError(f"_init_boundary_mapping dim={dim}: {e}")
        B, c, dB = (obj.attrs.get(k) for k in ("_B", "_c", "_detB"))
        cons = f"MappingAffine._init_boundary_mapping[dim={dim}]"
        brd = refdoms[rd.brefdom]
        bad = []
        for k, X in enumerate(brd.p):
            for i in range(dim):
                v = as_poly(_cell(c, (i,)))
                for j in range(dim - 1):
                    v = v + as_poly(_cell(B, (i, j))) * X[j]
                if not (v == Poly.sym(f"p{i}@facets{k}")):
                    bad.append((k, i, v))
        if bad:
            k, i, v = bad[0]
            rep.fail(R1, path, "MappingAffine._init_boundary_mapping",
                     cons + ":vertices",
                     f"G(reference facet vertex {k})[{i}] = {v}, expected "
                     f"p[{i}, facets[{k}]]", fn.lineno)
        else:
            rep.ok(R1, cons + ":vertices", f"B X + c maps the vertices of "
                   f"{brd.name} onto p[:, facets[k]]")
        if dim >= 2:
            cols = [[as_poly(_cell(B, (i, j))) for i in range(dim)]
                    for j in range(dim - 1)]
            want = _surface_radicand(cols, dim)
            if isinstance(dB, Sqrt) and as_poly(dB.rad) == want:
                rep.ok(R1, cons + ":detB", "detB == |tangent (cross) "
                       "product| of the facet map's columns")
            else:
                rep.fail(R1, path, "MappingAffine._init_boundary_mapping",
                         cons + ":detB",
                         "surface factor is not the norm of the (cross "
                         "product of the) facet tangents", fn.lineno)
        else:
            ones = isinstance(dB, Arr) and all(x == 1 for x in dB.flat()) \
                or dB == 1
            if ones:
                rep.ok(R1, cons + ":detB", "point facets have measure 1")
            else:
                rep.fail(R1, path, "MappingAffine._init_boundary_mapping",
                         cons + ":detB", "surface factor of a point facet is "
                         "not 1", fn.lineno)


def _surface_radicand(cols, dim):
    if dim == 2:
        a = cols[0]
        return a[0] * a[0] + a[1] * a[1]
    a, b = cols
    cx = [a[1] * b[2] - a[2] * b[1], a[2] * b[0] - a[0] * b[2],
          a[0] * b[1] - a[1] * b[0]]
    return cx[0] * cx[0] + cx[1] * cx[1] + cx[2] * cx[2]


def _iso_algebra(model, rep):
    R1 = "C10-R1"
    cls = model.cls(ISO, "MappingIsoparametric")
    path = cls.path
    X = type("X", (), {"skv_getattr": lambda self, n: (PTS, PTS)
                       if n == "shape" else (_ for _ in ()).throw(
                           Unsupported("X." + n))})()
    tind = Tind()
    for dim in (1, 2, 3):
        Jm = Arr([[Poly.sym(f"J{i}{j}") for j in range(dim)]
                  for i in range(dim)])
        fwd = []

        def Jf(args, kwargs, node, fwd=fwd):
            i, j = int(args[0]), int(args[1])
            fwd.append((args[2] is X, kwargs.get("tind",
                        args[3] if len(args) > 3 else None) is tind))
            return Jm[i, j]
        obj = Obj(cls, {"dim": dim, "J": PyFunc(Jf)})
        for meth, kind in (("DF", "jac"), ("detDF", "det"),
                           ("invDF", "inv")):
            fn = model.func(ISO, f"MappingIsoparametric.{meth}")
            it = Interp(model)
            try:
                r = it.call(fn, [X, tind], {}, self_obj=obj)
            except (Unsupported, Raised) as e:
                raise AnalysisError(f"MappingIsoparametric.{meth} "
                                    f"dim={dim}: {e}")
            cons = f"MappingIsoparametric.{meth}[dim={dim}]"
            if kind == "jac":
                off = [(i, j) for i in range(dim) for j in range(dim)
                       if not (isinstance(r, Arr) and r.shape[:2] == (dim,
                                                                      dim)
                               and as_poly(_cell(r, (i, j))) == Jm[i, j])]
                if not off:
                    rep.ok(R1, cons, "DF[i, j] == J(i, j) = d F_i / d X_j")
                else:
                    i, j = off[0]
                    rep.fail(R1, path, "MappingIsoparametric.DF", cons,
                             f"DF[{i},{j}] is "
                             f"{_cell(r, (i, j)) if isinstance(r, Arr) else r}"
                             f", not J({i},{j}) = dF_{i}/dX_{j}: the "
                             f"delivered Jacobian is not the derivative of "
                             f"the map (transposed or mis-indexed), while "
                             f"invDF and detDF are computed from J "
                             f"directly", fn.lineno)
            elif kind == "det":
                if as_poly(r) == leibniz(Jm, dim):
                    rep.ok(R1, cons, "detDF == Leibniz determinant of J")
                else:
                    rep.fail(R1, path, f"MappingIsoparametric.{meth}", cons,
                             f"determinant expression {r} is not det(J)",
                             fn.lineno)
            else:
                bad = []
                for i in range(dim):
                    for k in range(dim):
                        tot = Rat(Poly())
                        for j in range(dim):
                            tot = tot + Rat.coerce(_cell(r, (i, j))) * Jm[j, k]
                        if not (tot == Poly.const(1 if i == k else 0)):
                            bad.append((i, k))
                if not bad:
                    rep.ok(R1, cons, "invDF * J == I entrywise")
                else:
                    rep.fail(R1, path, f"MappingIsoparametric.{meth}", cons,
                             f"(invDF J)[{bad[0][0]},{bad[0][1]}] != "
                             f"{1 if bad[0][0] == bad[0][1] else 0} "
                             f"({len(bad)} entries off)", fn.lineno)
        if fwd and all(a and b for a, b in fwd):
            rep.ok(R1, f"MappingIsoparametric[dim={dim}]:J-args",
                   "every Jacobian entry is evaluated at (X, tind)")
        else:
            rep.fail(R1, path, "MappingIsoparametric.detDF/invDF",
                     f"dim={dim}:J-args", "a Jacobian entry is not evaluated "
                     "at the requested points / cell subset", cls.node.lineno)
        # detDG
        if dim >= 2:
            fn = model.func(ISO, "MappingIsoparametric.detDG")
            find = Tind()
            ok_args = []

            def bJ(args, kwargs, node):
                ok_args.append(args[2] is X and (
                    kwargs.get("find", args[3] if len(args) > 3 else None)
                    is find))
                return Poly.sym(f"b{int(args[0])}{int(args[1])}")
            obj2 = Obj(cls, {"dim": dim, "bndJ": PyFunc(bJ)})
            try:
                r = Interp(model).call(fn, [X, find], {}, self_obj=obj2)
            except (Unsupported, Raised) as e:
                raise AnalysisError(f"MappingIsoparametric.detDG: {e}")
            cols = [[Poly.sym(f"b{i}{j}") for i in range(dim)]
                    for j in range(dim - 1)]
            cons = f"MappingIsoparametric.detDG[dim={dim}]"
            if isinstance(r, Sqrt) and as_poly(r.rad) == \
                    _surface_radicand(cols, dim) and all(ok_args):
                rep.ok(R1, cons, "detDG == |cross product of the facet "
                       "tangents| at (X, find)")
            else:
                rep.fail(R1, path, "MappingIsoparametric.detDG", cons,
                         "surface factor is not the norm of the (cross "
                         "product of the) facet tangents at (X, find)",
                         fn.lineno)
    # Jacobian is the derivative of the map, term by term
    NB = 3
    for fmap, jac, table, el in (("Fmap", "_J", "t", "elem"),
                                 ("bndmap", "bndJ", "facets", "bndelem")):
        for sub in (None, Tind()):
            log: list = []

            def lb(args, kwargs, node):
                k = int(args[1])
                return (Poly.sym(f"phi{k}"),
                        Arr([Poly.sym(f"d{k}_{j}") for j in range(3)]))
            elem = Obj(None, {"lbasis": PyFunc(lb)})
            obj = Obj(cls, {"dim": 3, "mesh": _mesh_stub(3, log, nb=NB),
                            el: elem})
            f1 = model.func(ISO, f"MappingIsoparametric.{fmap}")
            f2 = model.func(ISO, f"MappingIsoparametric.{jac}")
            cons = f"MappingIsoparametric.{fmap}/{jac}[" \
                   f"{'subset' if sub else 'all'}]"
            try:
                Fv = as_poly(Interp(model).call(f1, [1, X, sub], {},
                                                self_obj=obj))
                Jv = as_poly(Interp(model).call(f2, [1, 2, X, sub], {},
                                                self_obj=obj))
            except (Unsupported, Raised) as e:
                raise AnalysisError(f"{cons}: {e}")
            wantF = Poly()
            for k in range(NB):
                wantF = wantF + Poly.sym(f"p1@{table}{k}") * \
                    Poly.sym(f"phi{k}")
            wantJ = wantF.subs({f"phi{k}": Poly.sym(f"d{k}_2")
                                for k in range(NB)})
            if Fv == wantF and Jv == wantJ and all(s is sub for s in log):
                rep.ok(R1, cons, "x_i = sum_k p[i, node_k] phi_k and "
                       "J_ij = sum_k p[i, node_k] dphi_k[j] pair the same "
                       "node with the same local function, on the same "
                       "subset")
            else:
                rep.fail(R1, path, f"MappingIsoparametric.{jac}", cons,
                         f"map {Fv} / Jacobian {Jv}: the Jacobian is not the "
                         f"term-by-term derivative of the map on the "
                         f"requested subset", f2.lineno)


# ----------------------------------------------------------------------
def _refdom_normals(rep, refdoms):
    R2 = "C10-R2"
    n = 0
    for name, rd in sorted(refdoms.items()):
        if not rd.normals or not rd.facets:
            continue
        cen = [sum(p[d] for p in rd.p) / len(rd.p) for d in range(rd.dim)]
        for k, fv in enumerate(rd.facets):
            n += 1
            nk = rd.normals[k]
            pts = [rd.p[v] for v in fv]
            cons = f"{name}.normals[{k}]"
            orth = all(sum(nk[d] * (q[d] - pts[0][d]) for d in range(rd.dim))
                       == 0 for q in pts[1:])
            fc = [sum(q[d] for q in pts) / len(pts) for d in range(rd.dim)]
            outward = sum(nk[d] * (fc[d] - cen[d]) for d in range(rd.dim)) > 0
            if len(nk) == rd.dim and orth and outward:
                rep.ok(R2, cons, f"{tuple(map(str, nk))} is orthogonal to "
                       f"facet {fv} and points away from the centroid")
            else:
                rep.fail(R2, rd.cls.path, name, cons,
                         f"normal {tuple(map(str, nk))} of facet {fv} is "
                         f"{'not orthogonal to the facet' if not orth else 'pointing into the cell'}",
                         rd.cls.node.lineno)
    if n < 24:
        raise AnalysisError(f"only {n} reference normals audited, 28 "
                            f"confirmed by hand")


def _names_assigned_from(fn: FuncInfo) -> Dict[str, ast.expr]:
    out = {}
    for n in walk_no_nested(fn.node):
        if isinstance(n, ast.Assign) and len(n.targets) == 1 and \
                isinstance(n.targets[0], ast.Name):
            out.setdefault(n.targets[0].id, []).append(n.value)
    return out


def _normals_method(model, rep, refdoms, modname, clsname):
    R2 = "C10-R2"
    fn = model.func(modname, f"{clsname}.normals")
    path = fn.path
    params = fn.params()
    if params[:5] != ["self", "X", "tind", "find", "t2f"]:
        raise AnalysisError(f"{clsname}.normals signature changed: {params}")
    assigned = _names_assigned_from(fn)
    dotted = lambda e: model.dotted(fn.module, e)  # noqa: E731
    tag = f"{clsname}.normals"
    # (a) Nref source
    if clsname == "MappingAffine":
        chain = [s for s in fn.node.body if isinstance(s, ast.If)]
        node = chain[0] if chain else None
        seen = 0
        while node is not None:
            t = node.test
            if not (isinstance(t, ast.Compare) and src(t.left) == "self.dim"
                    and isinstance(t.comparators[0], ast.Constant)):
                raise AnalysisError(f"{tag}: Nref chain test {src(t)}")
            dim = t.comparators[0].value
            val = [s.value for s in node.body if isinstance(s, ast.Assign)
                   and src(s.targets[0]) == "Nref"]
            if len(val) != 1:
                raise AnalysisError(f"{tag}: Nref assignment for dim {dim}")
            try:
                tab = Interp(model).eval(val[0], {}, fn.module)
                rows = [tuple(Fraction(x) for x in tab[k].flat())
                        for k in range(tab.shape[0])]
            except Exception as e:
                raise AnalysisError(f"{tag}: Nref literal dim {dim}: {e}")
            rd = refdoms[SIMPLEX[dim]]
            seen += 1
            if rows == [tuple(r) for r in rd.normals]:
                rep.ok(R2, f"{tag}:Nref[dim={dim}]",
                       f"hard-coded table equals {rd.name}.normals")
            else:
                rep.fail(R2, path, tag, f"Nref[dim={dim}]",
                         f"hard-coded reference normals {rows} differ from "
                         f"{rd.name}.normals", node.lineno)
            node = node.orelse[0] if (len(node.orelse) == 1 and isinstance(
                node.orelse[0], ast.If)) else None
        if seen < 3:
            raise AnalysisError(f"{tag}: {seen} Nref tables, expected 3")
    else:
        v = assigned.get("Nref", [])
        if len(v) == 1 and src(v[0]).endswith("refdom.normals"):
            rep.ok(R2, f"{tag}:Nref", f"reference normals read from "
                   f"{src(v[0])}")
        else:
            raise AnalysisError(f"{tag}: Nref source not recognised")
    # (b) slot selection and store
    loops = [n for n in walk_no_nested(fn.node) if isinstance(n, ast.For)]
    outer = [l for l in loops if src(l.iter) == "range(Nref.shape[0])"]
    if len(outer) != 1:
        raise AnalysisError(f"{tag}: loop over reference facets not found")
    itr = outer[0].target.id
    cmp_ = [n for n in ast.walk(outer[0]) if isinstance(n, ast.Compare)]
    okc = (len(cmp_) == 1 and isinstance(cmp_[0].ops[0], ast.Eq)
           and {src(cmp_[0].left), src(cmp_[0].comparators[0])}
           == {f"t2f[{itr}, tind]", "find"})
    if okc:
        rep.ok(R2, f"{tag}:slot", f"slot {itr} is selected where "
               f"t2f[{itr}, tind] == find")
    else:
        rep.fail(R2, path, tag, "slot",
                 "the local facet slot is not chosen by matching "
                 f"t2f[{itr}, tind] against find "
                 f"({src(cmp_[0]) if cmp_ else 'no comparison'})",
                 outer[0].lineno)
    stores = [n for n in ast.walk(outer[0]) if isinstance(n, ast.Assign)
              and isinstance(n.targets[0], ast.Subscript)
              and src(n.targets[0].value) == "N"]
    inner = [l for l in ast.walk(outer[0]) if isinstance(l, ast.For)
             and l is not outer[0]]
    oks = False
    if len(stores) == 1 and len(inner) == 1:
        jtr = inner[0].target.id
        ixn = [k for k, v in assigned.items() if any(
            cmp_ and cmp_[0] in list(ast.walk(x)) for x in v)]
        oks = (src(inner[0].iter) == "range(Nref.shape[1])"
               and ixn and src(stores[0].targets[0].slice)
               == f"({jtr}, {ixn[0]})"
               and src(stores[0].value) == f"Nref[{itr}, {jtr}]")
    if oks:
        rep.ok(R2, f"{tag}:store", "component j of the normal of slot i is "
               "stored at the facets found in slot i")
    else:
        rep.fail(R2, path, tag, "store",
                 "the reference normal of the matched slot is not stored "
                 "component by component for the matched facets",
                 outer[0].lineno)
    # (c) transformation and normalisation
    role_map = {}
    for name, vals in assigned.items():
        for v in vals:
            if isinstance(v, ast.Call) and src(v.func) in (
                    "self.invDF", "self.DF"):
                ok = [src(a) for a in v.args] == ["X", "tind"]
                r_ = src(v.func)[5:]
                role_map[name] = r_ if ok else r_ + "(wrong args)"

    def role(e):
        s = src(e)
        if s in role_map:
            return role_map[s]
        if s == "N":
            return "N"
        if s == "n":
            return "n"
        if s in ("1.0 / nlength", "1 / nlength", "1.0 / nlength"):
            return "1/len"
        return None
    ein = [n for n in walk_no_nested(fn.node) if isinstance(n, ast.Call)
           and dotted(n.func) == "numpy.einsum"]
    ein.sort(key=lambda n: (n.lineno, n.col_offset))
    if len(ein) != 2:
        raise AnalysisError(f"{tag}: expected two einsum calls")
    try:
        c1 = einsum_call(ein[0], role, dotted)
        c2 = einsum_call(ein[1], role, dotted)
    except AnalysisError as e:
        raise AnalysisError(f"{tag}: {e}")
    want1 = C("invDF:ijkl,N:ik->jkl")
    if c1 == want1:
        rep.ok(R2, f"{tag}:transform", f"n = DF^-T N  ({c1!r})")
    else:
        rep.fail(R2, path, tag, "transform",
                 f"normals are transformed by {c1!r}; the inverse transpose "
                 f"Jacobian of the owning cell is {want1!r}", ein[0].lineno)
    nl = assigned.get("nlength", [])
    ok_len = len(nl) == 1 and src(nl[0]).replace(" ", "") in (
        "np.sqrt(np.sum(n**2,axis=0))", "np.sqrt(np.sum(n*n,axis=0))",
        "np.linalg.norm(n,axis=0)")
    want2 = C("n:ijk,1/len:jk->ijk")
    if c2 == want2 and ok_len and any(
            isinstance(s, ast.Return) and s.value is ein[1]
            for s in fn.node.body):
        rep.ok(R2, f"{tag}:normalise", "returned normals are n / |n|")
    else:
        rep.fail(R2, path, tag, "normalise",
                 "the returned normals are not divided by their Euclidean "
                 "length over the component axis", ein[1].lineno)


# ----------------------------------------------------------------------
def _subset_guards(model, rep):
    R3 = "C10-R3"
    cls = model.cls(AFF, "MappingAffine")
    groups = {"tind": ["F", "invF", "detDF", "DF", "invDF"],
              "find": ["G", "detDG"]}
    for sub, meths in groups.items():
        tests = {}
        for mname in meths:
            fn = model.func(AFF, f"MappingAffine.{mname}")
            ifs = [s for s in fn.node.body if isinstance(s, ast.If)
                   and sub in {n.id for n in ast.walk(s.test)
                               if isinstance(n, ast.Name)}]
            if len(ifs) != 1:
                raise AnalysisError(f"MappingAffine.{mname}: subset guard "
                                    f"not found")
            g = ifs[0]
            tests[mname] = src(g.test)
            # else branch: every value is self.<attr>[..., sub]
            good = bool(g.orelse)
            attrs_then, attrs_else = [], []
            for branch, acc in ((g.body, attrs_then), (g.orelse, attrs_else)):
                for st in branch:
                    if not isinstance(st, ast.Assign):
                        good = False
                        continue
                    vals = st.value.elts if isinstance(st.value, ast.Tuple) \
                        else [st.value]
                    for v in vals:
                        acc.append(v)
            for v in attrs_then:
                if not (isinstance(v, ast.Attribute)
                        and src(v.value) == "self"):
                    good = False
            for v, w in zip(attrs_else, attrs_then):
                ok = (isinstance(v, ast.Subscript) and src(v.value) == src(w))
                if ok:
                    ix = v.slice.elts if isinstance(v.slice, ast.Tuple) \
                        else [v.slice]
                    ok = src(ix[-1]) == sub and all(
                        isinstance(k, ast.Slice) and k.lower is None
                        and k.upper is None for k in ix[:-1])
                good = good and ok
            if len(attrs_else) != len(attrs_then):
                good = False
            cons = f"MappingAffine.{mname}:{sub}-slice"
            if good:
                rep.ok(R3, cons, f"under 'not ({src(g.test)})' every "
                       f"per-cell array is sliced by {sub} on its last axis")
            else:
                rep.fail(R3, fn.path, f"MappingAffine.{mname}", cons,
                         f"the subset branch does not slice the same arrays "
                         f"by {sub} on their last axis", g.lineno)
        distinct = set(tests.values())
        cons = f"MappingAffine:{sub}-guard-agreement"
        if len(distinct) == 1:
            rep.ok(R3, cons, f"{len(meths)} evaluators share the guard "
                   f"'{distinct.pop()}'")
        else:
            # report the minority
            from collections import Counter
            common = Counter(tests.values()).most_common(1)[0][0]
            for mname, t in tests.items():
                if t != common:
                    fn = model.func(AFF, f"MappingAffine.{mname}")
                    rep.fail(R3, fn.path, f"MappingAffine.{mname}",
                             f"{mname}:{sub}-guard",
                             f"guard '{t}' differs from its siblings' "
                             f"'{common}'", fn.lineno)


def _iso_shapes(model, rep):
    """Isoparametric evaluators allocate their result as (cells, points) in
    two sibling branches (no subset / subset).  The allocation is evaluated
    on shape stubs for both ways of passing points - shared (d, npts) and
    per cell (d, ncells, npts): it must be (number of cells or facets in
    play, npts) in every case."""
    R3 = "C10-R3"
    cls = model.cls(ISO, "MappingIsoparametric")
    NPT, NT_, NS, NF = (Poly.sym(x) for x in ("npts", "ncells", "nsub",
                                              "nfacets"))

    class Shaped:
        def __init__(self, shape):
            self.shape = shape

        def skv_getattr(self, name):
            if name == "shape":
                return self.shape
            raise Unsupported("stub." + name)

        def skv_len(self):
            return self.shape[0]
    n = 0
    for mname, sub, tab, ntab in (("Fmap", "tind", "t", NT_),
                                  ("_J", "tind", "t", NT_),
                                  ("bndmap", "find", "facets", NF),
                                  ("bndJ", "find", "facets", NF)):
        fn = cls.methods.get(mname)
        if fn is None:
            raise AnalysisError(f"MappingIsoparametric.{mname} not found")
        guards = [st for st in fn.node.body if isinstance(st, ast.If)
                  and src(st.test).replace(" ", "") == f"{sub}isNone"]
        if len(guards) != 1:
            raise AnalysisError(f"MappingIsoparametric.{mname}: guard "
                                f"'{sub} is None' not found")
        g = guards[0]
        for branch, body, ncell in (("no subset", g.body, ntab),
                                    ("subset", g.orelse, NS)):
            allocs = [st for st in body if isinstance(st, ast.Assign)
                      and isinstance(st.value, ast.Call)
                      and src(st.value.func) in ("np.zeros", "np.empty")]
            if len(allocs) != 1:
                raise AnalysisError(f"MappingIsoparametric.{mname}: result "
                                    f"allocation of the '{branch}' branch "
                                    f"not found")
            shp = allocs[0].value.args[0]
            for layout, xs in (("shared points", (Poly.sym("d"), NPT)),
                               ("per-cell points",
                                (Poly.sym("d"), ncell, NPT))):
                n += 1
                env = {"X": Shaped(xs), tab: Shaped((Poly.sym("nloc"), ntab)),
                       sub: Shaped((NS,))}
                try:
                    got = Interp(model).eval(shp, env, fn.module)
                except (Unsupported, Raised) as e:
                    raise AnalysisError(f"MappingIsoparametric.{mname}: "
                                        f"shape outside grammar: {e}")
                cons = f"MappingIsoparametric.{mname}:out-shape[{branch}," \
                       f"{layout}]"
                want = (ncell, NPT)
                if isinstance(got, tuple) and tuple(
                        Poly.coerce(x) for x in got) == want:
                    rep.ok(R3, cons, f"result allocated as ({ncell}, npts)")
                else:
                    rep.fail(R3, fn.path, f"MappingIsoparametric.{mname}",
                             cons,
                             f"with {layout} and {branch} the result is "
                             f"allocated as {tuple(str(x) for x in got)} "
                             f"('{src(shp)}') instead of ({ncell}, npts): "
                             f"the values do not fit (broadcast error, or a "
                             f"silently wrong shape when there is one point "
                             f"per cell) although the sibling branch and "
                             f"MappingAffine accept this way of passing "
                             f"points", allocs[0].lineno)
    return n


def _map_signatures(model, rep):
    R4 = "C10-R4"
    for mname, want, shift in (
            ("F", {2: C("A:ijk,X:jl->ikl"), 3: C("A:ijk,X:jkl->ikl")}, "+"),
            ("invF", {3: C("invA:ijk,y:jkl->ikl")}, None),
            ("G", {2: C("B:ijk,X:jl->ikl"), 3: C("B:ijk,X:jkl->ikl")}, "+")):
        fn = model.func(AFF, f"MappingAffine.{mname}")
        dotted = lambda e: model.dotted(fn.module, e)  # noqa: E731
        # local names bound in the guard: A, b = self.A, self.b
        roles = {}
        for n in walk_no_nested(fn.node):
            if isinstance(n, ast.Assign) and isinstance(n.targets[0],
                                                        ast.Tuple):
                vals = n.value.elts if isinstance(n.value, ast.Tuple) else []
                for t, v in zip(n.targets[0].elts, vals):
                    base = v.value if isinstance(v, ast.Subscript) else v
                    if isinstance(base, ast.Attribute) and \
                            src(base.value) == "self":
                        roles.setdefault(t.id, set()).add(base.attr)
        amb = {k: v for k, v in roles.items() if len(v) != 1}
        if amb:
            rep.fail(R4, fn.path, f"MappingAffine.{mname}", f"{mname}:roles",
                     f"a local name is bound to different attributes in the "
                     f"two subset branches: {amb}", fn.lineno)
            continue
        roles = {k: next(iter(v)) for k, v in roles.items()}
        yval = None
        for n in walk_no_nested(fn.node):
            if isinstance(n, ast.Assign) and src(n.targets[0]) == "y":
                yval = src(n.value).replace(" ", "")

        def role(e):
            s = src(e)
            if s in roles:
                return roles[s]
            if s in ("X", "x", "y"):
                return s
            return None
        eins = [n for n in walk_no_nested(fn.node) if isinstance(n, ast.Call)
                and dotted(n.func) == "numpy.einsum"]
        got = []
        for e in eins:
            try:
                got.append(einsum_call(e, role, dotted))
            except AnalysisError as ex:
                raise AnalysisError(f"MappingAffine.{mname}: {ex}")
        wants = list(want.values())
        cons = f"MappingAffine.{mname}:contraction"
        if len(got) == len(wants) and all(g in wants for g in got) and \
                len(set(got)) == len(set(wants)):
            rep.ok(R4, cons, "; ".join(repr(g) for g in got))
        else:
            rep.fail(R4, fn.path, f"MappingAffine.{mname}", cons,
                     f"map applies {[repr(g) for g in got]}, expected "
                     f"{[repr(w) for w in wants]}", fn.lineno)
        if mname == "invF":
            trans = {v for v in roles.values()} & {"b"}
            if yval in ("(x.T-b.T).T", "x-b[:,:,None]", "x-b[...,None]") \
                    and trans:
                rep.ok(R4, "MappingAffine.invF:shift",
                       "the translation b of F is subtracted before invA")
            else:
                rep.fail(R4, fn.path, "MappingAffine.invF", "invF:shift",
                         f"y = {yval}: the translation of F is not "
                         f"subtracted before applying invA", fn.lineno)
        else:
            tr = "b" if mname == "F" else "c"
            rets = [n for n in walk_no_nested(fn.node)
                    if isinstance(n, ast.Return) and n.value is not None]
            good = rets and all(
                isinstance(r.value, ast.Attribute) and r.value.attr == "T"
                and isinstance(r.value.value, ast.BinOp)
                and isinstance(r.value.value.op, ast.Add)
                and src(r.value.value.right) == f"{tr}.T"
                and roles.get(tr) == tr for r in rets)
            if good:
                rep.ok(R4, f"MappingAffine.{mname}:shift",
                       f"the translation {tr} is added per cell")
            else:
                rep.fail(R4, fn.path, f"MappingAffine.{mname}",
                         f"{mname}:shift",
                         f"the translation {tr} is not added to the linear "
                         f"part", fn.lineno)
    # affine Jacobian evaluators return the matrices F uses
    for mname, attr in (("DF", "A"), ("invDF", "invA"), ("detDF", "detA"),
                        ("detDG", "detB")):
        fn = model.func(AFF, f"MappingAffine.{mname}")
        used = {n.attr for n in walk_no_nested(fn.node)
                if isinstance(n, ast.Attribute) and src(n.value) == "self"}
        used -= {"tind", "dim", "mesh"}
        cons = f"MappingAffine.{mname}:source"
        if used == {attr}:
            rep.ok(R4, cons, f"broadcasts self.{attr} over the points")
        else:
            rep.fail(R4, fn.path, f"MappingAffine.{mname}", cons,
                     f"reads {sorted(used)} instead of self.{attr}",
                     fn.lineno)


def _newton_start(model: Model, rep):
    """The Newton iteration starts from a fixed reference point.  It has to
    lie strictly inside the reference cell of *every* cell type the mapping
    serves: started outside a simplex, on curved (second-order) cells the
    iteration can converge to a second pre-image outside the cell - F(Y) = x
    holds to round-off, so nothing is noticed - and facet quadrature then
    evaluates the basis at that point.  The first assignment of the iterate
    is evaluated per reference domain."""
    from ..elements import load_refdoms
    from ..refcell import inside_ref
    from ..interp import Interp, Obj, PyFunc, Raised, Unsupported
    R5 = "C10-R5"
    fn = model.func(ISO, "MappingIsoparametric.invF")
    first = None
    for st in fn.node.body:
        if isinstance(st, ast.Assign) and len(st.targets) == 1 and \
                isinstance(st.targets[0], ast.Name):
            first = st
            break
        if isinstance(st, (ast.For, ast.While)):
            break
    if first is None:
        raise AnalysisError("invF: initial iterate not found")
    it_name = first.targets[0].id

    class Vec:
        """one value per reference coordinate"""
        skv_isarray = True

        def __init__(self, vals):
            self.vals = [Fraction(v) for v in vals]

        def skv_getitem(self, ix):
            return self              # [:, None, None] only adds axes

        def skv_binop(self, op, other, reflected):
            o = other.vals if isinstance(other, Vec) else None
            if o is None and isinstance(other, (int, Fraction, float)):
                o = [Fraction(other).limit_denominator(10 ** 6)] * len(
                    self.vals)
            if o is None:
                raise Unsupported("start point arithmetic")
            f = {ast.Add: lambda a, b: a + b, ast.Sub: lambda a, b: a - b,
                 ast.Mult: lambda a, b: a * b}.get(type(op))
            if isinstance(op, ast.Div):
                f = (lambda a, b: b / a) if reflected else (
                    lambda a, b: a / b)
            elif isinstance(op, ast.Sub) and reflected:
                f = lambda a, b: b - a
            if f is None:
                raise Unsupported("start point operator")
            return Vec([f(a, b) for a, b in zip(self.vals, o)])
    refdoms = load_refdoms(model)
    nchk = 0
    for rdn, rd in sorted(refdoms.items()):
        if rd.dim < 1:
            continue
        nchk += 1

        class PTab:
            """refdom.p: (dim, nverts)"""
            skv_isarray = True

            def skv_getattr(self, name):
                if name == "mean":
                    def mean(a, k, n, rd=rd):
                        ax = k.get("axis", a[0] if a else None)
                        if ax not in (1, -1):
                            raise Unsupported("mean over the wrong axis")
                        return Vec([sum(p[i] for p in rd.p) / len(rd.p)
                                    for i in range(rd.dim)])
                    return PyFunc(mean)
                if name == "shape":
                    return (rd.dim, len(rd.p))
                raise Unsupported("refdom.p." + name)

        class XS:
            skv_isarray = True

            def skv_getattr(self, name):
                if name == "shape":
                    return (rd.dim, Poly.sym("ncells"), Poly.sym("npts"))
                raise Unsupported("x." + name)

        def hook(interp, name, args, kwargs, node, rd=rd):
            if name in ("numpy.zeros", "numpy.zeros_like"):
                return Vec([0] * rd.dim)
            if name in ("numpy.ones", "numpy.ones_like"):
                return Vec([1] * rd.dim)
            if name == "numpy.full":
                return Vec([args[1]] * rd.dim)
            return NotImplemented
        me = Obj(None, {"dim": rd.dim, "elem": Obj(None, {
            "refdom": Obj(None, {"p": PTab()})})})
        try:
            v = Interp(model, call_hook=hook).eval(
                first.value, {"self": me, "x": XS(), "tind": None},
                fn.module)
        except (Unsupported, Raised) as e:
            raise AnalysisError(f"invF: initial iterate "
                                f"'{src(first.value)}': {e}")
        if not isinstance(v, Vec):
            raise AnalysisError(f"invF: initial iterate evaluates to {v!r}")
        pt = tuple(v.vals)
        # strictly inside: inside, and still inside after a small move
        # towards each vertex-opposite direction = not on any facet
        cen = tuple(sum(p[i] for p in rd.p) / len(rd.p)
                    for i in range(rd.dim))
        out = tuple(c_ + (p_ - c_) * Fraction(1001, 1000)
                    for p_, c_ in zip(pt, cen))
        strictly = inside_ref(rd, pt) and (pt == cen or inside_ref(rd, out))
        cons = f"invF:start-inside[{rdn}]"
        if strictly:
            rep.ok(R5, cons, f"{it_name} starts at {tuple(map(str, pt))}, "
                             f"strictly inside {rdn}")
        else:
            where = "on the boundary of" if inside_ref(rd, pt) \
                else "outside"
            rep.fail(R5, fn.path, "MappingIsoparametric.invF", cons,
                     f"the iteration starts at {tuple(map(str, pt))}, "
                     f"{where} {rdn}: on curved cells it can converge to a "
                     f"pre-image outside the reference cell (F(Y) = x to "
                     f"round-off, so no exception), and facet quadrature "
                     f"evaluates the basis there", first.lineno)
    if nchk < 6:
        raise AnalysisError(f"only {nchk} reference domains checked")


def _dg_facet_map(model, rep):
    """The facet map of the isoparametric mapping (bndmap / bndJ) reads the
    facet nodes as doflocs[:, mesh.facets]: vertex numbers as column numbers
    of the point array.  For the discontinuous (periodic) mesh classes the
    point array has one column per cell corner (skv/dgspace.py), so the map
    is garbage for any of them that *has* a boundary element; the others
    refuse (bndelem is None).  No element of a MeshDG class may appear as a
    key of BOUNDARY_ELEMENT_MAP while bndmap indexes by vertex numbers."""
    R3 = "C10-R3"
    bm = model.func(ISO, "MappingIsoparametric.bndmap")
    by_vertex = any(
        isinstance(n, ast.Subscript) and "facets" in src(n.slice)
        and src(n.value) in ("p", "self.mesh.doflocs", "self.mesh.p")
        for n in ast.walk(bm.node))
    if not by_vertex:
        raise AnalysisError("MappingIsoparametric.bndmap: facet nodes are "
                            "not read as doflocs[:, facets] any more: model "
                            "out of date")
    em = model.module("skfem.element")
    tab = em.assigns.get("BOUNDARY_ELEMENT_MAP")
    if not isinstance(tab, ast.Dict):
        raise AnalysisError("BOUNDARY_ELEMENT_MAP not found")
    keys = {src(k) for k in tab.keys}
    n = 0
    for c in model.all_classes():
        if not c.path.startswith("skfem/mesh/") or c.name == "MeshDG" or \
                not any(b.name == "MeshDG" for b in c.mro()):
            continue
        n += 1
        ea = c.find_attr("elem")
        en = src(ea[1]) if ea else "?"
        cons = f"{c.name}:facet-map"
        if en in keys:
            rep.fail(R3, c.path, c.name, cons,
                     f"{c.name} (element {en}) has a boundary element, so "
                     f"MappingIsoparametric.bndmap / bndJ are used for it - "
                     f"but they read the facet nodes as doflocs[:, facets] "
                     f"(vertex numbers), and the point array of a "
                     f"discontinuous mesh has one column per cell corner: "
                     f"G maps facet 1 of a two-cell mesh to (0.167, 0.25, "
                     f"0.25) instead of its centre, the sum of |det DG| is "
                     f"4.18 instead of 4; the sibling DG classes have no "
                     f"boundary element and refuse", c.node.lineno)
        else:
            rep.ok(R3, cons, f"no boundary element for {en}: facet maps "
                             f"are refused, not computed on garbage")
    if n < 4:
        raise AnalysisError(f"only {n} MeshDG classes found")


def _newton(model: Model, rep):
    """The iterative inverse of the isoparametric map (R5).

    Convergence itself is numerical and not decided.  Decided: (a) the step
    is invDF(X) (x - F(X)) at the current iterate and is added to it,
    (b) every addition / comparison / clipping bound in the routine is
    dimensionally homogeneous - in particular the stopping test compares a
    dimensionless quantity with the dimensionless tolerance, so that the
    outcome does not depend on the unit of length of the mesh, (c) a value
    is returned only under the stopping test; running out of iterations
    raises."""
    from ..dims import ANY, DimEval, show
    R5 = "C10-R5"
    fn = model.func(ISO, "MappingIsoparametric.invF")
    mod = model.modules[ISO]
    node = fn.node
    qn = "MappingIsoparametric.invF"
    a = node.args
    params = [x.arg for x in a.args]
    if params[:2] != ["self", "x"]:
        raise AnalysisError("invF: signature")
    env = {"x": Fraction(1), "tind": ANY}
    ndef = len(a.defaults)
    for p_, d_ in zip(params[len(params) - ndef:], a.defaults):
        if p_ in env:
            continue
        if isinstance(d_, ast.Constant) and isinstance(d_.value,
                                                       (int, float)):
            # a number fixed in the signature: independent of the mesh
            env[p_] = Fraction(0)
        elif isinstance(d_, ast.Constant) and d_.value is None:
            env[p_] = ANY
        else:
            raise AnalysisError(f"invF: default of {p_}")
    ev = DimEval(api={"F": Fraction(1), "DF": Fraction(1),
                      "invDF": Fraction(-1), "Fmap": Fraction(1),
                      "J": Fraction(1)},
                 attrs={"dim": ANY,
                        # vertices of the reference cell: dimensionless
                        "elem.refdom.p": Fraction(0)},
                 dotted=lambda e: model.dotted(mod, e))
    ev.run(node.body, env)
    for ex in ev.failed:
        rep.fail(R5, fn.path, qn, "invF:homogeneous:" + src(ex.node)[:60],
                 f"{ex.what} - the test depends on the unit of length of "
                 f"the mesh (tolerances of this routine are plain numbers)",
                 ex.node.lineno)
    for n_, what, d in ev.checked:
        rep.ok(R5, f"invF:homogeneous:{what}:{src(n_)[:50]}",
               f"{what} of {show(d)} quantities")
    # (a) Newton step
    steps = [n for n in ast.walk(node) if isinstance(n, ast.Call)
             and model.dotted(mod, n.func) == "numpy.einsum"]
    if len(steps) != 1:
        raise AnalysisError(f"invF: {len(steps)} einsum calls, 1 expected")
    st = steps[0]
    roles = iter(["invDF", "r"])
    c = einsum_call(st, lambda n: next(roles, None),
                    lambda e: model.dotted(mod, e))
    want = C("invDF:ijkl,r:jkl->ikl")
    names = {}
    for s_ in walk_no_nested(node):
        if isinstance(s_, ast.Assign) and len(s_.targets) == 1 and \
                isinstance(s_.targets[0], ast.Name):
            names.setdefault(s_.targets[0].id, []).append(s_.value)

    def one(nm):
        v = names.get(nm, [])
        return v[-1] if v else None
    ops = st.args[1:]
    ok_ops = (len(ops) == 2 and isinstance(ops[0], ast.Name)
              and one(ops[0].id) is not None
              and src(one(ops[0].id)).replace(" ", "")
              in ("self.invDF(X,tind)", "self.invDF(X,tind=tind)"))
    res = ops[1] if len(ops) == 2 else None
    ok_res = (isinstance(res, ast.BinOp) and isinstance(res.op, ast.Sub)
              and src(res.left) == "x" and isinstance(res.right, ast.Name)
              and one(res.right.id) is not None
              and src(one(res.right.id)).replace(" ", "")
              in ("self.F(X,tind)", "self.F(X,tind=tind)"))
    if c == want and ok_ops and ok_res:
        rep.ok(R5, "invF:step", "step = invDF(X, tind) . (x - F(X, tind)) "
               "contracted over the physical index")
    else:
        rep.fail(R5, fn.path, qn, "invF:step",
                 f"the Newton step is einsum({src(st.args[0])}, "
                 f"{', '.join(src(o) for o in ops)}): expected invDF at the "
                 f"current iterate applied to the residual x - F(X)",
                 st.lineno)
    # update X <- X + dX (possibly clipped to the reference bounding box)
    stepname = None
    for nm, vals in names.items():
        if any(v is st for v in vals):
            stepname = nm
    upd = [v for v in names.get("X", [])
           if any(isinstance(n, ast.Name) and n.id == stepname
                  for n in ast.walk(v))]
    good = False
    for v in upd:
        for n in ast.walk(v):
            if isinstance(n, ast.BinOp) and isinstance(n.op, ast.Add) and \
                    {src(n.left), src(n.right)} == {"X", stepname}:
                good = True
    if good:
        rep.ok(R5, "invF:update", f"X <- X + {stepname}")
    else:
        rep.fail(R5, fn.path, qn, "invF:update",
                 f"the iterate is not updated by X + {stepname}",
                 fn.lineno)
    # (c) exits
    loops = [n for n in node.body if isinstance(n, (ast.For, ast.While))]
    if len(loops) != 1:
        raise AnalysisError("invF: one iteration loop expected")
    lp = loops[0]
    rets = [n for n in walk_no_nested(node) if isinstance(n, ast.Return)]
    bad = []
    existential = []

    def _scalar_test(t):
        """the compared quantity is one number already (a max / norm over
        everything, e.g. np.abs(dX).max())"""
        for n in ast.walk(t):
            if isinstance(n, ast.Call) and isinstance(
                    n.func, ast.Attribute) and n.func.attr in (
                    "max", "sum") and not n.args and not n.keywords:
                return True
        return False
    for r in rets:
        guard = None
        for n in ast.walk(lp):
            if isinstance(n, ast.If) and any(r is x for b in n.body
                                             for x in ast.walk(b)):
                guard = n
        has_cmp = guard is not None and any(
            isinstance(n, ast.Compare) and any(
                isinstance(m, ast.Name) and m.id == "newton_tol"
                for m in ast.walk(n)) for n in ast.walk(guard.test))
        if not has_cmp:
            bad.append(r)
            continue
        # the test is an array over cells (and points): it must hold for
        # ALL of them before the iterate is returned
        red = [n for n in ast.walk(guard.test) if isinstance(n, ast.Call)
               and ((isinstance(n.func, ast.Attribute)
                     and n.func.attr in ("all", "any"))
                    or src(n.func) in ("np.all", "np.any", "all", "any"))]
        kinds = {(n.func.attr if isinstance(n.func, ast.Attribute)
                  else src(n.func).split(".")[-1]) for n in red}
        scalar_norm = any(
            isinstance(n, ast.Call) and src(n.func) in (
                "np.linalg.norm", "np.max", "np.abs") and not any(
                k.arg == "axis" for k in n.keywords) and len(n.args) == 1
            and False for n in ast.walk(guard.test))
        if "any" in kinds:
            existential.append(guard)
        elif "all" not in kinds and not _scalar_test(guard.test):
            raise AnalysisError("invF: reduction of the stopping test over "
                                "the cells not recognised")
    if existential:
        rep.fail(R5, fn.path, qn, "invF:all-cells",
                 f"the stopping test '{src(existential[0].test)[:70]}' "
                 f"holds as soon as ONE cell has converged: the iterate is "
                 f"returned while other cells (non-parallelogram cells need "
                 f"more steps) are still off - reference points, hence "
                 f"basis values at facet quadrature points, are inexact",
                 existential[0].lineno)
    else:
        rep.ok(R5, "invF:all-cells", "the iterate is returned only when "
               "the stopping test holds for all cells and points")
    after = node.body[node.body.index(lp) + 1:]
    falls = not (after and isinstance(after[-1], ast.Raise)) or lp.orelse
    if rets and not bad and not falls:
        rep.ok(R5, "invF:exits", f"{len(rets)} return(s), each under the "
               "tolerance test; exhausting the iterations raises")
    else:
        rep.fail(R5, fn.path, qn, "invF:exits",
                 "a value can be returned without the stopping test having "
                 "passed (unconverged iterate returned silently)",
                 (bad[0].lineno if bad else fn.lineno))


def _normals_at_facet_points(model, rep):
    """normals(X, tind, find, t2f) maps the reference normal of the local
    facet with DF(X)^-T: X has to be a point *of that facet* (in the cell's
    reference coordinates).  For an affine cell any point will do, for a
    bilinear / trilinear / second-order cell DF away from the facet belongs
    to another side of the cell and the 'normal' points elsewhere.  Every
    call site under skfem/ must derive X from the facet (the pulled-back
    facet quadrature of FacetBasis, the reference midpoints of the local
    facets) - a constant point array (np.zeros(...)) is the reference
    origin, which lies on at most some of the facets."""
    R2 = "C10-R2"
    n = 0
    for fn in model.all_functions():
        if not fn.path.startswith("skfem/") or fn.name == "normals":
            continue
        defs = {}
        for x in ast.walk(fn.node):
            if isinstance(x, ast.Assign) and len(x.targets) == 1 and \
                    isinstance(x.targets[0], ast.Name):
                defs[x.targets[0].id] = x.value
        for c in ast.walk(fn.node):
            if not (isinstance(c, ast.Call) and isinstance(
                    c.func, ast.Attribute) and c.func.attr == "normals"
                    and len(c.args) >= 3):
                continue
            n += 1
            X = c.args[0]
            seen = 0
            while isinstance(X, ast.Name) and X.id in defs and seen < 6:
                X, seen = defs[X.id], seen + 1
            const = any(isinstance(y, ast.Call) and src(y.func) in (
                "np.zeros", "np.ones", "np.full", "np.empty")
                for y in ast.walk(X)) and not any(
                isinstance(y, ast.Attribute) and y.attr in (
                    "invF", "facets", "refdom", "brefdom")
                for y in ast.walk(X))
            cons = f"{fn.short()}:normals-at-facet-points"
            if const:
                rep.fail(R2, fn.path, fn.short(), cons,
                         f"'{src(c)[:60]}' evaluates the normals at the "
                         f"constant reference point '{src(X)[:40]}', not at "
                         f"a point of the facet: for a non-affine cell "
                         f"(quadrilateral, hexahedron, second-order) "
                         f"DF there belongs to another side of the cell - "
                         f"two trapezoids sharing an inclined facet get the "
                         f"orientation flag of the opposite normal",
                         c.lineno)
            else:
                rep.ok(R2, cons, "normals evaluated at points derived from "
                       "the facet")
    if n < 2:
        raise AnalysisError(f"only {n} call sites of mapping.normals found "
                            f"(FacetBasis, Mesh.facets_satisfying confirmed "
                            f"by hand)")


def run(model: Model, rep, tier: str) -> None:
    rep.rule("C10-R1", "determinants / inverses / surface factors are the "
             "Leibniz / adjugate / cross-product identities; maps send "
             "reference vertices to the listed cell vertices; isoparametric "
             "Jacobian is the derivative of the map")
    rep.rule("C10-R2", "reference normals orthogonal and outward; affine "
             "tables equal Refdom tables; slot matched through t2f; DF^-T "
             "and normalisation")
    rep.rule("C10-R3", "all affine evaluators slice by the subset under one "
             "shared guard; isoparametric evaluators allocate (cells, "
             "points) for shared and per-cell points, with and without "
             "subset")
    rep.rule("C10-R4", "F = A X + b, invF = invA (x - b), G = B X + c; "
             "Jacobian evaluators broadcast the same matrices")
    rep.rule("C10-R5", "iterative inverse: Newton step invDF (x - F) added "
             "to the iterate; all sums / comparisons dimensionally "
             "homogeneous (scale-free stopping test); values returned only "
             "under the test")
    refdoms = load_refdoms(model)
    staged(lambda: _newton(model, rep),
           lambda: _newton_start(model, rep),
           lambda: _dg_facet_map(model, rep),
           lambda: _affine_algebra(model, rep, refdoms),
           lambda: _iso_algebra(model, rep),
           lambda: _refdom_normals(rep, refdoms),
           lambda: _normals_at_facet_points(model, rep),
           lambda: _normals_method(model, rep, refdoms, AFF,
                                   "MappingAffine"),
           lambda: _normals_method(model, rep, refdoms, ISO,
                                   "MappingIsoparametric"),
           lambda: _subset_guards(model, rep),
           lambda: _iso_shapes(model, rep),
           lambda: _map_signatures(model, rep))
    rep.require_min("C10-R1", 30)
    rep.require_min("C10-R2", 30)
    rep.require_min("C10-R3", 24)
    rep.require_min("C10-R4", 9)
    rep.require_min("C10-R5", 6)


_A, _I, _R = ("skfem/mapping/mapping_affine.py",
              "skfem/mapping/mapping_isoparametric.py", "skfem/refdom.py")
MUTANTS = [
    ("facets oriented by the normal at the reference origin",
     ("skfem/mesh/mesh.py",
      "            normals = mapping.normals(mids[:, loc][:, :, None],",
      "            normals = mapping.normals(np.zeros((self.dim(), 1)),"),
     "C10-R2"),
    ("Newton inverse starts at the centre of the unit box",
     ("skfem/mapping/mapping_isoparametric.py",
      "        X = np.zeros(x.shape) + self.elem.refdom.p.mean(axis=1)"
      "[:, None, None]", "        X = np.zeros(x.shape) + .5"), "C10-R5"),
    ("restricted affine mapping sorts and deduplicates its subset",
     (_A, "        self.tind = tind\n",
      "        self.tind = None if tind is None else np.unique(tind)\n"),
     "C10-R1"),
    ("isoparametric normals pushed forward with DF like tangents",
     [(_I, "        invDF = self.invDF(X, tind)\n        N = np.zeros(("
       "self.dim, len(find)))", "        DF = self.DF(X, tind)\n        N = "
       "np.zeros((self.dim, len(find)))"),
      (_I, "        n = np.einsum('ijkl,ik->jkl', invDF, N)",
       "        n = np.einsum('ijkl,jk->ikl', DF, N)")], "C10-R2"),
    ("Newton inverse returns when any cell has converged",
     (_I, "            if (np.linalg.norm(dX, 1, (0, 2)) < newton_tol).all():",
      "            if (np.linalg.norm(dX, 1, (0, 2)) < newton_tol).any():"),
     "C10-R5"),
    ("isoparametric DF collects the Jacobian entries transposed",
     (_I, "            J = [[self.J(i, j, X, tind=tind) for j in "
      "range(self.dim)]\n                 for i in range(self.dim)]\n"
      "        return np.array(J)",
      "            J = [[self.J(i, j, X, tind=tind) for i in "
      "range(self.dim)]\n                 for j in range(self.dim)]\n"
      "        return np.array(J)"), "C10-R1"),
    ("isoparametric map sizes its result by axis 1 of the points again",
     (_I, "            out = np.zeros((t.shape[1], X.shape[-1]))\n"
      "            for itr in range(t.shape[0]):\n"
      "                phi, _ = self.elem.lbasis(X, itr)",
      "            out = np.zeros((t.shape[1], X.shape[1]))\n"
      "            for itr in range(t.shape[0]):\n"
      "                phi, _ = self.elem.lbasis(X, itr)"), "C10-R3"),
    ("Newton inverse stops on the physical residual (scale dependent)",
     (_I, "            if (np.linalg.norm(dX, 1, (0, 2)) < newton_tol).all():",
      "            if (np.linalg.norm(x - F, 1, (0, 2)) < newton_tol).all():"),
     "C10-R5"),
    ("Newton residual with the wrong sign",
     (_I, "dX = np.einsum('ijkl,jkl->ikl', invDF, x - F)",
      "dX = np.einsum('ijkl,jkl->ikl', invDF, F - x)"), "C10-R5"),
    ("Newton step applies the transposed inverse Jacobian",
     (_I, "dX = np.einsum('ijkl,jkl->ikl', invDF, x - F)",
      "dX = np.einsum('jikl,jkl->ikl', invDF, x - F)"), "C10-R5"),
    ("Newton step subtracted",
     (_I, "            X = np.clip(X + dX, 0., 1.)",
      "            X = np.clip(X - dX, 0., 1.)"), "C10-R5"),
    ("unconverged Newton iterate returned silently",
     (_I, "        raise Exception((\"Newton iteration didn't converge \"\n"
      "                         \"up to TOL={}\".format(newton_tol)))",
      "        return X"), "C10-R5"),
    ("Newton iterate clipped to the physical bounding box",
     (_I, "            X = np.clip(X + dX, 0., 1.)",
      "            X = np.clip(X + dX, 0., x.max())"), "C10-R5"),
    ("affine inverse: sign of one adjugate entry",
     (_A, "self._invA[0, 1] = -self.A[0, 1] / self.detA",
      "self._invA[0, 1] = self.A[0, 1] / self.detA"), "C10-R1"),
    ("affine determinant 3x3: a term dropped",
     (_A, "                              self.A[0, 2] * (self.A[1, 0] * "
      "self.A[2, 1] -\n                                              "
      "self.A[1, 1] * self.A[2, 0]))",
      "                              self.A[0, 2] * (self.A[1, 0] * "
      "self.A[2, 1]))"), "C10-R1"),
    ("affine inverse 3x3: wrong minor",
     (_A, "                self._invA[2, 1] = (self.A[0, 1] * self.A[2, 0] -"
      "\n                                    self.A[0, 0] * self.A[2, 1]) / "
      "self.detA",
      "                self._invA[2, 1] = (self.A[0, 1] * self.A[2, 0] -"
      "\n                                    self.A[0, 0] * self.A[1, 1]) / "
      "self.detA"), "C10-R1"),
    ("affine map: columns taken from the wrong vertex",
     (_A, "                            self.mesh.p[i, self.mesh.t[j + 1]] -\n"
      "                            self.mesh.p[i, self.mesh.t[0]]",
      "                            self.mesh.p[i, self.mesh.t[j + 1]] -\n"
      "                            self.mesh.p[i, self.mesh.t[1]]"),
     "C10-R1"),
    ("affine map: subset branch ignores tind for the origin",
     (_A, "                    self._b[i] = self.mesh.p[i, self.mesh.t[0, "
      "self.tind]]",
      "                    self._b[i] = self.mesh.p[i, self.mesh.t[0]]"),
     "C10-R1"),
    ("boundary surface factor: one cross-product component sign",
     (_A, "                                 (-self._B[0, 0] * self._B[2, 1] +\n"
      "                                  self._B[2, 0] * self._B[0, 1]) ** 2",
      "                                 (self._B[0, 0] * self._B[2, 1] +\n"
      "                                  self._B[2, 0] * self._B[0, 1]) ** 2"),
     "C10-R1"),
    ("isoparametric inverse: transposed entry",
     (_I, "            invDF[0, 1] = -J[0][1]\n            invDF[1, 0] = "
      "-J[1][0]",
      "            invDF[0, 1] = -J[1][0]\n            invDF[1, 0] = "
      "-J[0][1]"), "C10-R1"),
    ("isoparametric determinant 2x2 sign",
     (_I, "detDF = J[0][0] * J[1][1] - J[0][1] * J[1][0]",
      "detDF = J[0][0] * J[1][1] + J[0][1] * J[1][0]"), "C10-R1"),
    ("isoparametric Jacobian pairs node k with function k-1",
     (_I, "                _, dphi = self.elem.lbasis(X, itr)\n"
      "                out += p[i, t[itr, :]][:, None] * dphi[j]",
      "                _, dphi = self.elem.lbasis(X, itr)\n"
      "                out += p[i, t[itr - 1, :]][:, None] * dphi[j]"),
     "C10-R1"),
    ("isoparametric inverse Jacobian evaluated for all cells",
     (_I, "        J = [[self.J(i, j, X, tind=tind) for j in range(self.dim)]"
      "\n             for i in range(self.dim)]\n        detDF = self.detDF(X,"
      " tind, J=J)",
      "        J = [[self.J(i, j, X) for j in range(self.dim)]"
      "\n             for i in range(self.dim)]\n        detDF = self.detDF(X,"
      " tind, J=J)"), "C10-R1"),
    ("reference normal of the triangle's hypotenuse flipped",
     (_R, "    normals = np.array([[0., -1.],\n                        [1., "
      "1.],\n                        [-1., 0.]])\n    facets = [[0, 1],\n"
      "              [1, 2],\n              [0, 2]]",
      "    normals = np.array([[0., -1.],\n                        [-1., "
      "-1.],\n                        [-1., 0.]])\n    facets = [[0, 1],\n"
      "              [1, 2],\n              [0, 2]]"), "C10-R2"),
    ("hexahedron normal table rows exchanged",
     (_R, "    normals = np.array([[1., 0., 0.],\n                        "
      "[0., 0., 1.],\n                        [0., 1., 0.],",
      "    normals = np.array([[1., 0., 0.],\n                        "
      "[0., 1., 0.],\n                        [0., 0., 1.],"), "C10-R2"),
    ("affine Nref entry differs from Refdom",
     (_A, "            Nref = np.array([[0., 0., -1.],\n"
      "                             [0., -1., 0.],",
      "            Nref = np.array([[0., 0., -1.],\n"
      "                             [0., 1., 0.],"), "C10-R2"),
    ("normals mapped without the transpose",
     (_A, "n = np.einsum('ijkl,ik->jkl', invDF, N)",
      "n = np.einsum('ijkl,jk->ikl', invDF, N)"), "C10-R2"),
    ("normals slot matched on the wrong table row",
     (_I, "ix = np.nonzero(t2f[itr, tind] == find)[0].astype(np.int32)",
      "ix = np.nonzero(t2f[0, tind] == find)[0].astype(np.int32)"), "C10-R2"),
    ("one evaluator's subset guard differs",
     (_A, "    def invDF(self, X, tind=None):\n        if tind is None or "
      "self.tind is not None:",
      "    def invDF(self, X, tind=None):\n        if tind is None:"),
     "C10-R3"),
    ("detDF subset branch forgets to slice",
     (_A, "            detDF = self.detA[tind]", "            detDF = "
      "self.detA"), "C10-R3"),
    ("invF applies A instead of invA",
     (_A, "            invA, b = self.invA, self.b\n        else:\n"
      "            invA, b = self.invA[:, :, tind], self.b[:, tind]",
      "            invA, b = self.A, self.b\n        else:\n"
      "            invA, b = self.A[:, :, tind], self.b[:, tind]"), "C10-R4"),
    ("F contracts the first index of A",
     (_A, "return (np.einsum('ijk,jl', A, X).T + b.T).T",
      "return (np.einsum('jik,jl', A, X).T + b.T).T"), "C10-R4"),
]
TWINS = [
    ("Newton inverse starts a little off the centroid",
     ("skfem/mapping/mapping_isoparametric.py",
      "        X = np.zeros(x.shape) + self.elem.refdom.p.mean(axis=1)"
      "[:, None, None]",
      "        X = np.zeros(x.shape) + .9 * self.elem.refdom.p.mean(axis=1)"
      "[:, None, None]")),
    ("Newton stopping test on the max-norm of the step",
     (_I, "            if (np.linalg.norm(dX, 1, (0, 2)) < newton_tol).all():",
      "            if np.abs(dX).max() < newton_tol:"), None),
    ("Newton stopping test on the residual relative to the cell size",
     (_I, "            if (np.linalg.norm(dX, 1, (0, 2)) < newton_tol).all():",
      "            if (np.linalg.norm(x - F, 1, (0, 2)) < newton_tol\n"
      "                    * np.linalg.norm(self.DF(X, tind), 1, (0, 1, 3))"
      ").all():"), None),
    ("affine determinant 2x2 with commuted factors",
     (_A, "                self._detA = (self.A[0, 0] * self.A[1, 1] -\n"
      "                              self.A[0, 1] * self.A[1, 0])",
      "                self._detA = (self.A[1, 1] * self.A[0, 0] -\n"
      "                              self.A[1, 0] * self.A[0, 1])")),
    ("normals einsum with renamed indices",
     (_A, "n = np.einsum('ijkl,ik->jkl', invDF, N)",
      "n = np.einsum('abcd,ac->bcd', invDF, N)")),
    ("isoparametric inverse entry with reordered product",
     (_I, "invDF[0, 0] = -J[1][2] * J[2][1] + J[1][1] * J[2][2]",
      "invDF[0, 0] = J[1][1] * J[2][2] - J[2][1] * J[1][2]")),
    ("F with explicit einsum output",
     (_A, "return (np.einsum('ijk,jl', A, X).T + b.T).T",
      "return (np.einsum('ijk,jl->ikl', A, X).T + b.T).T")),
]
