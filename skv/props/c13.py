"""C13 - adaptive refinement: template masks, template geometry and
conformity on the reference triangle, child index table, tag freshness."""
from __future__ import annotations

import ast
from fractions import Fraction
from itertools import product as iprod
from typing import Any, Dict, List, Optional

from ..elements import load_refdoms
from ..interp import (Interp, Obj, PyFunc, Raised, Unsupported)
from ..model import AnalysisError, Model, src, walk_no_nested
from ..poly import Poly
from ..refcell import (Child, ChildList, ConnTable, EntTable, IdxArr, Mask,
                       ARange, MASKS, NT, SZ, PStub, PointTable, Recorder,
                       RowSel,
                       inside_ref, make_hook, resolve, simplex_volume)
from .c12 import tag_rule

PID = "C13"
LEVEL = "other"
TECHNIQUE = ("reference-cell interpretation of the red/blue/green triangle "
             "templates: masks evaluated over all marking patterns, exact "
             "geometry of every template (partition, conformity of each "
             "parent facet), symbolic offsets of the child index table; "
             "structural check of the facet-marking closure; tag freshness "
             "of every _adaptive")
LEVEL_TEXT = (
    "Decides for triangles: (R1) over all eight marking patterns of a "
    "cell's facets, the five template masks are pairwise disjoint and cover "
    "every pattern the closure invariant allows ('a marked facet implies "
    "the reference facet is marked'), and the closure loop establishes that "
    "invariant and iterates to a fixpoint; (R2) each template uses only new "
    "nodes its mask guarantees, its children are non-degenerate, lie in the "
    "parent and add up to its area, a marked facet is covered by exactly "
    "its two halves and an unmarked one by itself (so neighbours agree: no "
    "hanging nodes), and new nodes are the facet midpoints appended after "
    "the old points; (R3) the child index table used for named subdomains "
    "has, per template, as many rows as child blocks at offsets that are "
    "the polynomial prefix sums of the final block order; (R4) every "
    "_adaptive sets or provably keeps both tag fields. Not decided: the "
    "tetrahedral bisection work-list (data-dependent loop), conformity of "
    "concrete results, arbitrary refinement histories.")
LEVEL_NOTE = ("Trusted: numpy hstack/vstack/arange/reshape. The reference "
              "facet is the one opposite... precisely: local facet 2 = "
              "vertices (0, 2), read from RefTri.facets.")
EXPLANATION = "Exact template audit on the reference triangle + tag rule."
TRUSTED = ["numpy hstack/vstack/arange/reshape/count_nonzero"]
ASSUMPTIONS = ["marks are per global facet, so both neighbours of a facet "
               "see the same mark"]

TRI = "skfem.mesh.mesh_tri_1"
FT = "skfem/mesh/mesh_tri_1.py"


class IxTable(ConnTable):
    """ix = ix[m.t2f]: new node on local facet k of each cell, or -1"""
    def skv_getitem(self, ix):
        r = super().skv_getitem(ix)
        return MarkedIdx.of(r) if isinstance(r, IdxArr) else r


class MarkedIdx(IdxArr):
    @staticmethod
    def of(a: IdxArr):
        m = MarkedIdx(a.kind, a.k, a.offset, a.mask)
        return m

    def skv_compare(self, op, other):
        if isinstance(op, ast.GtE) and other == 0:
            return Mask(f"marked{self.k}", ("marked", self.k))
        if isinstance(op, ast.Eq) and other == -1:
            return Mask(f"unmarked{self.k}", ("unmarked", self.k))
        if isinstance(op, ast.Lt) and other == 0:
            return Mask(f"unmarked{self.k}", ("unmarked", self.k))
        raise Unsupported("comparison on the new-node table")


def eval_marks(m, pattern) -> bool:
    e = m.expr if isinstance(m, Mask) else m
    if e is None:
        raise AnalysisError(f"mask {m!r} undefined")
    if e[0] == "and":
        return eval_marks(e[1], pattern) and eval_marks(e[2], pattern)
    if e[0] == "not":
        return not eval_marks(e[1], pattern)
    if e[0] == "marked":
        return bool(pattern[e[1]])
    if e[0] == "unmarked":
        return not pattern[e[1]]
    raise AnalysisError(f"mask term {e[0]}")


class PtSel:
    skv_isarray = True

    def __init__(self, comb):
        self.comb = comb

    def skv_binop(self, op, other, reflected):
        if isinstance(op, ast.Add) and isinstance(other, PtSel):
            c = dict(self.comb)
            for k, v in other.comb.items():
                c[k] = c.get(k, 0) + v
            return PtSel(c)
        if isinstance(op, ast.Mult) and isinstance(other, (int, Fraction)):
            return PtSel({k: v * Fraction(other)
                          for k, v in self.comb.items()})
        raise Unsupported("arithmetic on selected points")


def _run_split(model, rd):
    cls = model.cls(TRI, "MeshTri1")
    fn = cls.methods.get("_adaptive_split_elements")
    if fn is None:
        raise AnalysisError("MeshTri1._adaptive_split_elements not found")
    # statements from the first mask definition on
    body = fn.node.body
    start = None
    for i, st in enumerate(body):
        if isinstance(st, ast.Assign) and isinstance(st.value, ast.BinOp) \
                and "ix[" in src(st.value) and ">=" in src(st.value):
            start = i
            break
    if start is None:
        raise AnalysisError("template masks not found")
    pre = body[:start]
    # the preamble must define ix as (new node id or -1) gathered by t2f
    pre_src = " ".join(src(s) for s in pre)
    cap: Dict[str, Any] = {}
    base_hook = make_hook(rd, cap)

    class FacetVerts:
        def skv_getitem(self, ix):
            if isinstance(ix, tuple) and len(ix) == 2 and isinstance(
                    ix[0], int):
                return ("facetvertex", ix[0])
            raise Unsupported("m.facets index")

        def skv_getattr(self, name):
            if name == "shape":
                return (2, Poly.sym("nfacets"))
            raise Unsupported("facets." + name)

    class PS(PStub):
        def skv_getitem(self, ix):
            if isinstance(ix, tuple) and len(ix) == 2 and isinstance(
                    ix[1], tuple) and ix[1][0] == "facetvertex":
                return PtSel({ix[1][1]: Fraction(1)})
            return super().skv_getitem(ix)

    def hook(interp, name, args, kwargs, node):
        if name == "numpy.hstack":
            seq = list(args[0])
            if len(seq) == 2 and isinstance(seq[0], PStub) and isinstance(
                    seq[1], PtSel):
                cap["newpoint"] = seq[1].comb
                return PointTable(["old", "facet"])
        if name == "numpy.arange":
            a = [Poly.coerce(x) for x in args]
            if len(a) == 2:
                return ARange(a[0], a[1])
            if len(a) == 1:
                return ARange(Poly(), a[0])
        if name == "numpy.zeros":
            shp = args[0]
            r = Recorder(cap)
            r.shape = shp
            cap["new_t_shape"] = shp
            return r
        if name == "numpy.sum" and isinstance(args[0], Mask):
            return Poly.sym(f"n[{args[0].name}]")
        if name in ("numpy.setdiff1d", "numpy.unique"):
            return args[0]
        return base_hook(interp, name, args, kwargs, node)

    class Facets1:
        """``facets == 1`` selector"""
        def skv_compare(self, op, other):
            return "MARKEDFACETS"
    mesh = Obj(None, {"t": ConnTable("vertex", 3), "p": PS(2),
                      "facets": FacetVerts(),
                      "t2f": ConnTable("facet", 3)})
    env = {"m": mesh, "facets": Facets1(), "subdomains": {},
           "ix": IxTable("facet", 3, SZ)}
    it = Interp(model, call_hook=hook)
    try:
        ret = it.run_body(body[start:], env, fn.module)
    except Raised as e:
        raise AnalysisError(f"_adaptive_split_elements raises: {e.what}")
    except Unsupported as e:
        raise AnalysisError(f"_adaptive_split_elements outside grammar: {e}")
    return fn, ret, cap, env, pre_src


def _templates(model, rep):
    R1, R2, R3 = "C13-R1", "C13-R2", "C13-R3"
    rd = load_refdoms(model)["RefTri"]
    ref_facet = [k for k, f in enumerate(rd.facets) if sorted(f) == [0, 2]]
    if ref_facet != [2]:
        raise AnalysisError("RefTri.facets: the (0, 2) facet is not local "
                            "facet 2 - the template model needs revisiting")
    fn, ret, cap, env, pre_src = _run_split(model, rd)
    line = fn.lineno
    if not (isinstance(ret, tuple) and len(ret) == 3
            and isinstance(ret[0], PointTable)
            and isinstance(ret[1], ChildList)):
        raise AnalysisError("_adaptive_split_elements: (points, cells, "
                            "subdomains) expected")
    pts, cl = ret[0], ret[1]
    # new nodes are facet midpoints
    comb = cap.get("newpoint")
    if comb == {0: Fraction(1, 2), 1: Fraction(1, 2)}:
        rep.ok(R2, "new-nodes", "new nodes = midpoints of the marked "
               "facets, appended after the old points")
    else:
        rep.fail(R2, FT, fn.short(), "new-nodes",
                 f"new nodes are the combination {comb} of the facet's "
                 f"end points, not their midpoint", line)
    ok_pre = ("ix[facets == 1] = np.arange(np.count_nonzero(facets)) + "
              "m.p.shape[1]" in pre_src and "ix = ix[m.t2f]" in pre_src)
    if not ok_pre:
        raise AnalysisError("_adaptive_split_elements: numbering of the new "
                            "nodes not recognised")
    # group children by mask, in block order
    groups: Dict[str, List[Child]] = {}
    order: List[str] = []
    for c in cl.children:
        mk = str(c.mask)
        if mk not in groups:
            groups[mk] = []
            order.append(mk)
        groups[mk].append(c)
    masks = {mk: MASKS.get(mk) for mk in order}
    if any(v is None for v in masks.values()) or len(order) != 5:
        raise AnalysisError(f"template masks {order} not recognised")
    # R1: disjoint and exhaustive over the allowed patterns
    n_allowed = 0
    for pat in iprod((0, 1), repeat=3):
        allowed = (not (pat[0] or pat[1])) or pat[2]
        hits = [mk for mk in order if eval_marks(masks[mk], pat)]
        cons = f"pattern{pat}"
        if allowed:
            n_allowed += 1
            if len(hits) == 1:
                rep.ok(R1, cons, f"marks {pat} -> template '{hits[0]}' only")
            else:
                rep.fail(R1, FT, fn.short(), cons,
                         f"marking pattern {pat} of a cell's facets is "
                         f"handled by {len(hits)} templates {hits}: the cell "
                         f"is {'lost' if not hits else 'duplicated'}", line)
        elif hits:
            rep.ok(R1, cons, f"pattern excluded by the closure invariant "
                   f"(would hit {hits})")
        else:
            rep.ok(R1, cons, "pattern excluded by the closure invariant")
    # closure loop
    ff = model.cls(TRI, "MeshTri1").methods.get("_adaptive_find_facets")
    if ff is None:
        raise AnalysisError("_adaptive_find_facets not found")
    s = src(ff.node)
    wl = [n for n in walk_no_nested(ff.node) if isinstance(n, ast.While)]
    okc = (len(wl) == 1
           and "t2facets[2, t2facets[0] + t2facets[1] > 0] = 1" in s
           and "facets[m.t2f[t2facets == 1]] = 1" in src(wl[0])
           and "t2facets = facets[m.t2f]" in src(wl[0])
           and "np.count_nonzero(facets) - prev_nnz > 0" in src(wl[0].test))
    if okc:
        rep.ok(R1, "closure", "loop marks local facet 2 whenever facet 0 or "
               "1 is marked, writes the marks back globally and repeats "
               "until no facet is added")
    else:
        rep.fail(R1, FT, ff.short(), "closure",
                 "the facet-marking loop does not establish 'facet 0 or 1 "
                 "marked implies the reference facet 2 marked' to a "
                 "fixpoint: cells can reach the templates with a pattern "
                 "none of them handles", ff.lineno)
    # R2: geometry per template
    for mk in order:
        m = masks[mk]
        pats = [p for p in iprod((0, 1), repeat=3) if eval_marks(m, p)
                and ((not (p[0] or p[1])) or p[2])]
        if len(pats) != 1:
            continue
        pat = pats[0]
        children = groups[mk]
        bad = None
        area = Fraction(0)
        edges = []
        cells_v = []
        for ci, c in enumerate(children):
            vs = []
            for r in c.rows:
                if r.kind == "facet" and not pat[r.k]:
                    bad = (f"child {ci} uses the new node on facet {r.k}, "
                           f"which this template's mask does not guarantee "
                           f"to exist (index -1)")
                    break
                p = resolve(rd, pts, r)
                if isinstance(p, str):
                    bad = f"child {ci}: {p}"
                    break
                vs.append(p)
            if bad:
                break
            if len(vs) != 3:
                bad = f"child {ci} has {len(vs)} vertices"
                break
            a = abs(simplex_volume(vs))
            if a == 0:
                bad = f"child {ci} is degenerate"
                break
            if not all(inside_ref(rd, p) for p in vs):
                bad = f"child {ci} leaves the parent"
                break
            area += a
            cells_v.append(vs)
            edges += [frozenset((vs[i], vs[j]))
                      for i, j in ((0, 1), (1, 2), (0, 2))]
        want_n = {(0, 0, 0): 1, (0, 0, 1): 2, (0, 1, 1): 3, (1, 0, 1): 3,
                  (1, 1, 1): 4}[pat]
        if bad is None and len(children) != want_n:
            bad = f"{len(children)} children for marking pattern {pat}"
        if bad is None and area != Fraction(1, 2):
            bad = f"children's areas add up to {area}, not 1/2"
        if bad is None:
            from ..refcell import first_overlap
            ov = first_overlap(cells_v)
            if ov:
                bad = f"children {ov[0]} and {ov[1]} overlap"
        if bad is None:
            for k, f in enumerate(rd.facets):
                a, b = (tuple(rd.p[v]) for v in f)
                mid = tuple((a[d] + b[d]) / 2 for d in range(2))
                on = [e for e in edges if all(_on_seg(p, a, b) for p in e)]
                want = ({frozenset((a, mid)), frozenset((mid, b))}
                        if pat[k] else {frozenset((a, b))})
                if set(on) != want or len(on) != len(want):
                    bad = (f"parent facet {k} ("
                           f"{'marked' if pat[k] else 'unmarked'}) is "
                           f"covered by {len(on)} child edge(s) that are "
                           f"not {'its two halves' if pat[k] else 'the facet itself'}"
                           f": a hanging node appears on that facet")
                    break
        cons = f"template[{mk}]"
        if bad:
            rep.fail(R2, FT, fn.short(), cons, bad, line)
        else:
            rep.ok(R2, cons, f"marks {pat}: {len(children)} children tile "
                   f"the parent; marked facets split at their midpoint, "
                   f"unmarked ones kept whole", sample=(pat == (0, 1, 1)))
    # R3: child index table
    stores = [s_ for s_ in cap.get("stores", [])]
    prefix = Poly()
    for mk in order:
        n_m = Poly.sym(f"n[{masks[mk].name}]")
        nblocks = len(groups[mk])
        mine = [s_ for s_ in stores if isinstance(s_[0], tuple)
                and isinstance(s_[0][1], Mask)
                and s_[0][1] is masks[mk]]
        cons = f"child-table[{mk}]"
        if len(mine) != 1:
            rep.fail(R3, FT, fn.short(), cons,
                     f"{len(mine)} rows of the child index table are "
                     f"written for template '{mk}'", line)
            prefix = prefix + n_m * nblocks
            continue
        (rsel, _), val = mine[0]
        if isinstance(val, ARange):
            lo, hi, rows = val.lo, val.hi, 1
        elif isinstance(val, tuple) and val[0] == "block":
            _, lo, hi, rows = val
        else:
            raise AnalysisError(f"child table value for {mk}")
        nrows_sel = None
        if isinstance(rsel, slice):
            tot = cap.get("new_t_shape", (4,))[0]
            nrows_sel = (rsel.stop if rsel.stop is not None else tot) - \
                (rsel.start or 0)
        elif isinstance(rsel, int):
            nrows_sel = 1
        ok = (lo == prefix and hi == prefix + n_m * nblocks
              and rows == nblocks and nrows_sel == nblocks)
        if ok:
            rep.ok(R3, cons, f"{nblocks} row(s) holding the cell numbers "
                   f"[{lo}, {hi}) = position of the template's "
                   f"{nblocks} block(s) in the new connectivity")
        else:
            rep.fail(R3, FT, fn.short(), cons,
                     f"child table for '{mk}': rows {nrows_sel}/{rows}, "
                     f"numbers [{lo}, {hi}); the template's {nblocks} "
                     f"block(s) occupy [{prefix}, "
                     f"{prefix + n_m * nblocks}) of the new connectivity: "
                     f"named subdomains move to other cells", line)
        prefix = prefix + n_m * nblocks


def _on_seg(p, a, b) -> bool:
    cross = (b[0] - a[0]) * (p[1] - a[1]) - (b[1] - a[1]) * (p[0] - a[0])
    if cross != 0:
        return False
    dot = (p[0] - a[0]) * (b[0] - a[0]) + (p[1] - a[1]) * (b[1] - a[1])
    ln = (b[0] - a[0]) ** 2 + (b[1] - a[1]) ** 2
    return 0 <= dot <= ln


def run(model: Model, rep, tier: str) -> None:
    rep.rule("C13-R1", "template masks disjoint and exhaustive over the "
             "patterns the closure invariant allows; closure loop "
             "establishes the invariant")
    rep.rule("C13-R2", "templates: only guaranteed nodes, children tile the "
             "parent, marked facets halved, unmarked kept (conformity)")
    rep.rule("C13-R3", "child index table rows and offsets match the block "
             "order of the new connectivity")
    rep.rule("C13-R4", "every _adaptive sets or provably keeps both tag "
             "fields")
    _templates(model, rep)
    n = tag_rule(model, rep, "C13-R4",
                 only=lambda f: f.name.startswith("_adaptive"))
    if n < 3:
        raise AnalysisError(f"only {n} _adaptive replace sites found")
    rep.require_min("C13-R1", 9)
    rep.require_min("C13-R2", 3)
    rep.require_min("C13-R3", 5)


_TR = FT
_LI = "skfem/mesh/mesh_line_1.py"
_TE = "skfem/mesh/mesh_tet_1.py"
MUTANTS = [
    ("blue1 mask also accepts an unmarked facet 1",
     (_TR, "        blue1 = (ix[0] == -1) * (ix[1] >= 0) * (ix[2] >= 0)",
      "        blue1 = (ix[0] == -1) * (ix[2] >= 0)"), "C13-R1"),
    ("green mask requires facet 1 marked",
     (_TR, "        green = (ix[0] == -1) * (ix[1] == -1) * (ix[2] >= 0)",
      "        green = (ix[0] == -1) * (ix[1] >= 0) * (ix[2] >= 0)"),
     "C13-R1"),
    ("closure no longer marks the reference facet",
     (_TR, "            t2facets[2, t2facets[0] + t2facets[1] > 0] = 1\n",
      ""), "C13-R1"),
    ("closure marks facet 1 instead of the reference facet",
     (_TR, "            t2facets[2, t2facets[0] + t2facets[1] > 0] = 1\n",
      "            t2facets[1, t2facets[0] + t2facets[2] > 0] = 1\n"),
     "C13-R1"),
    ("blue1 template uses the node of its unmarked facet",
     (_TR, "            np.vstack((m.t[1, blue1], m.t[0, blue1], "
      "ix[2, blue1])),", "            np.vstack((m.t[1, blue1], "
      "ix[0, blue1], ix[2, blue1])),"), "C13-R2"),
    ("blue2 template leaves facet 0 unsplit on this side",
     (_TR, "            np.vstack((ix[2, blue2], ix[0, blue2], "
      "m.t[1, blue2])),", "            np.vstack((ix[2, blue2], "
      "m.t[0, blue2], m.t[1, blue2])),"), "C13-R2"),
    ("green template bisects towards the wrong vertex",
     (_TR, "            np.vstack((m.t[1, green], ix[2, green], "
      "m.t[0, green])),", "            np.vstack((m.t[2, green], "
      "ix[2, green], m.t[0, green])),"), "C13-R2"),
    ("red template: centre child degenerate",
     (_TR, "            np.vstack((ix[1, red], ix[2, red], ix[0, red])),",
      "            np.vstack((ix[1, red], ix[2, red], ix[2, red])),"),
     "C13-R2"),
    ("new nodes placed at a third of the facet",
     (_TR, "        p = .5 * (m.p[:, m.facets[0, facets == 1]] +\n"
      "                  m.p[:, m.facets[1, facets == 1]])",
      "        p = .5 * (m.p[:, m.facets[0, facets == 1]] +\n"
      "                  m.p[:, m.facets[0, facets == 1]])"), "C13-R2"),
    ("child table: blue1 offset advanced by four blocks",
     (_TR, "            offset += 3 * nblue1\n", "            offset += 4 * "
      "nblue1\n"), "C13-R3"),
    ("child table: red children given three rows",
     (_TR, "            new_t[:, red] = np.arange(offset,\n"
      "                                      offset + 4 * nred,\n"
      "                                      dtype=np.int32).reshape(4, -1)",
      "            new_t[:3, red] = np.arange(offset,\n"
      "                                      offset + 3 * nred,\n"
      "                                      dtype=np.int32).reshape(3, -1)"),
     "C13-R3"),
    ("final connectivity lists green before blue2",
     (_TR, "            np.hstack((m.t[:, rest], t_red, t_blue1, t_blue2, "
      "t_green)),", "            np.hstack((m.t[:, rest], t_red, t_blue1, "
      "t_green, t_blue2)),"), "C13-R3"),
    ("triangle adaptive refinement keeps the old boundaries",
     (_TR, "            t=t,\n            _boundaries=None,\n            "
      "_subdomains=subdomains,", "            t=t,\n            "
      "_subdomains=subdomains,"), "C13-R4"),
    ("line adaptive refinement keeps stale subdomains again",
     (_LI, "            t=newt,\n            _subdomains=subdomains,\n"
      "        )\n\n    def param", "            t=newt,\n        )\n\n"
      "    def param"), "C13-R4"),
    ("tetrahedron adaptive refinement keeps stale boundaries again",
     (_TE, "            t=t[:, :nt],\n            _boundaries=None,\n",
      "            t=t[:, :nt],\n"), "C13-R4"),
]
TWINS = [
    ("mask written with the test for -1 as '< 0'",
     (_TR, "        rest = (ix[0] == -1) * (ix[1] == -1) * (ix[2] == -1)",
      "        rest = (ix[0] < 0) * (ix[1] < 0) * (ix[2] < 0)")),
    ("red children listed with the vertices rotated",
     (_TR, "            np.vstack((ix[1, red], ix[2, red], ix[0, red])),",
      "            np.vstack((ix[2, red], ix[0, red], ix[1, red])),")),
]
