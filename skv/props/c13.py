"""C13 - adaptive refinement: template masks, template geometry and
conformity on the reference triangle, child index table, tag freshness."""
from __future__ import annotations

import ast
from fractions import Fraction
from itertools import product as iprod
from typing import Any, Dict, List, Optional

from ..elements import load_refdoms
from ..interp import (Interp, Obj, PyFunc, Raised, Unsupported)
from ..model import staged, AnalysisError, Model, src, walk_no_nested
from ..poly import Poly
from ..refcell import (Child, ChildList, ConnTable, EntTable, IdxArr, Mask,
                       ARange, MASKS, NT, SZ, PStub, PointTable, Recorder,
                       RowSel,
                       inside_ref, make_hook, resolve, simplex_volume)
from .c12 import tag_rule

PID = "C13"
LEVEL = "other"
TECHNIQUE = ("reference-cell interpretation of the red/blue/green triangle "
             "templates: masks evaluated over all marking patterns, exact "
             "geometry of every template (partition, conformity of each "
             "parent facet), symbolic offsets of the child index table; "
             "structural check of the facet-marking closure; tag freshness "
             "of every _adaptive")
LEVEL_TEXT = (
    "Decides for triangles: (R1) over all eight marking patterns of a "
    "cell's facets, the five template masks are pairwise disjoint and cover "
    "every pattern the closure invariant allows ('a marked facet implies "
    "the reference facet is marked'), and the closure loop establishes that "
    "invariant and iterates to a fixpoint; (R2) each template uses only new "
    "nodes its mask guarantees, its children are non-degenerate, lie in the "
    "parent and add up to its area, a marked facet is covered by exactly "
    "its two halves and an unmarked one by itself (so neighbours agree: no "
    "hanging nodes), and new nodes are the facet midpoints appended after "
    "the old points; (R3) the child index table used for named subdomains "
    "has, per template, as many rows as child blocks at offsets that are "
    "the polynomial prefix sums of the final block order; (R4) every "
    "_adaptive sets or provably keeps both tag fields. Not decided: the "
    "tetrahedral bisection work-list (data-dependent loop), conformity of "
    "concrete results, arbitrary refinement histories.")
LEVEL_TEXT += (
    " Added after the seeding phase: (R5) fill values of padded child "
    "tables are removed by value before an index set becomes a subdomain; "
    "the ancestor array of the tetrahedral bisection holds input-mesh "
    "cell numbers only (index-space typing); MeshLine1._adaptive is "
    "decided by a symbolic run (kept cells, halves, midpoints, child "
    "table).")
LEVEL_TEXT += (
    " (R6) the _adaptive* entry points treat the marked set as an array of "
    "cell indices: no truth-value reduction (np.any, .all(), bare truth "
    "value, ...) over it or its local aliases, and the mesh is returned "
    "unrefined only under a test that proves the set empty.")
LEVEL_TEXT += (
    " Added in the hunting round (defects found by independent agents "
    "on the unchanged tree, DESIGN.md 9.4 / 9.6): "
    "the 1-D class reduces the marked array to a set; edge-length "
    "decisions are dimensionally homogeneous; capacity of the "
    "tetrahedral work arrays (open findings); periodic classes refuse.")
LEVEL_TEXT += (
    " Added in the second hunting round (DESIGN.md 9.6): "
    "the sort routines of adaptive refinement are invariant under "
    "translation (skv/invariance.py); no assert on input data in "
    "refinement routines; the marked set is converted to integers "
    "before np.unique.")
LEVEL_TEXT += (
    " Added in the third round (review of the fix commits, DESIGN.md "
    "9.6): "
    "a reduction of the marked set is accepted only under a test that "
    "it was given as a Boolean mask.")
LEVEL_NOTE = ("Trusted: numpy hstack/vstack/arange/reshape. The reference "
              "facet is the one opposite... precisely: local facet 2 = "
              "vertices (0, 2), read from RefTri.facets.")
EXPLANATION = "Exact template audit on the reference triangle + tag rule."
TRUSTED = ["numpy hstack/vstack/arange/reshape/count_nonzero"]
ASSUMPTIONS = ["marks are per global facet, so both neighbours of a facet "
               "see the same mark"]

TRI = "skfem.mesh.mesh_tri_1"
FT = "skfem/mesh/mesh_tri_1.py"


class IxTable(ConnTable):
    """ix = ix[m.t2f]: new node on local facet k of each cell, or -1"""
    def skv_getitem(self, ix):
        r = super().skv_getitem(ix)
        return MarkedIdx.of(r) if isinstance(r, IdxArr) else r


class MarkedIdx(IdxArr):
    @staticmethod
    def of(a: IdxArr):
        m = MarkedIdx(a.kind, a.k, a.offset, a.mask)
        return m

    def skv_compare(self, op, other):
        if isinstance(op, ast.GtE) and other == 0:
            return Mask(f"marked{self.k}", ("marked", self.k))
        if isinstance(op, ast.Eq) and other == -1:
            return Mask(f"unmarked{self.k}", ("unmarked", self.k))
        if isinstance(op, ast.Lt) and other == 0:
            return Mask(f"unmarked{self.k}", ("unmarked", self.k))
        raise Unsupported("comparison on the new-node table")


def eval_marks(m, pattern) -> bool:
    e = m.expr if isinstance(m, Mask) else m
    if e is None:
        raise AnalysisError(f"mask {m!r} undefined")
    if e[0] == "and":
        return eval_marks(e[1], pattern) and eval_marks(e[2], pattern)
    if e[0] == "not":
        return not eval_marks(e[1], pattern)
    if e[0] == "marked":
        return bool(pattern[e[1]])
    if e[0] == "unmarked":
        return not pattern[e[1]]
    raise AnalysisError(f"mask term {e[0]}")


class PtSel:
    skv_isarray = True

    def __init__(self, comb):
        self.comb = comb

    def skv_binop(self, op, other, reflected):
        if isinstance(op, ast.Add) and isinstance(other, PtSel):
            c = dict(self.comb)
            for k, v in other.comb.items():
                c[k] = c.get(k, 0) + v
            return PtSel(c)
        if isinstance(op, ast.Mult) and isinstance(other, (int, Fraction)):
            return PtSel({k: v * Fraction(other)
                          for k, v in self.comb.items()})
        raise Unsupported("arithmetic on selected points")


def _run_split(model, rd):
    cls = model.cls(TRI, "MeshTri1")
    fn = cls.methods.get("_adaptive_split_elements")
    if fn is None:
        raise AnalysisError("MeshTri1._adaptive_split_elements not found")
    # statements from the first mask definition on
    body = fn.node.body
    start = None
    for i, st in enumerate(body):
        if isinstance(st, ast.Assign) and isinstance(st.value, ast.BinOp) \
                and "ix[" in src(st.value) and ">=" in src(st.value):
            start = i
            break
    if start is None:
        raise AnalysisError("template masks not found")
    pre = body[:start]
    # the preamble must define ix as (new node id or -1) gathered by t2f
    pre_src = " ".join(src(s) for s in pre)
    cap: Dict[str, Any] = {}
    base_hook = make_hook(rd, cap)

    class FacetVerts:
        def skv_getitem(self, ix):
            if isinstance(ix, tuple) and len(ix) == 2 and isinstance(
                    ix[0], int):
                return ("facetvertex", ix[0])
            raise Unsupported("m.facets index")

        def skv_getattr(self, name):
            if name == "shape":
                return (2, Poly.sym("nfacets"))
            raise Unsupported("facets." + name)

    class PS(PStub):
        def skv_getitem(self, ix):
            if isinstance(ix, tuple) and len(ix) == 2 and isinstance(
                    ix[1], tuple) and ix[1][0] == "facetvertex":
                return PtSel({ix[1][1]: Fraction(1)})
            return super().skv_getitem(ix)

    def hook(interp, name, args, kwargs, node):
        if name == "numpy.hstack":
            seq = list(args[0])
            if len(seq) == 2 and isinstance(seq[0], PStub) and isinstance(
                    seq[1], PtSel):
                cap["newpoint"] = seq[1].comb
                return PointTable(["old", "facet"])
        if name == "numpy.arange":
            a = [Poly.coerce(x) for x in args]
            if len(a) == 2:
                return ARange(a[0], a[1])
            if len(a) == 1:
                return ARange(Poly(), a[0])
        if name == "numpy.zeros":
            shp = args[0]
            r = Recorder(cap)
            r.shape = shp
            cap["new_t_shape"] = shp
            return r
        if name == "numpy.sum" and isinstance(args[0], Mask):
            return Poly.sym(f"n[{args[0].name}]")
        if name in ("numpy.setdiff1d", "numpy.unique"):
            return args[0]
        return base_hook(interp, name, args, kwargs, node)

    class Facets1:
        """``facets == 1`` selector"""
        def skv_compare(self, op, other):
            return "MARKEDFACETS"
    mesh = Obj(None, {"t": ConnTable("vertex", 3), "p": PS(2),
                      "facets": FacetVerts(),
                      "t2f": ConnTable("facet", 3)})
    env = {"m": mesh, "facets": Facets1(), "subdomains": {},
           "ix": IxTable("facet", 3, SZ)}
    it = Interp(model, call_hook=hook)
    try:
        ret = it.run_body(body[start:], env, fn.module)
    except Raised as e:
        raise AnalysisError(f"_adaptive_split_elements raises: {e.what}")
    except Unsupported as e:
        raise AnalysisError(f"_adaptive_split_elements outside grammar: {e}")
    return fn, ret, cap, env, pre_src


def _closure_enumeration(model, ff):
    """The closure loop works on integer arrays through indexing and
    comparisons only: its outcome depends on the incidence structure alone.
    It is interpreted on every way two cells can share a facet (9 slot
    pairs), every chain and every closed ring of three cells, with every
    non-empty marked set; the result must mark all facets of marked cells
    and satisfy, for every cell, 'facet 0 or 1 marked => facet 2 marked'."""
    from itertools import product
    from .. import nlite
    from ..nlite import NArr

    def structures():
        S = range(3)
        for a, b in product(S, S):
            yield 2, [(0, a, 1, b)]
        for a, b, c, d in product(S, S, S, S):
            if b == c:
                continue
            yield 3, [(0, a, 1, b), (1, c, 2, d)]
        for a, b, c, d, e, f in product(S, repeat=6):
            if b == c or d == e or f == a:
                continue
            yield 3, [(0, a, 1, b), (1, c, 2, d), (2, e, 0, f)]
    n = 0
    for ncell, shared in structures():
        t2f = [[None] * ncell for _ in range(3)]
        nf = 0
        for (c1, s1, c2, s2) in shared:
            t2f[s1][c1] = nf
            t2f[s2][c2] = nf
            nf += 1
        for c in range(ncell):
            for k in range(3):
                if t2f[k][c] is None:
                    t2f[k][c] = nf
                    nf += 1
        for mask in range(1, 2 ** ncell):
            marked = [c for c in range(ncell) if mask >> c & 1]
            n += 1
            m = Obj(None, {"t2f": NArr([list(r) for r in t2f]),
                           "facets": NArr([[0] * nf, [0] * nf])})
            try:
                r = Interp(model, call_hook=nlite.hook).call(
                    ff, [m, NArr(marked)], {})
            except Raised as e:
                return False, f"raises {e.what} for t2f={t2f}, marked={marked}"
            except Unsupported as e:
                raise AnalysisError(f"_adaptive_find_facets outside "
                                    f"grammar: {e}")
            F = [int(x) for x in r.data]
            if len(F) != nf or any(v not in (0, 1) for v in F):
                return False, f"result {F} for t2f={t2f}"
            for c in marked:
                if not all(F[t2f[k][c]] for k in range(3)):
                    return False, (f"marked cell {c} keeps an unmarked "
                                   f"facet (t2f={t2f}, marked={marked}, "
                                   f"facets={F})")
            for c in range(ncell):
                if (F[t2f[0][c]] or F[t2f[1][c]]) and not F[t2f[2][c]]:
                    return False, (f"cell {c} ends with facet 0 or 1 marked "
                                   f"but not its reference facet 2 "
                                   f"(t2f={t2f}, marked={marked}, "
                                   f"facets={F})")
            # nothing is marked without a reason: a facet is marked only
            # if it belongs to a marked cell or is facet 2 of a cell with
            # a marked facet, transitively - checked as: the minimal
            # closed set containing the marked cells' facets
            G = [0] * nf
            for c in marked:
                for k in range(3):
                    G[t2f[k][c]] = 1
            changed = True
            while changed:
                changed = False
                for c in range(ncell):
                    if (G[t2f[0][c]] or G[t2f[1][c]]) and not G[t2f[2][c]]:
                        G[t2f[2][c]] = 1
                        changed = True
            if F != G:
                return False, (f"marks {F} differ from the least closed "
                               f"set {G} (t2f={t2f}, marked={marked})")
    return True, (f"{n} (incidence structure, marked set) cases of two and "
                  f"three cells: all facets of marked cells marked, the "
                  f"result is the least set closed under 'facet 0 or 1 "
                  f"marked => facet 2 marked'")


def _templates(model, rep):
    R1, R2, R3 = "C13-R1", "C13-R2", "C13-R3"
    rd = load_refdoms(model)["RefTri"]
    ref_facet = [k for k, f in enumerate(rd.facets) if sorted(f) == [0, 2]]
    if ref_facet != [2]:
        raise AnalysisError("RefTri.facets: the (0, 2) facet is not local "
                            "facet 2 - the template model needs revisiting")
    fn, ret, cap, env, pre_src = _run_split(model, rd)
    line = fn.lineno
    if not (isinstance(ret, tuple) and len(ret) == 3
            and isinstance(ret[0], PointTable)
            and isinstance(ret[1], ChildList)):
        raise AnalysisError("_adaptive_split_elements: (points, cells, "
                            "subdomains) expected")
    pts, cl = ret[0], ret[1]
    # new nodes are facet midpoints
    comb = cap.get("newpoint")
    if comb == {0: Fraction(1, 2), 1: Fraction(1, 2)}:
        rep.ok(R2, "new-nodes", "new nodes = midpoints of the marked "
               "facets, appended after the old points")
    else:
        rep.fail(R2, FT, fn.short(), "new-nodes",
                 f"new nodes are the combination {comb} of the facet's "
                 f"end points, not their midpoint", line)
    ok_pre = ("ix[facets == 1] = np.arange(np.count_nonzero(facets)) + "
              "m.p.shape[1]" in pre_src and "ix = ix[m.t2f]" in pre_src)
    if not ok_pre:
        raise AnalysisError("_adaptive_split_elements: numbering of the new "
                            "nodes not recognised")
    # group children by mask, in block order
    groups: Dict[str, List[Child]] = {}
    order: List[str] = []
    for c in cl.children:
        mk = str(c.mask)
        if mk not in groups:
            groups[mk] = []
            order.append(mk)
        groups[mk].append(c)
    masks = {mk: MASKS.get(mk) for mk in order}
    if any(v is None for v in masks.values()) or len(order) != 5:
        raise AnalysisError(f"template masks {order} not recognised")
    # R1: disjoint and exhaustive over the allowed patterns
    n_allowed = 0
    for pat in iprod((0, 1), repeat=3):
        allowed = (not (pat[0] or pat[1])) or pat[2]
        hits = [mk for mk in order if eval_marks(masks[mk], pat)]
        cons = f"pattern{pat}"
        if allowed:
            n_allowed += 1
            if len(hits) == 1:
                rep.ok(R1, cons, f"marks {pat} -> template '{hits[0]}' only")
            else:
                rep.fail(R1, FT, fn.short(), cons,
                         f"marking pattern {pat} of a cell's facets is "
                         f"handled by {len(hits)} templates {hits}: the cell "
                         f"is {'lost' if not hits else 'duplicated'}", line)
        elif hits:
            rep.ok(R1, cons, f"pattern excluded by the closure invariant "
                   f"(would hit {hits})")
        else:
            rep.ok(R1, cons, "pattern excluded by the closure invariant")
    # closure loop
    ff = model.cls(TRI, "MeshTri1").methods.get("_adaptive_find_facets")
    if ff is None:
        raise AnalysisError("_adaptive_find_facets not found")
    okc, why = _closure_enumeration(model, ff)
    if okc:
        rep.ok(R1, "closure", why)
    else:
        rep.fail(R1, FT, ff.short(), "closure",
                 f"the facet-marking loop does not establish 'every facet "
                 f"of a marked cell is marked' and 'facet 0 or 1 marked "
                 f"implies the reference facet 2 marked' - cells can reach "
                 f"the templates with a pattern none of them handles: "
                 f"{why}", ff.lineno)
    # R2: geometry per template
    for mk in order:
        m = masks[mk]
        pats = [p for p in iprod((0, 1), repeat=3) if eval_marks(m, p)
                and ((not (p[0] or p[1])) or p[2])]
        if len(pats) != 1:
            continue
        pat = pats[0]
        children = groups[mk]
        bad = None
        area = Fraction(0)
        edges = []
        cells_v = []
        for ci, c in enumerate(children):
            vs = []
            for r in c.rows:
                if r.kind == "facet" and not pat[r.k]:
                    bad = (f"child {ci} uses the new node on facet {r.k}, "
                           f"which this template's mask does not guarantee "
                           f"to exist (index -1)")
                    break
                p = resolve(rd, pts, r)
                if isinstance(p, str):
                    bad = f"child {ci}: {p}"
                    break
                vs.append(p)
            if bad:
                break
            if len(vs) != 3:
                bad = f"child {ci} has {len(vs)} vertices"
                break
            a = abs(simplex_volume(vs))
            if a == 0:
                bad = f"child {ci} is degenerate"
                break
            if not all(inside_ref(rd, p) for p in vs):
                bad = f"child {ci} leaves the parent"
                break
            area += a
            cells_v.append(vs)
            edges += [frozenset((vs[i], vs[j]))
                      for i, j in ((0, 1), (1, 2), (0, 2))]
        want_n = {(0, 0, 0): 1, (0, 0, 1): 2, (0, 1, 1): 3, (1, 0, 1): 3,
                  (1, 1, 1): 4}[pat]
        if bad is None and len(children) != want_n:
            bad = f"{len(children)} children for marking pattern {pat}"
        if bad is None and area != Fraction(1, 2):
            bad = f"children's areas add up to {area}, not 1/2"
        if bad is None:
            from ..refcell import first_overlap
            ov = first_overlap(cells_v)
            if ov:
                bad = f"children {ov[0]} and {ov[1]} overlap"
        if bad is None:
            for k, f in enumerate(rd.facets):
                a, b = (tuple(rd.p[v]) for v in f)
                mid = tuple((a[d] + b[d]) / 2 for d in range(2))
                on = [e for e in edges if all(_on_seg(p, a, b) for p in e)]
                want = ({frozenset((a, mid)), frozenset((mid, b))}
                        if pat[k] else {frozenset((a, b))})
                if set(on) != want or len(on) != len(want):
                    bad = (f"parent facet {k} ("
                           f"{'marked' if pat[k] else 'unmarked'}) is "
                           f"covered by {len(on)} child edge(s) that are "
                           f"not {'its two halves' if pat[k] else 'the facet itself'}"
                           f": a hanging node appears on that facet")
                    break
        cons = f"template[{mk}]"
        if bad:
            rep.fail(R2, FT, fn.short(), cons, bad, line)
        else:
            rep.ok(R2, cons, f"marks {pat}: {len(children)} children tile "
                   f"the parent; marked facets split at their midpoint, "
                   f"unmarked ones kept whole", sample=(pat == (0, 1, 1)))
    # R3: child index table
    stores = [s_ for s_ in cap.get("stores", [])]
    prefix = Poly()
    for mk in order:
        n_m = Poly.sym(f"n[{masks[mk].name}]")
        nblocks = len(groups[mk])
        mine = [s_ for s_ in stores if isinstance(s_[0], tuple)
                and isinstance(s_[0][1], Mask)
                and s_[0][1] is masks[mk]]
        cons = f"child-table[{mk}]"
        if len(mine) != 1:
            rep.fail(R3, FT, fn.short(), cons,
                     f"{len(mine)} rows of the child index table are "
                     f"written for template '{mk}'", line)
            prefix = prefix + n_m * nblocks
            continue
        (rsel, _), val = mine[0]
        if isinstance(val, ARange):
            lo, hi, rows = val.lo, val.hi, 1
        elif isinstance(val, tuple) and val[0] == "block":
            _, lo, hi, rows = val
        else:
            raise AnalysisError(f"child table value for {mk}")
        nrows_sel = None
        if isinstance(rsel, slice):
            tot = cap.get("new_t_shape", (4,))[0]
            nrows_sel = (rsel.stop if rsel.stop is not None else tot) - \
                (rsel.start or 0)
        elif isinstance(rsel, int):
            nrows_sel = 1
        ok = (lo == prefix and hi == prefix + n_m * nblocks
              and rows == nblocks and nrows_sel == nblocks)
        if ok:
            rep.ok(R3, cons, f"{nblocks} row(s) holding the cell numbers "
                   f"[{lo}, {hi}) = position of the template's "
                   f"{nblocks} block(s) in the new connectivity")
        else:
            rep.fail(R3, FT, fn.short(), cons,
                     f"child table for '{mk}': rows {nrows_sel}/{rows}, "
                     f"numbers [{lo}, {hi}); the template's {nblocks} "
                     f"block(s) occupy [{prefix}, "
                     f"{prefix + n_m * nblocks}) of the new connectivity: "
                     f"named subdomains move to other cells", line)
        prefix = prefix + n_m * nblocks


def _on_seg(p, a, b) -> bool:
    cross = (b[0] - a[0]) * (p[1] - a[1]) - (b[1] - a[1]) * (p[0] - a[0])
    if cross != 0:
        return False
    dot = (p[0] - a[0]) * (b[0] - a[0]) + (p[1] - a[1]) * (b[1] - a[1])
    ln = (b[0] - a[0]) ** 2 + (b[1] - a[1]) ** 2
    return 0 <= dot <= ln


# ----------------------------------------------------------------------
# padded child tables: the -1 fill must be removed by value

def _sentinel_tables(model, rep):
    """A child index table is created filled with -1 and only partly
    overwritten (cells with fewer children keep the fill).  Index sets read
    from it must drop the fill *by value*; dropping 'the first element of
    the sorted set' removes a genuine child whenever no fill was present."""
    R5 = "C13-R5"
    nsites = 0
    for modn, q in ((TRI, "MeshTri1._adaptive_split_elements"),
                    ("skfem.mesh.mesh_line_1", "MeshLine1._adaptive")):
        fn = model.func(modn, q)
        padded = {}
        for st in walk_no_nested(fn.node):
            if isinstance(st, ast.Assign) and len(st.targets) == 1 and \
                    isinstance(st.targets[0], ast.Name):
                v = st.value
                fill = None
                if isinstance(v, ast.BinOp) and isinstance(v.op, ast.Sub) \
                        and isinstance(v.left, ast.Call) and src(
                            v.left.func) == "np.zeros" and isinstance(
                            v.right, ast.Constant):
                    fill = -v.right.value
                elif isinstance(v, ast.UnaryOp) and isinstance(
                        v.op, ast.USub) and isinstance(v.operand, ast.Call) \
                        and src(v.operand.func) == "np.ones":
                    fill = -1
                elif isinstance(v, ast.Call) and src(v.func) == "np.full" \
                        and len(v.args) >= 2:
                    try:
                        fill = ast.literal_eval(v.args[1])
                    except ValueError:
                        fill = None
                if fill is not None:
                    padded[st.targets[0].id] = fill
        comps = [n for n in ast.walk(fn.node) if isinstance(n, ast.DictComp)
                 and any(isinstance(x, ast.Name) and x.id in padded
                         for x in ast.walk(n.value))]
        if not padded or not comps:
            raise AnalysisError(f"{q}: padded child table / subdomain map "
                                f"not found")

        def cls(e):
            """'clean' / 'padded' / ('positional', node)"""
            if isinstance(e, ast.Name):
                return "padded" if e.id in padded else "clean"
            if isinstance(e, ast.Call):
                f = src(e.func)
                if f in ("np.setdiff1d",) and len(e.args) == 2:
                    a = cls(e.args[0])
                    if a == "padded":
                        tab = [x.id for x in ast.walk(e.args[0])
                               if isinstance(x, ast.Name) and x.id in padded]
                        try:
                            rem = ast.literal_eval(e.args[1])
                        except ValueError:
                            return "padded"
                        rem = rem if isinstance(rem, (list, tuple)) else [rem]
                        return "clean" if padded[tab[0]] in rem else "padded"
                    return a
                if f in ("np.unique", "np.sort", "np.asarray", "np.array",
                         "np.ravel") and e.args:
                    return cls(e.args[0])
                if isinstance(e.func, ast.Attribute) and e.func.attr in (
                        "astype", "flatten", "ravel", "copy"):
                    return cls(e.func.value)
                return "clean" if all(cls(a) == "clean" for a in e.args) \
                    else "padded"
            if isinstance(e, ast.Subscript):
                b = cls(e.value)
                if b != "padded":
                    return b
                if isinstance(e.value, ast.Name) and e.value.id in padded:
                    return "padded"          # a read of the table
                sl = e.slice
                # value filter: X[X != fill] / X[X >= 0]
                if isinstance(sl, ast.Compare) and len(sl.ops) == 1:
                    try:
                        c = ast.literal_eval(sl.comparators[0])
                    except ValueError:
                        c = None
                    fills = set(padded.values())
                    if (isinstance(sl.ops[0], ast.NotEq) and c in fills) or \
                            (isinstance(sl.ops[0], ast.GtE) and c == 0
                             and all(f < 0 for f in fills)) or \
                            (isinstance(sl.ops[0], ast.Gt) and c == -1
                             and fills == {-1}):
                        return "clean"
                    return "padded"
                if isinstance(sl, ast.Slice):
                    return ("positional", e)
                return "padded"
            return "clean"
        for dc in comps:
            nsites += 1
            c = cls(dc.value)
            cons = f"{q}:subdomain-map"
            if c == "clean":
                rep.ok(R5, cons, "the fill value of the child table is "
                       "removed by value before the set becomes a subdomain")
            elif isinstance(c, tuple):
                rep.fail(R5, fn.path, q, cons,
                         f"'{src(c[1])[:60]}' drops the fill value of the "
                         f"child table by position: when every selected "
                         f"cell has the maximal number of children there is "
                         f"no fill in the set and the lowest-numbered "
                         f"genuine child is dropped from the subdomain",
                         dc.lineno)
            else:
                rep.fail(R5, fn.path, q, cons,
                         f"the fill value {sorted(set(padded.values()))} of "
                         f"the child table can reach the subdomain index "
                         f"set: as an index it designates the last cell",
                         dc.lineno)
    if nsites < 2:
        raise AnalysisError(f"{nsites} subdomain maps over padded child "
                            f"tables, 2 expected")


# ----------------------------------------------------------------------
# one-dimensional adaptive refinement

def _line(model, rep):
    """Symbolic run of MeshLine1._adaptive: block structure of the new
    connectivity (kept cells, left halves, right halves), midpoints, child
    index table."""
    R2, R3 = "C13-R2", "C13-R3"
    LM = "skfem.mesh.mesh_line_1"
    FL = "skfem/mesh/mesh_line_1.py"
    cls = model.cls(LM, "MeshLine1")
    fn = cls.methods.get("_adaptive")
    if fn is None:
        raise AnalysisError("MeshLine1._adaptive not found")
    q = "MeshLine1._adaptive"
    NM, NN, NP = Poly.sym("n[marked]"), Poly.sym("n[nonmarked]"), \
        Poly.sym("npoints")

    class Sel:
        skv_isarray = True

        def __init__(self, name, n):
            self.name, self.n = name, n

        def skv_len(self):
            return self.n

        def skv_getattr(self, name):
            if name == "dtype":
                class IntDtype:              # cell indices, not a mask
                    def skv_compare(self, op, other):
                        return isinstance(op, ast.NotEq)
                return IntDtype()
            if name == "astype":
                return PyFunc(lambda a, k, n: self)
            raise Unsupported("marked set." + name)

        def __repr__(self):
            return self.name

    class Ends:
        """t[k, sel]: vertex k of the selected cells"""
        skv_isarray = True

        def __init__(self, k, sel):
            self.k, self.sel = k, sel

        def __repr__(self):
            return f"vertex {self.k} of {self.sel}"

    class Cells:
        skv_isarray = True

        def __init__(self, sel):
            self.sel = sel

    class NewPts:
        skv_isarray = True

        def __init__(self, sel, what):
            self.sel, self.what = sel, what

        def skv_getattr(self, name):
            if name == "mean":
                def mean(a, k, n):
                    ax = a[0] if a else k.get("axis")
                    return NewPts(self.sel, f"mean{ax}")
                return PyFunc(mean)
            raise Unsupported("points." + name)

    class T:
        skv_isarray = True

        def skv_getitem(self, ix):
            if isinstance(ix, tuple) and len(ix) == 2 and isinstance(
                    ix[1], Sel):
                if isinstance(ix[0], int):
                    return Ends(ix[0], ix[1])
                if ix[0] == slice(None):
                    return Cells(ix[1])
            raise Unsupported(f"t index {ix!r}")

        def skv_getattr(self, name):
            if name == "shape":
                return (2, NM + NN)
            raise Unsupported("t." + name)

    class P:
        skv_isarray = True

        def skv_getitem(self, ix):
            if isinstance(ix, tuple) and len(ix) == 2 and \
                    ix[0] == slice(None) and isinstance(ix[1], Cells):
                return NewPts(ix[1].sel, "verts")
            raise Unsupported(f"p index {ix!r}")

        def skv_getattr(self, name):
            if name == "shape":
                return (1, NP)
            raise Unsupported("p." + name)

    class MidIdx(ARange):
        pass

    class Block:
        skv_isarray = True

        def __init__(self, rows, n):
            self.rows, self.n = rows, n

    cap: Dict[str, Any] = {}
    marked = Sel("marked", NM)
    the_p = P()

    class Padded:
        skv_isarray = True

        def __init__(self, what):
            self.what = what

    class Rec(Recorder):
        def skv_getitem(self, ix):
            if isinstance(ix, tuple) and len(ix) == 2 and isinstance(
                    ix[0], int) and isinstance(ix[1], Sel):
                for (i, v) in reversed(self.captured.get("stores", [])):
                    if isinstance(i, tuple) and i[0] == ix[0] and \
                            i[1] is ix[1]:
                        return v
            return Padded(ix)

    def hook(interp, name, args, kwargs, node):
        if name == "numpy.max" and isinstance(args[0], T):
            # the largest vertex number in use: NOT the number of stored
            # points (trailing unused points are an admissible state, cf.
            # remove_unused_nodes)
            return Poly.sym("maxt")
        if name == "numpy.setdiff1d":
            a, b = args
            if isinstance(a, ARange) and a.lo == Poly() and \
                    a.hi == NM + NN and b is marked:
                return Sel("nonmarked", NN)
            return Padded(("setdiff", a, b))
        if name == "numpy.unique":
            if args[0] is marked:
                cap["marked-normalised"] = True
            return args[0]
        if name in ("numpy.asarray", "numpy.array") and args and \
                args[0] is marked:
            return marked        # a conversion of the marked set: same set
        if name == "numpy.arange":
            a = [Poly.coerce(x) for x in args]
            return ARange(a[0], a[1]) if len(a) == 2 else ARange(Poly(), a[0])
        if name == "numpy.vstack":
            rows = list(args[0])
            n = None
            for r in rows:
                n = r.sel.n if isinstance(r, Ends) else (
                    r.hi - r.lo if isinstance(r, ARange) else n)
            return Block(rows, n)
        if name == "numpy.hstack":
            seq = list(args[0])
            if seq and seq[0] is the_p:
                cap["newp"] = seq
                return ("points", seq)
            cap["newt"] = seq
            return ("cells", seq)
        if name == "numpy.zeros":
            r = Rec(cap)
            cap["table_shape"] = args[0]
            return r
        return NotImplemented
    obj = Obj(cls, {"doflocs": the_p, "t": T(), "_subdomains": {},
                    "_boundaries": None})
    it = Interp(model, call_hook=hook)
    it.symbolic_range = lambda n: ARange(Poly(), n)

    def repl(a, k, n):
        cap["replace"] = k
        return ("mesh", k)
    it.overrides = dict(it.overrides)
    try:
        it.globals_override = None
        env_hook = hook
        # dataclasses.replace is an external call
        old_ext = it.external

        def ext(name, args, kwargs, node):
            if name.endswith("replace"):
                return repl(args, kwargs, node)
            return old_ext(name, args, kwargs, node)
        it.external = ext
        it.call(fn, [marked], {}, self_obj=obj)
    except (Unsupported, Raised) as e:
        raise AnalysisError(f"{q} outside grammar: {e}")
    newt, newp = cap.get("newt"), cap.get("newp")
    if newt is None or newp is None or "replace" not in cap:
        raise AnalysisError(f"{q}: new points / cells / replace not seen")
    # one midpoint and two halves are created per *entry* of the marked
    # array: an index listed twice (the triangle and tetrahedron classes
    # accept that) must be reduced to one first
    if cap.get("marked-normalised"):
        rep.ok(R2, "line:marked-set", "the marked array is reduced with "
               "np.unique before midpoints and halves are created per entry")
    else:
        rep.fail(R2, FL, q, "line:marked-set",
                 "midpoints and halves are created per entry of the marked "
                 "array as given: a cell listed twice is split twice (two "
                 "coincident midpoints, both halves twice, total length "
                 "grows) - reduce it with np.unique first, as the "
                 "tetrahedral sibling does", fn.lineno)
    # points: old ones first, then the midpoints of the marked cells
    okp = (len(newp) == 2 and isinstance(newp[1], NewPts)
           and newp[1].sel is marked and newp[1].what == "mean1")
    if okp:
        rep.ok(R2, "line:new-points", "old points keep their indices; "
               "point npoints+k is the mean of the two vertices of the k-th "
               "marked cell")
    else:
        rep.fail(R2, FL, q, "line:new-points",
                 "the appended points are not the midpoints (mean over the "
                 "vertex axis) of the marked cells in marked order",
                 fn.lineno)
    # cells: describe every block as (left end, right end)
    def end(v):
        if isinstance(v, Ends):
            return ("v", v.k, v.sel.name)
        if isinstance(v, ARange):
            if v.lo == NP and v.hi == NP + NM:
                return ("mid", "marked")
            return ("range", str(v.lo), str(v.hi))
        return ("?", repr(v))
    blocks = []
    for b in newt:
        if isinstance(b, Cells):
            blocks.append((("v", 0, b.sel.name), ("v", 1, b.sel.name),
                           b.sel.n))
        elif isinstance(b, Block) and len(b.rows) == 2:
            blocks.append((end(b.rows[0]), end(b.rows[1]), b.n))
        else:
            raise AnalysisError(f"{q}: block of the new connectivity")
    kept = [i for i, b in enumerate(blocks)
            if b[:2] == (("v", 0, "nonmarked"), ("v", 1, "nonmarked"))]
    left = [i for i, b in enumerate(blocks)
            if b[:2] == (("v", 0, "marked"), ("mid", "marked"))]
    right = [i for i, b in enumerate(blocks)
             if b[:2] == (("mid", "marked"), ("v", 1, "marked"))]
    okc = len(blocks) == 3 and len(kept) == len(left) == len(right) == 1
    if okc:
        rep.ok(R2, "line:children", "unmarked cells kept; every marked cell "
               "[a, b] replaced by [a, m] and [m, b] with m its midpoint: "
               "same domain, no degenerate or overlapping cells")
    else:
        rep.fail(R2, FL, q, "line:children",
                 f"the new connectivity consists of the blocks "
                 f"{[b[:2] for b in blocks]}: expected the unmarked cells "
                 f"and, per marked cell [a, b], the halves [a, m] and "
                 f"[m, b]", fn.lineno)
        return
    # child table rows against block positions
    start = []
    acc = Poly()
    for b in blocks:
        start.append(acc)
        acc = acc + b[2]
    want = {(0, "nonmarked"): (start[kept[0]], NN),
            (0, "marked"): None, (1, "marked"): None}
    halves = sorted([left[0], right[0]])
    stores = [(i, v) for i, v in cap.get("stores", [])
              if isinstance(i, tuple) and isinstance(i[1], Sel)]
    got = {}
    for (r, sel), v in stores:
        got[(r, sel.name)] = v
    okt = set(got) == set(want)
    detail = ""
    if okt:
        v = got[(0, "nonmarked")]
        okt = isinstance(v, ARange) and v.lo == start[kept[0]] and \
            v.hi == start[kept[0]] + NN
        rows = [got[(0, "marked")], got[(1, "marked")]]
        pos = sorted(str(start[h]) for h in halves)
        if okt and all(isinstance(r, ARange) for r in rows):
            los = sorted(str(r.lo) for r in rows)
            okt = los == pos and all(r.hi - r.lo == NM for r in rows)
            detail = f"rows start at {los}, blocks at {pos}"
        else:
            okt = False
    if okt:
        rep.ok(R3, "line:child-table", "row 0 of unmarked cells and rows "
               "0/1 of marked cells hold the positions of their blocks in "
               "the new connectivity")
    else:
        rep.fail(R3, FL, q, "line:child-table",
                 f"the child index table does not list the positions of "
                 f"the kept / left / right blocks ({detail or sorted(got)}"
                 f"): named subdomains move to other cells", fn.lineno)


# ----------------------------------------------------------------------
# tetrahedral bisection: ancestors

def _tet_ancestry(model, rep):
    """Index-space typing of the ancestor array of MeshTet1._adaptive.
    Two index spaces occur: ORIG (cells of the input mesh, which is what
    named subdomains list) and CUR (columns of the growing work table t,
    which is what ``marked`` lists inside the loop).  The array consulted
    for the subdomain map must hold ORIG values only: initialised with the
    identity on the input cells, and every later store copies entries of
    the array itself, taken at the cells the new columns were split from."""
    R5 = "C13-R5"
    fn = model.func("skfem.mesh.mesh_tet_1", "MeshTet1._adaptive")
    FTE = "skfem/mesh/mesh_tet_1.py"
    q = "MeshTet1._adaptive"
    # the array consulted by the subdomain map
    anc = None
    for n in ast.walk(fn.node):
        if isinstance(n, ast.DictComp):
            for c in ast.walk(n.value):
                if isinstance(c, ast.Call) and src(c.func) in (
                        "np.isin", "np.in1d") and c.args:
                    a0 = c.args[0]
                    while isinstance(a0, ast.Subscript):
                        a0 = a0.value
                    if isinstance(a0, ast.Name):
                        anc = a0.id
    if anc is None:
        raise AnalysisError(f"{q}: ancestor array of the subdomain map not "
                            f"found")
    loops = [n for n in fn.node.body if isinstance(n, ast.While)]
    if len(loops) != 1:
        raise AnalysisError(f"{q}: one work-list loop expected")
    lp = loops[0]
    in_loop = {id(x) for x in ast.walk(lp)}
    stores = [n for n in walk_no_nested(fn.node) if isinstance(n, ast.Assign)
              and isinstance(n.targets[0], ast.Subscript)
              and src(n.targets[0].value) == anc]
    pre = [s_ for s_ in stores if id(s_) not in in_loop]
    inl = [s_ for s_ in stores if id(s_) in in_loop]
    # initial count of cells
    nt0 = [n for n in fn.node.body if isinstance(n, ast.Assign)
           and src(n.value) == "self.t.shape[1]"]
    ntn = src(nt0[0].targets[0]) if nt0 else None
    ok_init = (len(pre) == 1 and ntn is not None
               and src(pre[0].targets[0].slice) == f":{ntn}"
               and isinstance(pre[0].value, ast.Call)
               and src(pre[0].value.func) == "np.arange"
               and src(pre[0].value.args[0]) == ntn)
    if ok_init:
        rep.ok(R5, "tet:ancestors:init", f"{anc}[:{ntn}] = arange({ntn}): "
               f"every input cell is its own ancestor")
    else:
        rep.fail(R5, FTE, q, "tet:ancestors:init",
                 f"the ancestor array {anc} is not initialised with the "
                 f"identity on the input cells", fn.lineno)
    # the columns appended to t in the loop and the cells they come from
    tstores = [n for n in ast.walk(lp) if isinstance(n, ast.Assign)
               and isinstance(n.targets[0], ast.Subscript)
               and src(n.targets[0].value) == "t"
               and isinstance(n.targets[0].slice, ast.Tuple)]
    appended = [src(n.targets[0].slice.elts[1]) for n in tstores
                if isinstance(n.targets[0].slice.elts[1], ast.Slice)]
    parents = [src(n.targets[0].slice.elts[1]) for n in tstores
               if isinstance(n.targets[0].slice.elts[1], ast.Name)]
    if len(appended) != 1 or len(set(parents)) != 1:
        raise AnalysisError(f"{q}: stores of parent and child columns not "
                            f"found")
    app, par = appended[0], parents[0]
    if len(inl) != 1:
        rep.fail(R5, FTE, q, "tet:ancestors:inherit",
                 f"{len(inl)} stores into {anc} inside the loop; the "
                 f"appended columns t[:, {app}] need exactly one", lp.lineno)
        return
    st = inl[0]
    slot = src(st.targets[0].slice)
    val = st.value
    ok_slot = slot == app
    ok_val = (isinstance(val, ast.Subscript) and src(val.value) == anc
              and src(val.slice) == par)
    if ok_slot and ok_val:
        rep.ok(R5, "tet:ancestors:inherit",
               f"{anc}[{app}] = {anc}[{par}]: a new column inherits the "
               f"ancestor (ORIG index) of the cell it was split from")
    elif ok_slot and src(val) == par:
        rep.fail(R5, FTE, q, "tet:ancestors:inherit",
                 f"{anc}[{app}] = {par} stores work-table column numbers "
                 f"(valid only for cells of the input mesh) where ancestors "
                 f"in the input mesh are expected: a cell bisected in a "
                 f"later pass of the closure loop hands its children a "
                 f"number no subdomain lists, and they drop out of every "
                 f"named subdomain", st.lineno)
    else:
        rep.fail(R5, FTE, q, "tet:ancestors:inherit",
                 f"{anc}[{slot}] = {src(val)[:40]}: expected "
                 f"{anc}[{app}] = {anc}[{par}] (slots of the appended "
                 f"columns, ancestors of the cells they were split from)",
                 st.lineno)


def _empty_test(test, names) -> bool:
    """does `test` (taken positively) prove one of `names` empty?
    Accepted idioms: len(m) == 0, len(m) < 1, not len(m), m.size == 0,
    not m.size, np.size(m) == 0 - and 'and' chains containing one."""
    def is_len(e):
        if isinstance(e, ast.Call) and src(e.func) in ("len", "np.size",
                                                        "numpy.size") \
                and len(e.args) == 1 and isinstance(e.args[0], ast.Name) \
                and e.args[0].id in names:
            return True
        return isinstance(e, ast.Attribute) and e.attr == "size" and \
            isinstance(e.value, ast.Name) and e.value.id in names
    if isinstance(test, ast.BoolOp) and isinstance(test.op, ast.And):
        return any(_empty_test(v, names) for v in test.values)
    if isinstance(test, ast.UnaryOp) and isinstance(test.op, ast.Not):
        return is_len(test.operand)
    if isinstance(test, ast.Compare) and len(test.ops) == 1 and \
            is_len(test.left) and isinstance(test.comparators[0],
                                            ast.Constant):
        c = test.comparators[0].value
        return (isinstance(test.ops[0], ast.Eq) and c == 0) or \
            (isinstance(test.ops[0], ast.Lt) and c == 1) or \
            (isinstance(test.ops[0], ast.LtE) and c == 0)
    return False


def _subdomain_propagation(model, rep):
    """'named subdomains still cover the same regions': every _adaptive
    must hand the subdomains on.  First-order classes pass a computed map to
    replace(_subdomains=...) (the maps themselves are R3/R5); classes that
    refine through another class are interpreted on a stub mesh: the result
    must carry this mesh's subdomains as propagated by the refining class."""
    from .c12 import interpret_delegate, SELF_SUB, _only_raises
    R4 = "C13-R4"
    n = 0
    for c in model.all_classes():
        fn = c.methods.get("_adaptive")
        if fn is None or not c.path.startswith("skfem/mesh/") or \
                _only_raises(fn):
            continue
        n += 1
        cons = f"{c.name}._adaptive:subdomains-handed-on"
        def is_build(x):
            return isinstance(x, ast.Call) and src(x.func) == "replace" \
                and any(kk.arg == "t" for kk in x.keywords)
        anyb = [x for x in walk_no_nested(fn.node) if is_build(x)]
        builds = []
        for r_ in walk_no_nested(fn.node):
            if not isinstance(r_, ast.Return) or r_.value is None:
                continue
            v = r_.value
            if isinstance(v, ast.Name):
                defs = [a for a in walk_no_nested(fn.node)
                        if isinstance(a, ast.Assign) and any(
                            isinstance(t_, ast.Name) and t_.id == v.id
                            for t_ in a.targets)]
                v = defs[-1].value if defs else v
            if is_build(v):
                builds.append(v)
        if anyb and not builds:
            raise AnalysisError(f"{c.name}._adaptive: builds a connectivity "
                                f"but the returned mesh is not recognised")
        if builds:
            bad = None
            for x in builds:
                kw = {k.arg: k.value for k in x.keywords}
                v = kw.get("_subdomains")
                if v is None:
                    bad = (x.lineno, "without _subdomains: the index arrays "
                           "of the unrefined mesh are kept for new cells")
                elif isinstance(v, ast.Constant) and v.value is None:
                    bad = (v.lineno, "with _subdomains=None: named "
                           "subdomains are lost")
            if bad:
                rep.fail(R4, fn.path, fn.short(), cons,
                         f"the refined mesh is built {bad[1]} instead of "
                         f"covering the same regions", bad[0])
            else:
                rep.ok(R4, cons, "builds the refined mesh with a "
                                 "propagated subdomain map")
            continue
        res = interpret_delegate(model, c, fn, [Poly.sym("marked")])
        rcls = res.hist[0][0]
        if res.sub == ("refined-by", rcls, SELF_SUB):
            rep.ok(R4, cons, f"hands its subdomains to {rcls}._adaptive and "
                             f"takes the propagated ones over")
        else:
            rep.fail(R4, fn.path, fn.short(), cons,
                     f"refines through {rcls} but the result carries "
                     f"{'no subdomains' if res.sub is None else res.sub!r} "
                     f"(from_mesh drops the tags): named subdomains are "
                     f"lost - Mesh.refined only warns - instead of covering "
                     f"the same regions", fn.lineno)
    if n < 5:
        raise AnalysisError(f"only {n} _adaptive implementations found")


def _homogeneous_geometry(model, rep):
    """The geometric decisions of adaptive refinement (which edge of a cell
    is the longest) must not depend on the unit of length: every sum,
    comparison and extremum in _adaptive_sort_mesh is dimensionally
    homogeneous.  A perturbation of *absolute* size added to the coordinates
    (tie-breaking noise) is rounded away on meshes with large coordinates:
    ties survive, neighbours bisect different edges of their common face and
    the result is silently non-conforming.  Engine: skv/dims.py."""
    from fractions import Fraction as Fr
    from ..dims import ANY, DimEval, show
    R2 = "C13-R2"
    n = 0
    for modn, clsn in (("skfem.mesh.mesh_tri_1", "MeshTri1"),
                       ("skfem.mesh.mesh_tet_1", "MeshTet1")):
        fn = model.cls(modn, clsn).methods.get("_adaptive_sort_mesh")
        if fn is None:
            raise AnalysisError(f"{clsn}._adaptive_sort_mesh not found")
        mod = model.modules[modn]
        ev = DimEval(api={}, attrs={},
                     dotted=lambda e, mod=mod: model.dotted(mod, e))
        env = {}
        for p_ in fn.params():          # the triangle version is static
            env[p_] = Fr(1) if p_ == "p" else ANY
        ev.run(fn.node.body, env)
        n += len(ev.checked)
        q = f"{clsn}._adaptive_sort_mesh"
        for ex in ev.failed:
            rep.fail(R2, fn.path, q,
                     f"{q}:homogeneous:{src(ex.node)[:50]}",
                     f"{ex.what}: the outcome depends on the unit of "
                     f"length - with coordinates of size 1e6 the added "
                     f"term is below round-off, exact ties between edge "
                     f"lengths survive and the refined mesh is not "
                     f"conforming", ex.node.lineno)
        if not ev.failed:
            rep.ok(R2, f"{q}:homogeneous",
                   f"{len(ev.checked)} sums / comparisons of like "
                   f"quantities")
    if n < 20:
        raise AnalysisError(f"only {n} dimension checks in the adaptive "
                            f"sort routines")
    # the same decisions must not depend on where the mesh lies either:
    # every quantity computed in the sort routines is a position, or
    # invariant under translation (skv/invariance.py)
    from ..invariance import AFF, straight_line
    for modn, clsn in (("skfem.mesh.mesh_tri_1", "MeshTri1"),
                       ("skfem.mesh.mesh_tet_1", "MeshTet1")):
        fn = model.cls(modn, clsn).methods["_adaptive_sort_mesh"]
        init = {p_: (AFF if p_ == "p" else ("inv", 0))
                for p_ in fn.params() if p_ != "self"}
        out, _, _ = straight_line(fn.node.body, init)
        q = f"{clsn}._adaptive_sort_mesh"
        bad = [(st, nm, v) for st, nm, v in out if v[0] == "bad"]
        lens = [v for _, nm, v in out if v == ("inv", 1)]
        if len(lens) < 3 and not bad:
            raise AnalysisError(f"{q}: edge lengths not recognised")
        if bad:
            st, nm, v = bad[0]
            rep.fail(R2, fn.path, q, f"{q}:translation-invariant",
                     f"'{nm}' depends on the position of the mesh: {v[1]} - "
                     f"for a mesh far from the origin the tie-breaking "
                     f"perturbation reaches the size of the cells and the "
                     f"'longest' edge is a random one (cell shapes "
                     f"degenerate under repeated refinement)", st.lineno)
        else:
            rep.ok(R2, f"{q}:translation-invariant",
                   f"{len(out)} assignments: positions, or quantities "
                   f"unchanged by a translation of the mesh")


def _admissible_input_not_refused(model, rep):
    """Two ways in which an admissible marked set / mesh is refused although
    the algorithm would cope.  (a) ``assert`` on input *data* inside the
    refinement routines: the bisection is index based, a mesh whose point
    array holds two equal columns (unused trailing points at edge midpoints,
    an unmerged crack, the zeroed unused columns of a MeshTet2) refines
    correctly, but an assert comparing coordinates raises a bare
    AssertionError - and vanishes under ``python -O``.  (b) the marked set is
    normalised with np.unique: of an empty *Python sequence* that is a
    float64 array, which cannot index; every _adaptive that feeds
    np.unique(marked) into an index needs an integer conversion first (the
    siblings agree: the empty set returns the mesh unchanged)."""
    R6 = "C13-R6"
    n = 0
    for c in model.all_classes():
        if not c.path.startswith("skfem/mesh/"):
            continue
        for name, fn in c.methods.items():
            if not (name.startswith("_adaptive") or name == "_uniform"):
                continue
            n += 1
            asserts = [x for x in walk_no_nested(fn.node)
                       if isinstance(x, ast.Assert)]
            cons = f"{fn.short()}:no-assert-on-data"
            if asserts:
                rep.fail(R6, fn.path, fn.short(), cons,
                         f"'{src(asserts[0])[:70]}' refuses input by an "
                         f"assert: a bare AssertionError for a mesh the "
                         f"index-based algorithm handles (two stored points "
                         f"with equal coordinates: unused trailing points, "
                         f"an unmerged crack), and no test at all under "
                         f"python -O", asserts[0].lineno)
            else:
                rep.ok(R6, cons, "no assert statement")
            if name != "_adaptive" or len(fn.params()) < 2:
                continue
            par = fn.params()[1]
            uniq = [x for x in walk_no_nested(fn.node)
                    if isinstance(x, ast.Call) and src(x.func) == "np.unique"
                    and x.args and (src(x.args[0]) == par or src(
                        x.args[0]).startswith(par + ".astype("))]
            if not uniq:
                continue
            typed = any(
                (isinstance(x, ast.Call) and src(x.func) in (
                    "np.array", "np.asarray") and x.args and src(
                    x.args[0]) == par and any(
                    k.arg == "dtype" and "int" in src(k.value)
                    for k in x.keywords))
                or (isinstance(x, ast.Call) and isinstance(
                    x.func, ast.Attribute) and x.func.attr == "astype"
                    and any(isinstance(y, ast.Name) and y.id == par
                            for y in ast.walk(x.func.value)) and x.args
                    and "int" in src(x.args[0]))
                for x in walk_no_nested(fn.node)
                if getattr(x, "lineno", 0) <= uniq[0].lineno + 1)
            cons = f"{fn.short()}:marked-set-integer"
            if typed:
                rep.ok(R6, cons, "the marked set is converted to an integer "
                       "array before np.unique")
            else:
                rep.fail(R6, fn.path, fn.short(), cons,
                         f"'{src(uniq[0])}' of the marked set as given: for "
                         f"an empty list / tuple it is a float64 array and "
                         f"the index expressions after it raise IndexError, "
                         f"while the sibling classes return the mesh "
                         f"unchanged for the empty set", uniq[0].lineno)
    if n < 8:
        raise AnalysisError(f"only {n} refinement routines found")


def _tet_capacity(model, rep):
    """MeshTet1._adaptive writes new cells, points and edges into arrays
    allocated once with a fixed multiple of the input sizes (8 nt, 9 nv),
    inside a work-list loop whose length depends on the data: longest-edge
    bisection has no a-priori bound on the closure, so the slice stores can
    run past the end (numpy then raises a broadcast error far from the
    cause).  Every such buffer needs a capacity test or growth in the
    loop."""
    R2 = "C13-R2"
    fn = model.cls("skfem.mesh.mesh_tet_1", "MeshTet1").methods["_adaptive"]
    loops = [n for n in walk_no_nested(fn.node) if isinstance(n, ast.While)]
    if len(loops) != 1:
        raise AnalysisError(f"MeshTet1._adaptive: {len(loops)} while loops")
    loop = loops[0]
    bufs = {}
    for n in walk_no_nested(fn.node):
        if isinstance(n, ast.Assign) and len(n.targets) == 1 and isinstance(
                n.targets[0], ast.Name) and isinstance(n.value, ast.Call) \
                and src(n.value.func) in ("np.zeros", "np.ones", "np.empty") \
                and n.value.args:
            shp = n.value.args[0]
            if any(isinstance(x, ast.BinOp) and isinstance(x.op, ast.Mult)
                   and isinstance(x.left, ast.Constant)
                   for x in ast.walk(shp)):
                bufs[n.targets[0].id] = src(shp)
    if len(bufs) < 3:
        raise AnalysisError(f"MeshTet1._adaptive: {len(bufs)} preallocated "
                            f"work arrays found")
    grows = {b: False for b in bufs}
    for n in ast.walk(loop):
        # growth: buf = np.hstack/concatenate/resize/pad(...buf...) or a
        # test of its capacity (buf.shape / len(buf) in a comparison)
        if isinstance(n, ast.Assign) and isinstance(
                n.targets[0], ast.Name) and n.targets[0].id in bufs and \
                isinstance(n.value, ast.Call) and src(n.value.func).split(
                    ".")[-1] in ("hstack", "concatenate", "resize", "pad",
                                 "append"):
            grows[n.targets[0].id] = True
        if isinstance(n, ast.Compare):
            for b in bufs:
                if f"{b}.shape" in src(n) or f"len({b})" in src(n):
                    grows[b] = True
    written = set()
    for n in ast.walk(loop):
        if isinstance(n, ast.Assign) and isinstance(
                n.targets[0], ast.Subscript) and isinstance(
                n.targets[0].value, ast.Name) and \
                n.targets[0].value.id in bufs and any(
                isinstance(x, ast.Slice) and x.upper is not None
                for x in ast.walk(n.targets[0].slice)):
            written.add(n.targets[0].value.id)
    for b in sorted(written):
        cons = f"MeshTet1._adaptive:capacity[{b}]"
        if grows[b]:
            rep.ok(R2, cons, "capacity tested / array grown inside the "
                             "work-list loop")
        else:
            rep.fail(R2, fn.path, "MeshTet1._adaptive", cons,
                     f"'{b}' is allocated once with shape {bufs[b]} and "
                     f"written at growing slices inside the work-list loop "
                     f"without a capacity test: when the closure needs more "
                     f"than the fixed multiple (a valid Delaunay mesh of 7 "
                     f"points, 4 cells: refined([0]) needs 36 cells) numpy "
                     f"raises 'could not broadcast input array'",
                     fn.lineno)
    if len(written) < 3:
        raise AnalysisError(f"only {len(written)} work arrays written at "
                            f"slices in the loop")


def _entry_points(model, rep):
    """The marked set is an array of cell *indices* (Mesh.refined: 'array of
    element indices'), so cell 0 is a member like any other.  (a) No
    truth-value reduction (np.any / np.all / .any() / .all() / bool() / bare
    truth value / count_nonzero / nonzero) over the marked set or a local
    alias of it in any _adaptive* function.  (b) An _adaptive that returns
    the mesh itself (or a replace() without new connectivity) does so only
    under a test that proves the marked set empty."""
    R6 = "C13-R6"
    nfun = 0
    REDUCE = {"any", "all", "count_nonzero", "nonzero", "flatnonzero",
              "sum", "argwhere"}
    for fn in model.all_functions():
        if fn.cls is None or not fn.name.startswith("_adaptive") or \
                not fn.path.startswith("skfem/mesh/"):
            continue
        params = [p for p in fn.params() if p.startswith("marked")
                  or p == "ix"]
        if not params:
            continue
        nfun += 1
        q = fn.short()
        # local aliases: marked = np.unique(marked) / np.array(marked, ...)
        names = set(params)
        changed = True
        while changed:
            changed = False
            for n in walk_no_nested(fn.node):
                if isinstance(n, ast.Assign) and len(n.targets) == 1 and \
                        isinstance(n.targets[0], ast.Name) and \
                        n.targets[0].id not in names:
                    v = n.value
                    while isinstance(v, ast.Call) and v.args and \
                            src(v.func) in ("np.unique", "np.array",
                                            "np.asarray", "np.sort",
                                            "np.atleast_1d"):
                        v = v.args[0]
                    if isinstance(v, ast.Name) and v.id in names:
                        names.add(n.targets[0].id)
                        changed = True

        def is_marked(e):
            return isinstance(e, ast.Name) and e.id in names
        # a reduction under a test that the set *was given as a Boolean
        # mask* (marked.dtype == bool) is the conversion of that mask
        mask_branch = set()
        for n in walk_no_nested(fn.node):
            if isinstance(n, ast.If) and isinstance(n.test, ast.Compare) \
                    and isinstance(n.test.left, ast.Attribute) \
                    and n.test.left.attr == "dtype" \
                    and is_marked(n.test.left.value) \
                    and len(n.test.ops) == 1 and isinstance(
                        n.test.ops[0], ast.Eq) and src(
                        n.test.comparators[0]) in ("bool", "np.bool_"):
                for b in n.body:
                    for x in ast.walk(b):
                        mask_branch.add(id(x))
        bad = []
        for n in walk_no_nested(fn.node):
            if id(n) in mask_branch:
                continue
            if isinstance(n, ast.Call):
                f = n.func
                if isinstance(f, ast.Attribute) and f.attr in REDUCE:
                    if is_marked(f.value):
                        bad.append((n, src(n)))
                    elif src(f.value) in ("np", "numpy") and n.args and \
                            is_marked(n.args[0]):
                        bad.append((n, src(n)))
                elif isinstance(f, ast.Name) and f.id in ("bool", "any",
                                                          "all", "sum") \
                        and n.args and is_marked(n.args[0]):
                    bad.append((n, src(n)))
            tests = []
            if isinstance(n, (ast.If, ast.While, ast.IfExp)):
                tests.append(n.test)
            if isinstance(n, ast.Assert):
                tests.append(n.test)
            for t in tests:
                stack = [t]
                while stack:
                    e = stack.pop()
                    if isinstance(e, ast.BoolOp):
                        stack += e.values
                    elif isinstance(e, ast.UnaryOp) and isinstance(
                            e.op, ast.Not):
                        stack.append(e.operand)
                    elif is_marked(e):
                        bad.append((e, f"truth value of '{e.id}'"))
        cons = f"{q}:index-set"
        if bad:
            n0, what = bad[0]
            rep.fail(R6, fn.path, q, cons,
                     f"'{what}' reduces the marked set as if it were a "
                     f"mask: it holds cell indices, so the set {{0}} (only "
                     f"cell 0 marked) counts as empty", n0.lineno)
        else:
            rep.ok(R6, cons, f"no truth-value reduction over "
                             f"{sorted(names)} (cell indices)")
        if fn.name != "_adaptive":
            continue
        # (b) returns
        parent = {}
        for p_ in ast.walk(fn.node):
            for c in ast.iter_child_nodes(p_):
                parent[id(c)] = p_
        selfal = {"self"}
        for n in walk_no_nested(fn.node):
            if isinstance(n, ast.Return):
                v = n.value
                unref = None
                if v is None or (isinstance(v, ast.Constant)
                                 and v.value is None):
                    unref = "nothing"
                elif isinstance(v, ast.Name) and v.id in selfal:
                    unref = "the mesh itself"
                elif isinstance(v, ast.Call) and src(v.func) in (
                        "replace", "dataclasses.replace") and v.args and \
                        isinstance(v.args[0], ast.Name) and \
                        v.args[0].id in selfal and not any(
                        k.arg == "t" for k in v.keywords):
                    unref = "a copy with the old connectivity"
                cons = f"{q}:return@{src(v)[:40] if v is not None else ''}"
                if unref is None:
                    rep.ok(R6, cons, "returns a mesh built from the "
                                     "refinement")
                    continue
                proved = False
                c, p_ = n, parent.get(id(n))
                while p_ is not None and p_ is not fn.node:
                    if isinstance(p_, ast.If) and c in p_.body and \
                            _empty_test(p_.test, names):
                        proved = True
                    c, p_ = p_, parent.get(id(p_))
                if proved:
                    rep.ok(R6, cons, f"returns {unref} only when the "
                                     f"marked set is empty")
                else:
                    rep.fail(R6, fn.path, q, cons,
                             f"returns {unref} under a condition that does "
                             f"not prove the marked set empty (accepted: "
                             f"len(marked) == 0, marked.size == 0, not "
                             f"len(marked)): a marked cell may stay "
                             f"unrefined", n.lineno)
    if nfun < 6:
        raise AnalysisError(f"only {nfun} _adaptive* functions with a "
                            f"marked set found, 6 confirmed by hand")


def run(model: Model, rep, tier: str) -> None:
    rep.rule("C13-R1", "template masks disjoint and exhaustive over the "
             "patterns the closure invariant allows; closure loop "
             "establishes the invariant")
    rep.rule("C13-R2", "templates: only guaranteed nodes, children tile the "
             "parent, marked facets halved, unmarked kept (conformity)")
    rep.rule("C13-R3", "child index table rows and offsets match the block "
             "order of the new connectivity")
    rep.rule("C13-R4", "every _adaptive sets or provably keeps both tag "
             "fields")
    rep.rule("C13-R5", "fill values of padded child tables are removed by "
             "value before index sets become subdomains; ancestors of "
             "bisected tetrahedra are inherited")
    rep.rule("C13-R6", "entry points treat the marked set as cell indices: "
             "no truth-value reduction over it, unrefined return only for "
             "a provably empty set")
    staged(lambda: _entry_points(model, rep),
           lambda: _homogeneous_geometry(model, rep),
           lambda: _tet_capacity(model, rep),
           lambda: _admissible_input_not_refused(model, rep),
           lambda: _subdomain_propagation(model, rep),
           lambda: _templates(model, rep), lambda: _line(model, rep),
           lambda: _sentinel_tables(model, rep),
           lambda: _tet_ancestry(model, rep))
    n = tag_rule(model, rep, "C13-R4",
                 only=lambda f: f.name.startswith("_adaptive"))
    if n < 3:
        raise AnalysisError(f"only {n} _adaptive replace sites found")
    from ..dgspace import report as _dg_report
    _dg_report(model, rep, "C13-R4", lambda n: n == "_adaptive",
               "refined(marked) returns a corrupt mesh without any error")
    rep.require_min("C13-R1", 9)
    rep.require_min("C13-R2", 3)
    rep.require_min("C13-R3", 5)


_TR = FT
_LI = "skfem/mesh/mesh_line_1.py"
_TE = "skfem/mesh/mesh_tet_1.py"
_SETD = "np.setdiff1d(np.unique(new_t[:, ixs]), [-1])"
MUTANTS = [
    ("tetrahedral bisection asserts distinct coordinates again",
     (_TE, "                nv += nn\n",
      "                nv += nn\n                assert len(np.unique("
      "p[:, :nv].T, axis=0)) == nv\n"), "C13-R6"),
    ("segment refinement takes the marked set as given",
     (_LI, "        marked = np.unique(marked.astype(np.int64))",
      "        marked = np.unique(marked)"), "C13-R6"),
    ("segment refinement reduces index sets like masks",
     (_LI, "        if marked.dtype == bool:\n            marked = "
      "np.nonzero(marked)[0]  # a mask of the cells\n",
      "        marked = np.nonzero(marked)[0]\n"), "C13-R6"),
    ("tetrahedral tie-breaking noise of absolute size",
     (_TE, "        p = p + 1e-10 * np.abs(p[:, t]).max() * "
      "rng.random_sample(p.shape)",
      "        p = p + 1e-10 * rng.random_sample(p.shape)"),
     "C13-R2"),
    ("tetrahedral tie-breaking noise relative to the distance from the "
     "origin",
     (_TE, "        p = p - p[:, t[0, :1]]\n        p = p + 1e-10 * "
      "np.abs(p[:, t]).max() * rng.random_sample(p.shape)",
      "        p = p.copy() + 1e-10 * np.abs(p).max() * "
      "rng.random_sample(p.shape)"), "C13-R2"),
    ("periodic meshes inherit adaptive refinement again",
     ("skfem/mesh/mesh_dg.py", "    def _adaptive(self, *args, **kwargs):\n        raise NotImplementedError\n\n", ""), "C13-R4"),
    ("line refinement uses the marked array as given",
     (_LI, "        marked = np.unique(marked.astype(np.int64))"
      "\n\n        mid =",
      "        marked = marked.astype(np.int64)\n\n        "
      "mid ="), "C13-R2"),
    ("second-order triangles refine adaptively without their subdomains",
     ("skfem/mesh/mesh_tri_2.py",
      "        m = replace(MeshTri1.from_mesh(self),\n"
      "                    _subdomains=self._subdomains).refined(marked)\n"
      "        return replace(MeshTri2.from_mesh(m), _subdomains="
      "m._subdomains)",
      "        return MeshTri2.from_mesh(MeshTri1.from_mesh(self)"
      ".refined(marked))"), "C13-R4"),
    ("second-order tetrahedra keep the unrefined subdomains (adaptive)",
     ("skfem/mesh/mesh_tet_2.py",
      "                    _subdomains=self._subdomains).refined(marked)\n"
      "        return replace(MeshTet2.from_mesh(m), _subdomains="
      "m._subdomains)",
      "                    _subdomains=self._subdomains).refined(marked)\n"
      "        return replace(MeshTet2.from_mesh(m), _subdomains="
      "self._subdomains)"), "C13-R4"),
    ("triangle refinement drops the subdomains",
     (_TR, "            _boundaries=None,\n            _subdomains="
      "subdomains,\n        )\n\n    def __mul__",
      "            _boundaries=None,\n            _subdomains=None,\n"
      "        )\n\n    def __mul__"), "C13-R4"),
    ("triangle refinement returns early for a 'falsy' marked set",
     (_TR, "    def _adaptive(self, marked):\n\n        sorted_mesh = replace(",
      "    def _adaptive(self, marked):\n\n        if not np.any(marked):\n"
      "            return self\n\n        sorted_mesh = replace("), "C13-R6"),
    ("tetrahedral work-list loop tests the indices' truth value",
     (_TE, "        while len(marked) > 0:", "        while marked.any():"),
     "C13-R6"),
    ("line refinement returns itself for a short marked set",
     (_LI, "    def _adaptive(self, marked):\n",
      "    def _adaptive(self, marked):\n        if len(marked) < 2:\n"
      "            return self\n"), "C13-R6"),
    ("line: midpoints numbered from max(t) + 1 again",
     (_LI, "        mid = np.arange(len(marked)) + p.shape[1]",
      "        mid = np.arange(len(marked)) + np.max(t) + 1"), "C13-R2"),
    ("tet children record the split cell instead of its ancestor",
     (_TE, "            parent[nt:(nt + nm)] = parent[marked]",
      "            parent[nt:(nt + nm)] = marked"), "C13-R5"),
    ("triangle subdomain map drops the fill by position",
     (_TR, _SETD, "np.unique(new_t[:, ixs])[1:]"), "C13-R5"),
    ("line subdomain map drops the fill by position",
     (_LI, _SETD, "np.unique(new_t[:, ixs])[1:]"), "C13-R5"),
    ("line subdomain map keeps the fill",
     (_LI, _SETD, "np.unique(new_t[:, ixs])"), "C13-R5"),
    ("line: right halves numbered like the left halves",
     (_LI, "            new_t[1, marked] = new_t[0, marked] + len(marked)",
      "            new_t[1, marked] = new_t[0, marked]"), "C13-R3"),
    ("line: left half starts at the right vertex",
     (_LI, "        newt = np.vstack((t[0, marked], mid))",
      "        newt = np.vstack((t[1, marked], mid))"), "C13-R2"),
    ("line: new points averaged over the wrong axis",
     (_LI, "p[:, t[:, marked]].mean(1)", "p[:, t[:, marked]].mean(0)"),
     "C13-R2"),
    ("line: unmarked cells numbered after the halves",
     (_LI, "            new_t[0, nonmarked] = np.arange(len(nonmarked), "
      "dtype=np.int32)",
      "            new_t[0, nonmarked] = np.arange(len(nonmarked), "
      "dtype=np.int32) + 2 * len(marked)"), "C13-R3"),
    ("blue1 mask also accepts an unmarked facet 1",
     (_TR, "        blue1 = (ix[0] == -1) * (ix[1] >= 0) * (ix[2] >= 0)",
      "        blue1 = (ix[0] == -1) * (ix[2] >= 0)"), "C13-R1"),
    ("green mask requires facet 1 marked",
     (_TR, "        green = (ix[0] == -1) * (ix[1] == -1) * (ix[2] >= 0)",
      "        green = (ix[0] == -1) * (ix[1] >= 0) * (ix[2] >= 0)"),
     "C13-R1"),
    ("closure no longer marks the reference facet",
     (_TR, "            t2facets[2, t2facets[0] + t2facets[1] > 0] = 1\n",
      ""), "C13-R1"),
    ("closure marks facet 1 instead of the reference facet",
     (_TR, "            t2facets[2, t2facets[0] + t2facets[1] > 0] = 1\n",
      "            t2facets[1, t2facets[0] + t2facets[2] > 0] = 1\n"),
     "C13-R1"),
    ("blue1 template uses the node of its unmarked facet",
     (_TR, "            np.vstack((m.t[1, blue1], m.t[0, blue1], "
      "ix[2, blue1])),", "            np.vstack((m.t[1, blue1], "
      "ix[0, blue1], ix[2, blue1])),"), "C13-R2"),
    ("blue2 template leaves facet 0 unsplit on this side",
     (_TR, "            np.vstack((ix[2, blue2], ix[0, blue2], "
      "m.t[1, blue2])),", "            np.vstack((ix[2, blue2], "
      "m.t[0, blue2], m.t[1, blue2])),"), "C13-R2"),
    ("green template bisects towards the wrong vertex",
     (_TR, "            np.vstack((m.t[1, green], ix[2, green], "
      "m.t[0, green])),", "            np.vstack((m.t[2, green], "
      "ix[2, green], m.t[0, green])),"), "C13-R2"),
    ("red template: centre child degenerate",
     (_TR, "            np.vstack((ix[1, red], ix[2, red], ix[0, red])),",
      "            np.vstack((ix[1, red], ix[2, red], ix[2, red])),"),
     "C13-R2"),
    ("new nodes placed at a third of the facet",
     (_TR, "        p = .5 * (m.p[:, m.facets[0, facets == 1]] +\n"
      "                  m.p[:, m.facets[1, facets == 1]])",
      "        p = .5 * (m.p[:, m.facets[0, facets == 1]] +\n"
      "                  m.p[:, m.facets[0, facets == 1]])"), "C13-R2"),
    ("child table: blue1 offset advanced by four blocks",
     (_TR, "            offset += 3 * nblue1\n", "            offset += 4 * "
      "nblue1\n"), "C13-R3"),
    ("child table: red children given three rows",
     (_TR, "            new_t[:, red] = np.arange(offset,\n"
      "                                      offset + 4 * nred,\n"
      "                                      dtype=np.int32).reshape(4, -1)",
      "            new_t[:3, red] = np.arange(offset,\n"
      "                                      offset + 3 * nred,\n"
      "                                      dtype=np.int32).reshape(3, -1)"),
     "C13-R3"),
    ("final connectivity lists green before blue2",
     (_TR, "            np.hstack((m.t[:, rest], t_red, t_blue1, t_blue2, "
      "t_green)),", "            np.hstack((m.t[:, rest], t_red, t_blue1, "
      "t_green, t_blue2)),"), "C13-R3"),
    ("triangle adaptive refinement keeps the old boundaries",
     (_TR, "            t=t,\n            _boundaries=None,\n            "
      "_subdomains=subdomains,", "            t=t,\n            "
      "_subdomains=subdomains,"), "C13-R4"),
    ("line adaptive refinement keeps stale subdomains again",
     (_LI, "            t=newt,\n            _subdomains=subdomains,\n"
      "        )\n\n    def param", "            t=newt,\n        )\n\n"
      "    def param"), "C13-R4"),
    ("tetrahedron adaptive refinement keeps stale boundaries again",
     (_TE, "            t=t[:, :nt],\n            _boundaries=None,\n",
      "            t=t[:, :nt],\n"), "C13-R4"),
]
TWINS = [
    ("segment refinement converts the marked set in two steps",
     (_LI, "        marked = np.unique(marked.astype(np.int64))",
      "        marked = marked.astype(np.int32)\n        marked "
      "= np.unique(marked)")),
    ("tetrahedral noise measured from the corner of the bounding box",
     (_TE, "        p = p - p[:, t[0, :1]]\n",
      "        p = p - p[:, t.flatten()].min(axis=1, keepdims=True)\n")),
    ("second-order triangles: propagated subdomains attached in two steps",
     ("skfem/mesh/mesh_tri_2.py",
      "                    _subdomains=self._subdomains).refined(marked)\n"
      "        return replace(MeshTri2.from_mesh(m), _subdomains="
      "m._subdomains)",
      "                    _subdomains=self._subdomains).refined(marked)\n"
      "        M = MeshTri2.from_mesh(m)\n"
      "        return replace(M, _subdomains=m._subdomains)")),
    ("triangle refinement returns itself for an empty marked set",
     (_TR, "    def _adaptive(self, marked):\n\n        sorted_mesh = replace(",
      "    def _adaptive(self, marked):\n\n        if len(marked) == 0:\n"
      "            return self\n\n        sorted_mesh = replace(")),
    ("line subdomain map filters the fill with a comparison",
     (_LI, "                name: " + _SETD,
      "                name: np.unique(new_t[:, ixs][new_t[:, ixs] != -1])")),
    ("mask written with the test for -1 as '< 0'",
     (_TR, "        rest = (ix[0] == -1) * (ix[1] == -1) * (ix[2] == -1)",
      "        rest = (ix[0] < 0) * (ix[1] < 0) * (ix[2] < 0)")),
    ("red children listed with the vertices rotated",
     (_TR, "            np.vstack((ix[1, red], ix[2, red], ix[0, red])),",
      "            np.vstack((ix[2, red], ix[0, red], ix[1, red])),")),
]
