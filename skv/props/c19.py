"""C19 - vector / composite / block structures agree with their components:
layout agreement between producers and COOData.tolocal/fromlocal, flatten
order of split_indices versus the numbering order of Dofs, ElementVector
decodings, CompositeBasis offsets, asm pairing, COOData addition."""
from __future__ import annotations

import ast
import re
from fractions import Fraction
from typing import Dict, List, Tuple

from ..asm import Buf, FlatBuf, Run
from ..dofsym import KINDS, NumBlock, run_dofs
from ..interp import Interp, Obj, PyFunc, Raised, Unsupported
from ..model import staged, AnalysisError, Model, src, walk_no_nested
from ..poly import Poly
from .c04 import _kinds_in, _local_sites, _names_sites, _order_from_preds

PID = "C19"
LEVEL = "other"
TECHNIQUE = ("layout algebra: local_shape versus the allocation extents of "
             "the symbolic producer runs; flatten order of split_indices "
             "versus the reshape order of the symbolic Dofs run; "
             "interpretation of the ElementVector index decodings; "
             "structural agreement of CompositeBasis offset accumulations, "
             "asm's zipped products and COOData add/tolocal/fromlocal")
LEVEL_TEXT = (
    "Decides the layout/convention clauses: (L1) every producer's "
    "local_shape equals, in order, the leading extents of its data "
    "allocation, and for 2-tensors lists (test, trial) like the global "
    "shape, so tolocal() reshapes without scrambling; (L2) tolocal and "
    "fromlocal are inverse moveaxis/reshape pairs in one order; (L3) "
    "split_indices flattens each entity block in the order Dofs numbered "
    "it and concatenates blocks in the local basis order, for composite and "
    "vector elements; (L4) the ElementVector decodings (component = index "
    "mod dim) agree with split_indices' strided selection, names and "
    "locations; (L5) CompositeBasis.element_dofs, split, interpolate and N "
    "accumulate the same offsets in the same order; (L6) asm zips two "
    "products over the same lists; COOData addition concatenates indices "
    "and data in the same order. Numerical block identities are not "
    "decided.")
LEVEL_TEXT += (
    " Added after the seeding phase: (L2) tolocal / fromlocal / inverse / "
    "addition, (L4) the ElementVector constructor and (L6) asm are "
    "decided by symbolic runs instead of text comparison.")
LEVEL_TEXT += (
    " Added in the hunting round (defects found by independent agents "
    "on the unchanged tree, DESIGN.md 9.4 / 9.6): "
    "local axes of N-tensors follow the index rows; tolocal(basis) adds "
    "each facet matrix to its owner cell; functionals over basis lists; "
    "composite padding; bmat.blocks.")
LEVEL_TEXT += (
    " Added in the second hunting round (DESIGN.md 9.6): "
    "CompositeBasis is run in both numbering modes (concatenated and "
    "shared, basis0 @ basis1).")
LEVEL_TEXT += (
    " Added in the fourth hunting round (DESIGN.md 9.6): "
    "a composite element among the components of ElementComposite / "
    "ElementVector is flattened or refused (gbasis takes field [0] of "
    "each component).")
LEVEL_TEXT += (
    " Added after review R7: the refusal tests of ElementComposite.__init__ "
    "and ElementVector.__init__ are interpreted on chains of one to three "
    "ElementDG wrappers around a two-field composite (must refuse) and on "
    "plain elements, wrapped or not (must accept).")
LEVEL_NOTE = (
    "Trusted: numpy reshape/moveaxis/flatten/split/cumsum semantics. The "
    "@-composite (equal_dofnum) branch of CompositeBasis is outside the "
    "claim (it raises 'wrong size' on interpolate rather than disagreeing "
    "silently).")
EXPLANATION = "Layout and convention agreement rules; no numerics."
TRUSTED = ["numpy reshape/moveaxis/flatten/split/cumsum"]
ASSUMPTIONS = ["documented splitting of DOF numbers = split_indices"]

CO = "skfem.assembly.form.coo_data"
FCO = "skfem/assembly/form/coo_data.py"


def _v(rep, rule, ok, cons, okmsg, path, qual, badmsg, line):
    if ok:
        rep.ok(rule, cons, okmsg)
    else:
        rep.fail(rule, path, qual, cons, badmsg, line)


def _l1(model, rep):
    L1 = "C19-L1"
    cases = [("BilinearForm", {"u": 2, "v": 3}, True, ["u", "v"]),
             ("LinearForm", {"u": 3}, False, ["u"]),
             ("TrilinearForm", {"u": 2, "v": 3, "w": 4}, True,
              ["u", "v", "w"])]
    for cls, sizes, pv, roles in cases:
        r = Run(model, cls, "_assemble", sizes, pass_v=pv)
        _local_shape(rep, L1, model, cls, r, r.result, roles)
        _local_axes(rep, L1, model, cls, r, r.result)
    r = Run(model, "NonlinearForm", "_assemble", {"b": 2})
    _local_shape(rep, L1, model, "NonlinearForm", r, r.result[0], ["b", "b"],
                 tag="jacobian")
    _local_shape(rep, L1, model, "NonlinearForm", r, r.result[1], ["b"],
                 tag="residual")
    _local_axes(rep, L1, model, "NonlinearForm", r, r.result[0],
                tag="jacobian")


def _local_shape(rep, rule, model, cls, run, result, roles, tag=""):
    idx, data, shape, lshape = result
    c = model.class_by_name(cls)
    path, line = c.path, c.methods["_assemble"].lineno
    buf = data.buf if isinstance(data, FlatBuf) else data
    if not isinstance(buf, Buf):
        raise AnalysisError(f"{cls}: data is not a producer buffer")
    name = f"{cls}._assemble{('[' + tag + ']') if tag else ''}"
    ls = [Poly.coerce(x) for x in lshape]
    if len(buf.shape) == 1:
        # 1-D allocation of symbolic size: slots of nt entries, one per
        # local index: leading extent = size / nt
        lead = [Poly.coerce(run.bases[roles[0]].Nbfun)] \
            if len(roles) == 1 else None
        if lead is None:
            raise AnalysisError(f"{name}: 1-D data for a "
                                f"{len(roles)}-tensor")
    else:
        lead = [Poly.coerce(x) for x in buf.shape[:-1]]
        order = data.order if isinstance(data, FlatBuf) else "C"
        if order not in ("C", None):
            rep.fail(rule, path, name, f"{name}:flatten-order",
                     f"data is flattened in order {order!r} but tolocal() "
                     f"reshapes in C order", line)
    if ls == lead:
        rep.ok(rule, f"{name}:local_shape",
               f"local_shape {tuple(map(str, ls))} = leading extents of the "
               f"data allocation: tolocal() recovers data[a, b, :] as "
               f"local[:, a, b]", sample=(cls == "BilinearForm"))
    else:
        rep.fail(rule, path, name, f"{name}:local_shape",
                 f"local_shape is {tuple(map(str, ls))} but data is laid "
                 f"out with leading extents {tuple(map(str, lead))}: "
                 f"tolocal() reshapes the flat data with the wrong strides "
                 f"(scrambled local matrices for rectangular sizes, "
                 f"transposed for square ones)", line)
    # 2-tensors: local matrices indexed [test, trial] like the global ones
    if len(ls) == 2 and len(shape) == 2:
        g = [next(iter(Poly.coerce(s).symbols())).split(".")[0]
             for s in shape]
        loc = [next(iter(x.symbols())).split(".")[0] for x in ls]
        _v(rep, rule, g == loc, f"{name}:local-vs-global-order",
           f"local_shape and global shape list the bases in the same order "
           f"{g}", path, name,
           f"global shape lists {g} but local_shape lists {loc}: local "
           f"matrices are transposed relative to the global matrix", line)


def _local_axes(rep, rule, model, cls, run, result, tag=""):
    """N-tensors (N >= 2): the local index [a, b, ...] that tolocal() hands
    out follows the axes of the global tensor: the slot written as
    data[a, b, ..., :] must be scattered to index row r = element_dofs[<r-th
    leading index>] for every r - otherwise every local tensor is a
    transpose of the block of the global tensor it stands for (inverse() and
    fromlocal() still round-trip, which is why only this obligation sees
    it)."""
    from ..asm import DofRow, IndexStack
    idx, data, shape, lshape = result
    nd = len(lshape)
    if nd < 2:
        return
    c = model.class_by_name(cls)
    path, line = c.path, c.methods["_assemble"].lineno
    name = f"{cls}._assemble{('[' + tag + ']') if tag else ''}"
    if not isinstance(idx, IndexStack) or len(idx.rows) != nd:
        raise AnalysisError(f"{name}: index arrays not recognised")
    dblocks, _ = run.blocks(data)
    buf = data.buf if isinstance(data, FlatBuf) else data
    pos = {}
    for k in range(nd):
        bl, _ = run.blocks(idx.rows[k])
        for b in bl:
            if not isinstance(b.value, DofRow):
                raise AnalysisError(f"{name}: index row {k} holds "
                                    f"{b.value!r}")
            pos.setdefault((b.base, b.length), {})[k] = b.value.i
    bad, n = [], 0
    for (ix, v, th), b in zip(buf.stores, dblocks):
        lead = [int(k) for k in ix if isinstance(k, (int, Fraction))]
        if len(lead) != nd:
            raise AnalysisError(f"{name}: data store {ix!r}")
        rc = pos.get((b.base, b.length))
        if rc is None or set(rc) != set(range(nd)):
            raise AnalysisError(f"{name}: no index rows stored for the "
                                f"slot of data{lead}")
        n += 1
        got = [rc[k] for k in range(nd)]
        if got != lead:
            bad.append((lead, got))
    _v(rep, rule, not bad and n > 0, f"{name}:local-axes",
       f"{n} slots: data[a, b, ...] is scattered to index row r = "
       f"element_dofs[r-th leading index] - tolocal()[k][a, b, ...] is the "
       f"(a, b, ...) entry of cell k's block", path, name,
       (f"data{bad[0][0]} is scattered to element_dofs{bad[0][1]} of the "
        f"index rows: the local tensors tolocal() returns are transposes "
        f"of the blocks of the global tensor ({len(bad)} of {n} slots)")
       if bad else "no slots", line)


class AxArr:
    """array described by its axes (tuple of role names, slowest first);
    a flat array is one axis whose role is the tuple of merged roles"""
    skv_isarray = True

    def __init__(self, axes, tag="data"):
        self.axes, self.tag = tuple(axes), tag

    def __eq__(self, o):
        return isinstance(o, AxArr) and (self.axes, self.tag) == (o.axes,
                                                                  o.tag)

    def __hash__(self):
        return hash((self.axes, self.tag))

    def __repr__(self):
        return f"{self.tag}{list(self.axes)}"

    @staticmethod
    def _extent(a):
        if isinstance(a, tuple):
            p = Poly.const(1)
            for r in a:
                p = p * Poly.sym("n_" + str(r))
            return p
        return Poly.sym("n_" + str(a))

    def skv_getattr(self, name):
        if name == "shape":
            return tuple(self._extent(a) for a in self.axes)
        if name == "T":
            return AxArr(tuple(reversed(self.axes)), self.tag)
        if name == "transpose":
            def tr(a, k, n):
                if not a:
                    return AxArr(tuple(reversed(self.axes)), self.tag)
                perm = a[0] if len(a) == 1 and isinstance(a[0], tuple) \
                    else a
                return AxArr(tuple(self.axes[int(i)] for i in perm),
                             self.tag)
            return PyFunc(tr)
        if name == "reshape":
            def rs(a, k, n):
                shp = a[0] if len(a) == 1 and isinstance(a[0], tuple) else a
                if k.get("order", "C") not in ("C", "c"):
                    raise Unsupported("non-C reshape")
                # C-order reshape regroups the atomic roles in sequence:
                # every requested extent must be the product of the sizes
                # of the next few roles; -1 takes the rest
                roles = []
                for ax in self.axes:
                    roles += list(ax) if isinstance(ax, tuple) else [ax]
                out, k_ = [], 0
                for ext in shp:
                    if ext == -1 or ext == Fraction(-1):
                        rest = roles[k_:]
                        out.append(rest[0] if len(rest) == 1
                                   else tuple(rest))
                        k_ = len(roles)
                        continue
                    want, got, grp = Poly.coerce(ext), Poly.const(1), []
                    while k_ < len(roles) and got != want:
                        got = got * Poly.sym("n_" + str(roles[k_]))
                        grp.append(roles[k_])
                        k_ += 1
                    if got != want or not grp:
                        return AxArr(("MISMATCH",), "reshape")
                    out.append(grp[0] if len(grp) == 1 else tuple(grp))
                if k_ != len(roles):
                    return AxArr(("MISMATCH",), "reshape")
                return AxArr(out, self.tag)
            return PyFunc(rs)
        if name == "flatten":
            def fl(a, k, n):
                order = a[0] if a else k.get("order", "C")
                if order not in ("C", "c"):
                    return AxArr((tuple(reversed(self.axes)),), self.tag)
                return AxArr((tuple(self.axes),), self.tag)
            return PyFunc(fl)
        raise Unsupported("array." + name)


def _ax_hook(interp, name, args, kwargs, node):
    if name == "numpy.moveaxis" and isinstance(args[0], AxArr):
        a, s_, d = args[0], int(args[1]), int(args[2])
        ax = list(a.axes)
        x = ax.pop(s_ % len(ax))
        ax.insert(d % (len(ax) + 1), x)
        return AxArr(ax, a.tag)
    if name == "numpy.linalg.inv" and isinstance(args[0], AxArr):
        a = args[0]
        return AxArr(a.axes, "inv(" + a.tag + ")")
    if name == "numpy.hstack" or (name == "numpy.concatenate" and int(
            kwargs.get("axis", 0)) == 0 and all(
            not isinstance(x, AxArr) or len(x.axes) == 1
            for x in args[0])):
        # for 1-D operands np.concatenate is np.hstack
        seq = list(args[0])
        return ("hstack", tuple(seq))
    if name == "dataclasses.replace":
        return ("replace", args[0], dict(kwargs))
    return NotImplemented


def _l2(model, rep):
    """tolocal / fromlocal / inverse / __add__ by symbolic runs on an
    axis-typed data array (flat = [test i][trial j][cell c] merged)"""
    L2 = "C19-L2"
    ccls = model.cls(CO, "COOData")
    flat = AxArr((("i", "j", "c"),))
    lshape = (Poly.sym("n_i"), Poly.sym("n_j"))
    obj = Obj(ccls, {"data": flat, "local_shape": lshape,
                     "indices": "IDX", "shape": ("R", "C")})
    tl, fl = ccls.methods["tolocal"], ccls.methods["fromlocal"]
    try:
        loc = Interp(model, call_hook=_ax_hook).call(tl, [], {},
                                                     self_obj=obj)
    except (Unsupported, Raised) as e:
        raise AnalysisError(f"COOData.tolocal: {e}")
    ok = isinstance(loc, AxArr) and loc.axes == ("c", "i", "j")
    _v(rep, L2, ok, "COOData.tolocal:axes",
       "local[c, i, j] is the entry of cell c for local pair (i, j)", FCO,
       "COOData.tolocal",
       f"tolocal returns an array with axes {loc!r}; expected [cell, first "
       f"local index, second local index] of the data laid out "
       f"[i][j][cell]", tl.lineno)
    try:
        back = Interp(model, call_hook=_ax_hook).call(
            fl, [AxArr(("c", "i", "j"))], {}, self_obj=obj)
    except (Unsupported, Raised) as e:
        raise AnalysisError(f"COOData.fromlocal: {e}")
    ok = isinstance(back, tuple) and back[0] == "replace" and \
        back[1] is obj and back[2].get("data") == flat and \
        set(back[2]) == {"data"}
    _v(rep, L2, ok, "COOData.tolocal/fromlocal:inverse",
       "fromlocal(tolocal()) restores the flat [i][j][cell] layout and "
       "changes nothing else", FCO, "COOData.fromlocal",
       f"fromlocal produces {back[2] if isinstance(back, tuple) else back!r}"
       f": not the flat [i][j][cell] layout tolocal started from",
       fl.lineno)
    inv = ccls.methods["inverse"]
    try:
        r = Interp(model, call_hook=_ax_hook).call(inv, [], {},
                                                   self_obj=obj)
    except (Unsupported, Raised) as e:
        raise AnalysisError(f"COOData.inverse: {e}")
    ok = isinstance(r, tuple) and r[0] == "replace" and \
        r[2].get("data") == AxArr((("i", "j", "c"),), "inv(data)")
    _v(rep, L2, ok, "COOData.inverse", "inverse = fromlocal(inv(tolocal()))"
       ": matrices inverted per cell and written back in the same layout",
       FCO, "COOData.inverse",
       f"inverse produces {r[2] if isinstance(r, tuple) else r!r}: the "
       f"per-cell inverses are not written back in the [i][j][cell] layout",
       inv.lineno)
    add = ccls.methods["__add__"]
    other = Obj(ccls, {"data": AxArr((("i", "j", "c"),), "data2"),
                       "local_shape": lshape, "indices": "IDX2",
                       "shape": (3, 5)})
    obj2 = Obj(ccls, {"data": flat, "local_shape": lshape,
                      "indices": "IDX", "shape": (4, 2)})
    try:
        r = Interp(model, call_hook=_ax_hook).call(add, [other], {},
                                                   self_obj=obj2)
    except (Unsupported, Raised) as e:
        raise AnalysisError(f"COOData.__add__: {e}")
    kw = r[2] if isinstance(r, tuple) and r[0] == "replace" else {}
    ok = (kw.get("indices") == ("hstack", ("IDX", "IDX2"))
          and kw.get("data") == ("hstack", (flat, other.attrs["data"]))
          and kw.get("local_shape", 0) is None
          and tuple(kw.get("shape", ())) == (4, 5))
    _v(rep, L2, ok, "COOData.__add__",
       "indices and data concatenated in the same operand order; shape is "
       "the elementwise maximum; local_shape dropped", FCO,
       "COOData.__add__",
       f"sum of elemental data mis-pairs indices and data, mis-sizes the "
       f"result or keeps a stale local_shape ({kw})", add.lineno)


def _tolocal_facets(model, rep):
    """tolocal(basis=<facet basis>): the matrix of facet f is expressed in
    the local DOFs of the cell basis.tind[f] - it belongs to that cell and
    to no other, and several facets of one cell add up.  Symbolic run with a
    recording buffer."""
    L2 = "C19-L2"
    ccls = model.cls(CO, "COOData")
    tl = ccls.methods["tolocal"]
    log = []

    class ZB:
        skv_isarray = True

        def __init__(self, shape, dtype):
            self.shape0, self.dtype = shape, dtype

        def skv_setitem(self, ix, v):
            log.append(("store", ix, v))

        def skv_getitem(self, ix):
            log.append(("gather", ix))
            return Gat(ix)

    class Gat:
        """entries of the buffer gathered at an index array"""
        skv_isarray = True

        def __init__(self, ix):
            self.ix = ix

        def skv_binop(self, op, other, reflected):
            return Gat(self.ix)

        def __eq__(self, o):
            return isinstance(o, Gat) and o.ix == self.ix

        def __hash__(self):
            return hash(("gat", str(self.ix)))

    def hook(interp, name, args, kwargs, node):
        r = _ax_hook(interp, name, args, kwargs, node)
        if r is not NotImplemented:
            return r
        if name == "numpy.zeros":
            return ZB(args[0], kwargs.get("dtype"))
        if name == "numpy.add.at":
            log.append(("accumulate", args[0], args[1], args[2]))
            return None
        if name == "numpy.sum":
            return ("sum", args[0], kwargs.get("axis"))
        return NotImplemented

    class Loc(AxArr):
        def skv_getattr(self, name):
            if name == "dtype":
                return "LOCAL-DTYPE"
            return super().skv_getattr(name)
    flat = AxArr((("i", "j", "c"),))
    lshape = (Poly.sym("n_i"), Poly.sym("n_j"))
    obj = Obj(ccls, {"data": flat, "local_shape": lshape,
                     "indices": "IDX", "shape": ("R", "C")})
    basis = Obj(None, {"mesh": Obj(None, {"nfacets": Poly.sym("nfacets"),
                                          "nelements": Poly.sym("ncells"),
                                          "t2f": "T2F"}),
                       "find": "FIND", "tind": "TIND"})
    it = Interp(model, call_hook=hook)
    orig_get = AxArr.skv_getattr

    def patched(self, name):
        if name == "dtype":
            return "LOCAL-DTYPE"
        return orig_get(self, name)
    AxArr.skv_getattr = patched
    try:
        r = it.call(tl, [basis], {}, self_obj=obj)
    except (Unsupported, Raised) as e:
        raise AnalysisError(f"COOData.tolocal(basis): {e}")
    finally:
        AxArr.skv_getattr = orig_get
    acc = [e for e in log if e[0] == "accumulate"]
    sto = [e for e in log if e[0] == "store"]
    ok = (isinstance(r, ZB) and len(acc) == 1 and not sto
          and acc[0][1] is r and acc[0][2] == "TIND"
          and isinstance(acc[0][3], AxArr)
          and acc[0][3].axes == ("c", "i", "j")
          and Poly.coerce(r.shape0[0]) == Poly.sym("ncells")
          and r.dtype == "LOCAL-DTYPE")
    why = []
    if sto and sto[0][1] == "TIND":
        why.append("facet matrices are *stored* at basis.tind (of several "
                   "facets of one cell the last wins)")
    elif sto:
        why.append(f"facet matrices are scattered to {sto[0][1]!r}")
    if any(e[0] == "gather" and e[1] == "T2F" for e in log):
        why.append("then gathered through t2f, which hands the matrix of an "
                   "interior facet to BOTH neighbouring cells although it "
                   "is written in the local DOFs of basis.tind only")
    if isinstance(r, ZB) and r.dtype != "LOCAL-DTYPE":
        why.append(f"buffer dtype {r.dtype!r} (complex data dropped)")
    _v(rep, L2, ok, "COOData.tolocal[basis]:owner-cell",
       "facet matrices are accumulated (np.add.at) at their owner cells "
       "basis.tind in a buffer with one slot per cell and the dtype of the "
       "data", FCO, "COOData.tolocal",
       "tolocal(basis): " + ("; ".join(why) or f"returns {r!r} after {log}"),
       tl.lineno)


def _add_functionals(model, rep):
    """COOData.__add__ + todefault for 0-tensors (functionals summed over a
    list of bases): the data of one basis is (1, k) for a functional with k
    components; adding two must give something todefault() reduces to the
    *componentwise sum* (k values), not the concatenation (2k values).
    Symbolic run with axis-typed data."""
    L2 = "C19-L2"
    ccls = model.cls(CO, "COOData")
    add, td = ccls.methods["__add__"], ccls.methods["todefault"]

    def hook(interp, name, args, kwargs, node):
        if name in ("numpy.hstack", "numpy.concatenate", "numpy.vstack"):
            seq = list(args[0])
            if all(isinstance(x, AxArr) for x in seq):
                nd = len(seq[0].axes)
                if name == "numpy.hstack":
                    ax = 0 if nd == 1 else 1
                elif name == "numpy.vstack":
                    ax = 0
                else:
                    ax = int(kwargs.get("axis", 0))
                axes = list(seq[0].axes)
                axes[ax] = ("joined", axes[ax])
                return AxArr(axes, "data")
            return ("joined-other",)
        if name == "numpy.sum" and isinstance(args[0], AxArr):
            ax = kwargs.get("axis", args[1] if len(args) > 1 else None)
            axes = list(args[0].axes)
            if ax is None:
                return AxArr((), "sum")
            axes.pop(int(ax))
            return AxArr(axes, "sum")
        if name == "dataclasses.replace":
            o = Obj(ccls, dict(args[0].attrs))
            o.attrs.update(kwargs)
            return o
        return NotImplemented
    for label, axes, want in (("scalar", ("term",), ()),
                              ("k components", ("term", "comp"),
                               ("comp",))):
        a = Obj(ccls, {"data": AxArr(axes), "indices": AxArr(("e",)),
                       "shape": (), "local_shape": ()})
        b = Obj(ccls, {"data": AxArr(axes), "indices": AxArr(("e",)),
                       "shape": (), "local_shape": ()})
        try:
            it = Interp(model, call_hook=hook)
            s_ = it.call(add, [b], {}, self_obj=a)
            r = it.call(td, [], {}, self_obj=s_)
        except (Unsupported, Raised) as e:
            raise AnalysisError(f"COOData.__add__/todefault (0-tensor, "
                                f"{label}): {e}")
        ok = isinstance(r, AxArr) and tuple(r.axes) == want
        _v(rep, L2, ok, f"COOData.__add__[functional,{label}]",
           "the sum over a list of bases reduces over the terms and keeps "
           "the components", FCO, "COOData.__add__",
           f"for a functional with {label} the sum of two assemblies "
           f"reduces to axes {getattr(r, 'axes', r)!r}, expected {want!r}: "
           f"the data of the bases are joined along the component axis, so "
           f"asm(functional, [b1, b2]) returns the per-basis values side by "
           f"side instead of their sum", add.lineno)


def _l3(model, rep):
    L3 = "C19-L3"
    # numbering order per block from the symbolic Dofs run
    r = run_dofs(model, 3, {"nodal": 1, "edge": 2, "facet": 3,
                            "interior": 4}, {"t": 4, "t2e": 6, "t2f": 4})
    num_order = {k: r.blocks[k].order for k in KINDS
                 if isinstance(r.blocks[k], NumBlock)}
    fn = model.func("skfem.assembly.basis.abstract_basis",
                    "AbstractBasis.split_indices")
    n = 0
    for node in walk_no_nested(fn.node):
        if isinstance(node, ast.Call) and src(node.func) == "np.concatenate":
            tag = "composite" if "o[" in src(node) else "vector"
            for e in node.args[0].elts:
                k = [a.attr[:-5] for a in ast.walk(e)
                     if isinstance(a, ast.Attribute)
                     and src(a.value) == "self"
                     and a.attr.endswith("_dofs")]
                fl = [c for c in ast.walk(e) if isinstance(c, ast.Call)
                      and isinstance(c.func, ast.Attribute)
                      and c.func.attr == "flatten"]
                if len(k) != 1 or len(fl) != 1:
                    raise AnalysisError("split_indices: block expression")
                order = fl[0].args[0].value if fl[0].args else "C"
                n += 1
                cons = f"split_indices[{tag}]:{k[0]}"
                if order == num_order.get(k[0]):
                    rep.ok(L3, cons, f"block flattened in order {order!r} = "
                           f"order Dofs numbered it: entity e's DOFs stay "
                           f"together in the component vector")
                else:
                    rep.fail(L3, fn.path, fn.short(), cons,
                             f"{k[0]} block is flattened in order {order!r} "
                             f"but Dofs.__init__ numbers it in order "
                             f"{num_order.get(k[0])!r}: the component "
                             f"vector's entries are permuted relative to "
                             f"the component basis' own numbering",
                             node.lineno)
    if n < 8:
        raise AnalysisError(f"split_indices: {n} blocks, 8 expected")
    loc = _local_sites(model)
    ref = loc["Element._bfun_counts"][1]
    for name in ("AbstractBasis.split_indices[composite]",
                 "AbstractBasis.split_indices[vector]",
                 "AbstractBasis.split_indices[offsets]",
                 "AbstractBasis.split_indices[increment]",
                 "ElementComposite._deduce_bfun"):
        if name not in loc:
            raise AnalysisError(f"site {name} not found")
        f, order = loc[name]
        _v(rep, L3, tuple(order) == ref, f"order:{name}",
           f"entity blocks in the local basis order {ref}", f.path,
           f.short(), f"entity order {tuple(order)} differs from the local "
           f"basis order {ref}", f.lineno)
    names = _names_sites(model)
    names = {k_: v_ for k_, v_ in names.items() if "#" not in k_}
    orders = {n_: _order_from_preds(p) for n_, (f, p) in names.items()}
    f, p = names["ElementComposite.__init__"]
    others = {o for n_, o in orders.items()
              if n_ != "ElementComposite.__init__"}
    _v(rep, L3, len(others) == 1 and orders["ElementComposite.__init__"]
       in others, "names:ElementComposite.__init__",
       "component names follow the readers' dofnames order", f.path,
       f.short(), f"component names ordered "
       f"{orders['ElementComposite.__init__']}, readers use "
       f"{sorted(others)}", f.lineno)


def _l4(model, rep):
    L4 = "C19-L4"
    cls = model.cls("skfem.element.element_vector", "ElementVector")
    gb = cls.methods["gbasis"]
    # evaluate the two decode assignments for concrete i, dim
    decode = [n for n in gb.node.body if isinstance(n, ast.Assign)
              and src(n.targets[0]) in ("ind", "n")]
    if len(decode) != 2:
        raise AnalysisError("ElementVector.gbasis: decode statements")
    bad = None
    for dim in (2, 3):
        for i in range(0, 3 * dim):
            it = Interp(model)
            obj = Obj(None, {"dim": dim})
            env = {"self": obj, "i": i}
            try:
                for st in decode:
                    it.exec_stmt(st, env, gb.module)
            except (Unsupported, Raised) as e:
                raise AnalysisError(f"ElementVector.gbasis decode: {e}")
            if (env["ind"], env["n"]) != (i // dim, i % dim):
                bad = (dim, i, env["ind"], env["n"])
    _v(rep, L4, bad is None, "ElementVector.gbasis:decode",
       "local index i -> (scalar function i // dim, component i % dim)",
       cls.path, "ElementVector.gbasis",
       f"decode gives {bad}: not (i // dim, i % dim)", gb.lineno)
    ini = cls.methods["__init__"]
    # interpret the constructor on a stub scalar element with three local
    # DOFs (names a, b, c at locations L0, L1, L2), for the default number
    # of components and for one that differs from the spatial dimension
    class Locs:
        skv_isarray = True
        shape = (3, 2)

        def skv_getitem(self, ix):
            if isinstance(ix, Fraction):
                ix = int(ix)
            if isinstance(ix, int) and 0 <= ix < 3:
                return f"L{ix}"
            raise Raised("IndexError")

        def skv_getattr(self, name):
            if name == "shape":
                return self.shape
            raise Unsupported("doflocs." + name)

    def hook(interp, name, args, kwargs, node):
        if name == "numpy.array" and isinstance(args[0], list):
            return ("rows", list(args[0]))
        if name == "numpy.repeat" and isinstance(args[0], Locs):
            reps = args[1]
            ax = kwargs.get("axis", args[2] if len(args) > 2 else None)
            if isinstance(reps, int) and ax == 0:
                return ("rows", [f"L{k}" for k in range(3)
                                 for _ in range(reps)])
        if name == "numpy.floor":
            v = args[0]
            if isinstance(v, (int, Fraction)):
                return Fraction(v.numerator // v.denominator) \
                    if isinstance(v, Fraction) else v
        return NotImplemented
    for given, edim in ((None, 2), (3, 2), (1, 2), (2, 3)):
        elem = Obj(None, {"dim": edim, "nodal_dofs": 1, "facet_dofs": 0,
                          "interior_dofs": 0, "edge_dofs": 0,
                          "dofnames": ["a", "b", "c"], "maxdeg": 1,
                          "refdom": "REF", "doflocs": Locs()})
        obj = Obj(cls, {})
        try:
            it = Interp(model, call_hook=hook)
            it.call(ini, [elem] + ([] if given is None else [given]), {},
                    self_obj=obj)
        except (Unsupported, Raised) as e:
            raise AnalysisError(f"ElementVector.__init__: {e}")
        nc = edim if given is None else given
        tag = f"components={'default' if given is None else given}," \
              f"space dim={edim}"
        want_names = [f"{nm}^{j + 1}" for nm in "abc" for j in range(nc)]
        _v(rep, L4, obj.attrs.get("dofnames") == want_names,
           f"ElementVector.__init__:names[{tag}]",
           "name of row r is (scalar name r // ncomp, component r % ncomp "
           "+ 1)", cls.path, "ElementVector.__init__",
           f"component names are {obj.attrs.get('dofnames')}, expected "
           f"{want_names}", ini.lineno)
        locs = obj.attrs.get("doflocs")
        want_locs = ("rows", [f"L{k}" for k in range(3) for _ in range(nc)])
        _v(rep, L4, locs == want_locs,
           f"ElementVector.__init__:doflocs[{tag}]",
           "location of local DOF i is that of scalar DOF i // ncomp",
           cls.path, "ElementVector.__init__",
           f"DOF locations are {locs[1] if isinstance(locs, tuple) else locs}"
           f", expected {want_locs[1]}: every scalar location must be "
           f"repeated once per component ({nc}), whatever the spatial "
           f"dimension ({edim})", ini.lineno)
    # counts: interpreted with distinct per-kind counts
    elem = Obj(None, {"dim": 2, "nodal_dofs": 1, "facet_dofs": 2,
                      "interior_dofs": 3, "edge_dofs": 5,
                      "dofnames": ["a"], "maxdeg": 1, "refdom": "REF"})
    obj = Obj(cls, {})
    try:
        Interp(model, call_hook=hook).call(ini, [elem, 3], {}, self_obj=obj)
    except (Unsupported, Raised) as e:
        raise AnalysisError(f"ElementVector.__init__: {e}")
    counts_ok = [obj.attrs.get(f"{k}_dofs") for k in
                 ("nodal", "facet", "interior", "edge")] == [3, 6, 9, 15]
    _v(rep, L4, counts_ok, "ElementVector.__init__:counts",
       "per-entity counts multiplied by dim (so i % dim == row % dim)",
       cls.path, "ElementVector.__init__",
       "per-entity DOF counts are not all multiplied by dim", ini.lineno)
    fn = model.func("skfem.assembly.basis.abstract_basis",
                    "AbstractBasis.split_indices")
    strided = [n for n in ast.walk(fn.node) if isinstance(n, ast.Subscript)
               and isinstance(n.slice, ast.Slice) and n.slice.step is not None]
    ok = len(strided) == 4 and all(
        src(n.slice.lower) == "k" and src(n.slice.step) == "ndims"
        and n.slice.upper is None for n in strided)
    _v(rep, L4, ok, "split_indices[vector]:stride",
       "component k takes rows k, k + dim, ... of every block (row % dim == "
       "k)", fn.path, fn.short(),
       "component rows are not selected with stride dim starting at k",
       fn.lineno)


def _l5(model, rep):
    """CompositeBasis: symbolic run of element_dofs / split / interpolate /
    N over three stub component bases with symbolic sizes."""
    from ..interp import Arr, PyFunc
    L5 = "C19-L5"
    mod = "skfem.assembly.basis.composite_basis"
    cls = model.cls(mod, "CompositeBasis")
    path = cls.path
    K = 3

    class B:
        def __init__(self, k):
            self.k = k

        def __repr__(self):
            return f"basis{self.k}"

        def skv_getattr(self, name):
            if name == "N":
                return Poly.sym(f"N{self.k}")
            if name == "element_dofs":
                return Poly.sym(f"ed{self.k}")
            if name == "Nbfun":
                return Poly.sym(f"Nbfun{self.k}")
            if name == "interpolate":
                return PyFunc(lambda a, kw, n: ("interp", self.k, a[0]))
            raise Unsupported(f"component basis attribute {name}")

    class X:
        def skv_getitem(self, ix):
            if isinstance(ix, slice):
                return ("seg", Poly.coerce(ix.start or 0),
                        Poly.coerce(ix.stop))
            raise Unsupported("index into the coefficient vector")
    bases = [B(k) for k in range(K)]
    prefix = [Poly()]
    for k in range(K):
        prefix.append(prefix[-1] + Poly.sym(f"N{k}"))

    def hook(interp, name, args, kwargs, node):
        if name == "numpy.vstack":
            return list(args[0])
        if name == "numpy.cumsum":
            out, tot = [], Poly()
            for v in args[0]:
                tot = tot + v
                out.append(tot)
            return out
        if name == "numpy.split":
            x, cuts = args
            cuts = [Poly()] + list(cuts) + [None]
            return [("seg", cuts[i], cuts[i + 1])
                    for i in range(len(cuts) - 1)]
        return NotImplemented

    def mk():
        return Obj(cls, {"bases": bases, "equal_dofnum": False,
                         "_element_dofs": None, "_basis": None})

    def call(name, *args):
        try:
            return Interp(model, call_hook=hook).call(
                cls.methods[name], list(args), {}, self_obj=mk())
        except (Unsupported, Raised) as e:
            raise AnalysisError(f"CompositeBasis.{name}: {e}")
    ed = call("element_dofs")
    want = [Poly.sym(f"ed{k}") + prefix[k] for k in range(K)]
    _v(rep, L5, isinstance(ed, list) and len(ed) == K and all(
        Poly.coerce(a) == b for a, b in zip(ed, want)),
       "CompositeBasis.element_dofs:offsets",
       "rows of component k are its element_dofs + N0 + ... + N(k-1)", path,
       "CompositeBasis.element_dofs",
       f"rows are {ed}: component k must be shifted by the sum of N of the "
       f"components before it", cls.methods["element_dofs"].lineno)
    n = call("N")
    _v(rep, L5, Poly.coerce(n) == prefix[K], "CompositeBasis.N",
       "N = sum of the components' N", path, "CompositeBasis.N",
       f"N is {n}, not the sum of the components' N",
       cls.methods["N"].lineno)
    sp = call("split", X())
    oksp = isinstance(sp, list) and len(sp) == K
    if oksp:
        for k, (seg, b) in enumerate(sp):
            hi = seg[2] if seg[2] is not None else prefix[K]
            if not (b is bases[k] and seg[1] == prefix[k]
                    and hi == prefix[k + 1]):
                oksp = False
    _v(rep, L5, oksp, "CompositeBasis.split:offsets",
       "component k receives x[N0+..+N(k-1) : N0+..+Nk]", path,
       "CompositeBasis.split",
       "split cuts the vector at other positions than element_dofs shifts "
       "the numbers, or pairs the pieces with other components",
       cls.methods["split"].lineno)
    ip = call("interpolate", X())
    okip = isinstance(ip, (tuple, list)) and len(ip) == K
    if okip:
        for k, r in enumerate(ip):
            if not (isinstance(r, tuple) and r[0] == "interp" and r[1] == k
                    and r[2][1] == prefix[k] and r[2][2] == prefix[k + 1]):
                okip = False
    _v(rep, L5, okip, "CompositeBasis.interpolate:offsets",
       "component k interpolates x[N0+..+N(k-1) : N0+..+Nk]", path,
       "CompositeBasis.interpolate",
       "interpolate slices the vector differently from element_dofs/split",
       cls.methods["interpolate"].lineno)
    # ---- split_indices / split_bases agree with split (both modes)
    if "split_indices" in cls.methods and "split_bases" in cls.methods:
        def harange(interp, nm, args, kwargs, node):
            if nm == "numpy.arange":
                a_ = [Poly.coerce(x) for x in args]
                return ("range", Poly() if len(a_) == 1 else a_[0], a_[-1])
            if nm == "numpy.cumsum":
                out, tot = [], Poly()
                for v in args[0]:
                    tot = tot + Poly.coerce(v)
                    out.append(tot)
                return out
            return hook(interp, nm, args, kwargs, node)
        for shared in (False, True):
            ob = Obj(cls, {"bases": bases, "equal_dofnum": shared,
                           "_element_dofs": None, "_basis": None})
            try:
                si = Interp(model, call_hook=harange).call(
                    cls.methods["split_indices"], [], {}, self_obj=ob)
                sb = Interp(model, call_hook=harange).call(
                    cls.methods["split_bases"], [], {}, self_obj=ob)
            except (Unsupported, Raised) as e:
                raise AnalysisError(f"CompositeBasis.split_indices: {e}")
            want_si = [("range", Poly() if shared else prefix[k],
                        Poly.sym(f"N{k}") if shared else prefix[k + 1])
                       for k in range(K)]
            okx = list(si) == want_si and list(sb) == list(bases)
            _v(rep, L5, okx, f"CompositeBasis.split_indices"
               f"[{'shared' if shared else 'concatenated'}]",
               "index ranges of the components = the offsets of element_dofs",
               path, "CompositeBasis.split_indices",
               f"split_indices gives {si!r}", cls.methods[
                   "split_indices"].lineno)
    # ---- the shared numbering (basis0 @ basis1: equal_dofnum=True): every
    # component reads and writes the *same* DOF vector - element_dofs adds
    # no offset, N is the common N, and split / interpolate hand every
    # component the whole vector
    xs = X()

    def mk_shared():
        return Obj(cls, {"bases": bases, "equal_dofnum": True,
                         "_element_dofs": None, "_basis": None})

    def call_s(name, *args):
        try:
            return Interp(model, call_hook=hook).call(
                cls.methods[name], list(args), {}, self_obj=mk_shared())
        except (Unsupported, Raised) as e:
            return ("failed", str(e))
    ed = call_s("element_dofs")
    _v(rep, L5, isinstance(ed, list) and len(ed) == K and all(
        Poly.coerce(a) == Poly.sym(f"ed{k}") for k, a in enumerate(ed)),
       "CompositeBasis.element_dofs:shared-numbering",
       "with equal_dofnum the rows of every component are unshifted", path,
       "CompositeBasis.element_dofs",
       f"with equal_dofnum the rows are {ed}", cls.methods[
           "element_dofs"].lineno)
    sp = call_s("split", xs)
    oks = isinstance(sp, list) and len(sp) == K and all(
        isinstance(pr, tuple) and len(pr) == 2 and pr[0] is xs
        and pr[1] is bases[k] for k, pr in enumerate(sp))
    _v(rep, L5, oks, "CompositeBasis.split:shared-numbering",
       "with equal_dofnum every component receives the whole vector", path,
       "CompositeBasis.split",
       f"with equal_dofnum (basis0 @ basis1) split cuts the shared vector "
       f"as if the DOFs were concatenated ({str(sp)[:80]}): the second "
       f"component receives an empty vector, silently", cls.methods[
           "split"].lineno)
    ip = call_s("interpolate", xs)
    oki = isinstance(ip, (tuple, list)) and len(ip) == K and all(
        isinstance(r, tuple) and r[0] == "interp" and r[1] == k
        and r[2] is xs for k, r in enumerate(ip))
    _v(rep, L5, oki, "CompositeBasis.interpolate:shared-numbering",
       "with equal_dofnum every component interpolates the whole vector",
       path, "CompositeBasis.interpolate",
       f"with equal_dofnum (basis0 @ basis1) interpolate slices the shared "
       f"vector as if the DOFs were concatenated ({str(ip)[:80]}): a vector "
       f"of length N raises 'Input array has wrong size', so no form can "
       f"take a coefficient vector on such a basis", cls.methods[
           "interpolate"].lineno)


def _single_field_components(model, rep):
    """ElementComposite.gbasis and ElementVector.gbasis take ``[0]`` of what
    a component's gbasis returns: the single field of a non-composite
    element.  A composite handed in as a *component* returns one field per
    inner component, of which all but the first are dropped - its DOFs are
    numbered and split out, but their basis functions are identically zero
    (empty matrix rows), silently.  Element.__mul__ flattens; the
    constructors must do the same or refuse: ElementComposite.__init__
    replaces a composite argument by its components, ElementVector.__init__
    refuses one."""
    L4 = "C19-L4"
    for modn, clsn in (("skfem.element.element_composite",
                        "ElementComposite"),
                       ("skfem.element.element_vector", "ElementVector")):
        cls = model.cls(modn, clsn)
        gb = cls.methods.get("gbasis")
        init = cls.methods.get("__init__")
        if gb is None or init is None:
            raise AnalysisError(f"{clsn}: gbasis / __init__ not found")
        takes0 = any(isinstance(x, ast.Subscript) and isinstance(
            x.value, ast.Call) and isinstance(x.value.func, ast.Attribute)
            and x.value.func.attr == "gbasis" and src(x.slice) == "0"
            for x in ast.walk(gb.node))
        cons = f"{clsn}.__init__:composite-component"
        if not takes0:
            rep.ok(L4, cons, "gbasis forwards every field of a component")
            continue
        tests = [x for x in ast.walk(init.node) if isinstance(x, ast.Call)
                 and src(x.func) == "isinstance" and len(x.args) == 2
                 and "ElementComposite" in src(x.args[1])]
        flattens = any(isinstance(x, ast.Attribute) and x.attr == "elems"
                       and isinstance(x.ctx, ast.Load)
                       and src(x.value) != "self"
                       for x in ast.walk(init.node))
        refuses = any(isinstance(x, ast.If) and any(
            t_ in list(ast.walk(x.test)) for t_ in tests) and any(
            isinstance(y, ast.Raise) for y in ast.walk(x))
            for x in ast.walk(init.node))
        # the composite wrapper has to flatten (Element.__mul__ relies on the
        # constructor for a * (b * c)); the vector wrapper can only refuse
        handled = bool(tests) and (flattens if clsn == "ElementComposite"
                                   else (flattens or refuses))
        if handled:
            rep.ok(L4, cons, "a composite component is flattened into its "
                   "components (or refused)")
        else:
            rep.fail(L4, cls.path, f"{clsn}.__init__", cons,
                     f"{clsn}.gbasis takes field [0] of each component's "
                     f"gbasis but the constructor accepts a composite "
                     f"component as it is: ElementComposite("
                     f"ElementComposite(P2, P1), P0) numbers 42 DOFs like "
                     f"P2 * P1 * P0, and the 9 DOFs of the inner P1 have "
                     f"identically zero basis functions (mass matrix of "
                     f"rank 33)", init.lineno)


def _wrapped_composite_components(model, rep):
    """... and a composite reaches a constructor through wrappers as well:
    ElementDG(P2 * P1) delivers two fields like P2 * P1, and so does
    ElementDG(ElementDG(P2 * P1)).  The tests guarding the refusals in the
    two constructors are interpreted on chains of one, two and three
    ElementDG wrappers around a two-field composite (must refuse) and on a
    plain element, wrapped or not (must not refuse)."""
    from ..interp import ClassRef
    L4 = "C19-L4"
    comp = model.cls("skfem.element.element_composite", "ElementComposite")
    dg = model.cls("skfem.element.element_dg", "ElementDG")
    p1 = model.cls("skfem.element.element_tri.element_tri_p1",
                   "ElementTriP1")

    def chain(depth, inner):
        for _ in range(depth):
            inner = Obj(dg, {"elem": inner})
        return inner

    def two():
        return Obj(comp, {"elems": (Obj(p1, {}), Obj(p1, {}))})
    stubs = [("ElementDG(P2 * P1)", chain(1, two()), True),
             ("ElementDG(ElementDG(P2 * P1))", chain(2, two()), True),
             ("ElementDG(ElementDG(ElementDG(P2 * P1)))", chain(3, two()),
              True),
             ("ElementDG(ElementDG(P1))", chain(2, Obj(p1, {})), False),
             ("P1", Obj(p1, {}), False)]
    for modn, clsn in (("skfem.element.element_composite",
                        "ElementComposite"),
                       ("skfem.element.element_vector", "ElementVector")):
        cls = model.cls(modn, clsn)
        init = cls.methods["__init__"]
        gb = cls.methods["gbasis"]
        takes0 = any(isinstance(x, ast.Subscript) and isinstance(
            x.value, ast.Call) and isinstance(x.value.func, ast.Attribute)
            and x.value.func.attr == "gbasis" and src(x.slice) == "0"
            for x in ast.walk(gb.node))
        if not takes0:
            rep.ok(L4, f"{clsn}.__init__:wrapped-composite-component",
                   "gbasis forwards every field of a component")
            continue
        ifs = [x for x in ast.walk(init.node) if isinstance(x, ast.If)
               and any(isinstance(y, ast.Raise) for y in x.body)]
        for label, stub, want in stubs:
            got, evaluated = False, 0
            for x in ifs:
                free = {n.id for n in ast.walk(x.test)
                        if isinstance(n, ast.Name)} - {
                    "self", "isinstance", "getattr", "ElementComposite",
                    "None", "len", "any", "all"}
                env = {k: stub for k in free}
                env["self"] = Obj(cls, {})
                env["ElementComposite"] = ClassRef(comp)
                try:
                    r = Interp(model).eval(x.test, env, init.module)
                except (Unsupported, Raised):
                    continue
                evaluated += 1
                got = got or r is True
            if not evaluated:
                raise AnalysisError(f"{clsn}.__init__: no refusal test "
                                    f"could be interpreted on {label}")
            cons = f"{clsn}.__init__:wrapped-composite-component[{label}]"
            if got == want:
                rep.ok(L4, cons, "refused" if want else "accepted")
            elif want:
                rep.fail(L4, cls.path, f"{clsn}.__init__", cons,
                         f"{label} is accepted as a component: it delivers "
                         f"two fields of which {clsn}.gbasis takes the "
                         f"first, the DOFs of the other are numbered but "
                         f"their basis functions are identically zero (mass "
                         f"matrix of ElementDG(ElementDG(P2 * P1)) * P1: "
                         f"rank 57 of 81)", init.lineno)
            else:
                rep.fail(L4, cls.path, f"{clsn}.__init__", cons,
                         f"{label} is refused as a component although it "
                         f"delivers a single field", init.lineno)


def _composite_padding(model, rep):
    """CompositeBasis.basis: function j of component i is the tuple with
    that function in slot i and a *zero field of component k's kind* in
    every other slot k (same value / gradient shapes as the functions of
    component k - otherwise a vector x scalar pair cannot be assembled)."""
    from ..interp import PyFunc
    L5 = "C19-L5"
    cls = model.cls("skfem.assembly.basis.composite_basis", "CompositeBasis")
    fn = cls.methods["basis"]
    NF = [2, 1, 3]

    class Fld:
        def __init__(self, comp, j, zero=False):
            self.comp, self.j, self.zero = comp, j, zero

        def skv_getattr(self, name):
            if name == "zeros":
                return PyFunc(lambda a, k, n: Fld(self.comp, None, True))
            raise Unsupported("field." + name)

        def key(self):
            return ("zero", self.comp) if self.zero else ("fn", self.comp,
                                                          self.j)
    bases = [Obj(None, {"basis": [(Fld(k, j),) for j in range(NF[k])]})
             for k in range(3)]
    obj = Obj(cls, {"bases": bases, "_basis": None, "equal_dofnum": False,
                    "_element_dofs": None})
    try:
        r = Interp(model).call(fn, [], {}, self_obj=obj)
    except (Unsupported, Raised) as e:
        raise AnalysisError(f"CompositeBasis.basis: {e}")
    want = []
    for i in range(3):
        for j in range(NF[i]):
            want.append(tuple(("fn", i, j) if k == i else ("zero", k)
                              for k in range(3)))
    got = [tuple(x.key() if isinstance(x, Fld) else x for x in t)
           for t in r] if isinstance(r, list) else r
    _v(rep, L5, got == want, "CompositeBasis.basis:padding",
       "function j of component i: itself in slot i, a zero field of "
       "component k in every other slot k", cls.path, "CompositeBasis.basis",
       f"the composite basis functions are {str(got)[:300]}; expected "
       f"{str(want)[:200]}...: the zero in slot k must have the shapes of "
       f"component k's fields (a zero copied from component i gives a "
       f"velocity function a vector-valued 'pressure part': broadcasting "
       f"error for unlike components, wrong derivative attributes for "
       f"like-shaped ones)", fn.lineno)


def _bmat_blocks(model, rep):
    """utils.bmat: the attribute .blocks of the block matrix lists the
    column positions at which the solution vector is cut into the blocks'
    unknowns (np.split(x, K.blocks)): the prefix sums of the block widths.
    Symbolic run with five block columns of symbolic widths (vectors count
    their length)."""
    from ..interp import PyFunc
    L5 = "C19-L5"
    fn = model.func("skfem.utils", "bmat")
    NCOL = 5
    W = [Poly.sym(f"w{j}") for j in range(NCOL)]
    H = [Poly.sym(f"h{i}") for i in range(3)]

    def Blk(shape):
        return Obj(None, {"shape": shape})
    # first row: None in column 1 (the second row provides its width),
    # a vector-shaped entry in column 2
    rows = [[Blk((H[0], W[0])), None, Blk((W[2],)), Blk((H[0], W[3])),
             Blk((H[0], W[4]))],
            [None, Blk((H[1], W[1])), None, None, None],
            [None, None, None, None, None]]
    mat = Obj(None, {})

    def hook(interp, name, args, kwargs, node):
        if name.endswith("sparse.bmat") or name.endswith(".bmat"):
            return mat
        return NotImplemented
    try:
        it = Interp(model, call_hook=hook)
        r = it.call(fn, [rows], {})
    except (Unsupported, Raised) as e:
        raise AnalysisError(f"utils.bmat: {e}")
    got = mat.attrs.get("blocks")
    want, acc = [], Poly()
    for j in range(NCOL - 1):
        acc = acc + W[j]
        want.append(acc)
    ok = isinstance(got, list) and len(got) == len(want) and all(
        Poly.coerce(a) == b for a, b in zip(got, want))
    _v(rep, L5, ok, "utils.bmat:blocks",
       f"cut positions of {NCOL} block columns = prefix sums of their "
       f"widths", "skfem/utils.py", "bmat",
       f"bmat(...).blocks is {got}; expected the prefix sums {want}: from "
       f"the third position on np.split(x, K.blocks) cuts the solution "
       f"vector at the wrong places", fn.lineno)


def _l6(model, rep):
    """asm(): which basis tuple goes with which block index, and which form
    class wraps a plain function - by symbolic run"""
    L6 = "C19-L6"
    fn = model.func("skfem.assembly", "asm")
    fcls = model.cls("skfem.assembly.form.form", "Form")
    calls = []

    def hook(interp, name, args, kwargs, node):
        if name == "itertools.product":
            from itertools import product
            return list(product(*[list(a) for a in args]))
        for w in ("Functional", "LinearForm", "BilinearForm",
                  "TrilinearForm"):
            if name.endswith("." + w):
                return mkform(w, args[0])
        return NotImplemented

    def mkform(kind, inner):
        def coo(a, k, n):
            calls.append((kind, tuple(a), dict(k)))
            return ("coo", len(calls) - 1)
        return Obj(fcls, {"form": Obj(None, {"__name__": "f"}),
                          "coo_data": PyFunc(coo), "kind": kind,
                          "inner": inner})
    to = PyFunc(lambda a, k, n: list(a[0]))
    form = mkform("given", None)
    args = [["u0", "u1"], "v", ["w0", "w1", "w2"]]
    try:
        Interp(model, call_hook=hook).call(fn, [form] + args,
                                           {"to": to, "extra": "E"})
    except (Unsupported, Raised) as e:
        raise AnalysisError(f"asm: {e}")
    from itertools import product
    want = []
    for i, j in product(range(2), range(3)):
        want.append(("given", (f"u{i}", "v", f"w{j}"),
                     {"idx": (i, 0, j), "extra": "E"}))
    got = [(k, a, {kk: (tuple(int(x) for x in vv) if kk == "idx" else vv)
                   for kk, vv in kw.items()}) for k, a, kw in calls]
    _v(rep, L6, sorted(got, key=repr) == sorted(want, key=repr),
       "asm:pairing",
       "every combination of listed bases is assembled once with idx = its "
       "position in each list; keyword arguments forwarded", fn.path, "asm",
       f"asm assembles {got[:3]}...; expected each combination of the "
       f"listed bases with idx = its positions, e.g. {want[1]}", fn.lineno)
    # plain functions are wrapped by the form class of their arity
    kinds = ["Functional", "LinearForm", "BilinearForm", "TrilinearForm"]
    for nargs, kind in enumerate(kinds, 1):
        calls.clear()
        f = Obj(None, {"__code__": Obj(None, {"co_argcount": nargs}),
                       "__name__": "f"})
        f.skv_callable = True
        try:
            Interp(model, call_hook=hook).call(
                fn, [f] + ["b"] * max(nargs - 1, 1), {"to": to})
        except (Unsupported, Raised) as e:
            raise AnalysisError(f"asm(function of {nargs} arguments): {e}")
        ks = {c[0] for c in calls}
        _v(rep, L6, ks == {kind}, f"asm:wrapper[{nargs}]",
           f"a function of {nargs} argument(s) is assembled as {kind}",
           fn.path, "asm",
           f"a function of {nargs} argument(s) is wrapped as {sorted(ks)}, "
           f"not {kind}", fn.lineno)


def run(model: Model, rep, tier: str) -> None:
    rep.rule("C19-L1", "local_shape == leading extents of the data "
             "allocation, in (test, trial) order for 2-tensors")
    rep.rule("C19-L2", "tolocal/fromlocal inverse; inverse(); addition "
             "keeps indices and data co-ordered")
    rep.rule("C19-L3", "split_indices flattens each block in its numbering "
             "order and uses the local basis order; composite names in the "
             "readers' order")
    rep.rule("C19-L4", "ElementVector decodings agree (component = index "
             "mod dim)")
    rep.rule("C19-L5", "CompositeBasis accumulates the same offsets "
             "everywhere")
    rep.rule("C19-L6", "asm zips products over the same lists")
    staged(lambda: _l1(model, rep), lambda: _l2(model, rep),
           lambda: _tolocal_facets(model, rep),
           lambda: _add_functionals(model, rep),
           lambda: _l3(model, rep), lambda: _l4(model, rep),
           lambda: _single_field_components(model, rep),
           lambda: _wrapped_composite_components(model, rep),
           lambda: _composite_padding(model, rep),
           lambda: _bmat_blocks(model, rep),
           lambda: _l5(model, rep), lambda: _l6(model, rep))
    rep.require_min("C19-L1", 6)
    rep.require_min("C19-L3", 12)


_B = "skfem/assembly/form/bilinear_form.py"
_AB = "skfem/assembly/basis/abstract_basis.py"
_CB = "skfem/assembly/basis/composite_basis.py"
_D = "skfem/assembly/dofs.py"
_EV = "skfem/element/element_vector.py"
_EV = "skfem/element/element_vector.py"
_LOCS = """            self.doflocs = np.array([
                elem.doflocs[int(np.floor(float(i) / float(self.dim)))]
                for i in range(self.dim * elem.doflocs.shape[0])
            ])
"""
_AS = "skfem/assembly/__init__.py"
_ADI = "skfem/autodiff/__init__.py"
MUTANTS = [
    ("refusal of a wrapped composite looks one wrapper deep",
     ("skfem/element/element_composite.py",
      "        e = getattr(e, 'elem', None)\n        while e is not None:\n"
      "            if isinstance(e, ElementComposite):\n                "
      "return len(e.elems) > 1\n            e = getattr(e, 'elem', None)\n"
      "        return False",
      "        e = getattr(e, 'elem', None)\n        return isinstance(e, "
      "ElementComposite) and len(e.elems) > 1"), "C19-L4"),
    ("a wrapped composite is accepted as a component again",
     ("skfem/element/element_composite.py",
      "            if self._wraps_several_fields(e):",
      "            if False and self._wraps_several_fields(e):"), "C19-L4"),
    ("composite basis index ranges ignore the shared numbering",
     ("skfem/assembly/basis/composite_basis.py",
      "            return [np.arange(basis.N, dtype=np.int32)\n"
      "                    for basis in self.bases]\n", "            pass\n"),
     "C19-L5"),
    ("composite elements keep a composite component as it is",
     ("skfem/element/element_composite.py",
      "            flat += list(e.elems) if isinstance(e, ElementComposite) "
      "else [e]", "            flat += [e]"), "C19-L4"),
    ("composite basis with a shared numbering splits per component",
     ("skfem/assembly/basis/composite_basis.py",
      "        if self.equal_dofnum:\n            # the bases share one "
      "numbering\n            return [(x, basis) for basis in self.bases]\n",
      ""), "C19-L5"),
    ("composite basis with a shared numbering adds offsets",
     ("skfem/assembly/basis/composite_basis.py",
      "                if not self.equal_dofnum:\n                    offset "
      "+= basis.N", "                offset += basis.N"), "C19-L5"),
    ("added functionals joined along the component axis",
     ("skfem/assembly/form/coo_data.py",
      "            data=np.concatenate((self.data, other.data)),",
      "            data=np.hstack((self.data, other.data)),"), "C19-L2"),
    ("bmat accumulates the running offset twice",
     ("skfem/utils.py", "                diff = sizes[-1]",
      "                diff += sizes[-1]"), "C19-L5"),
    ("trilinear data, index rows and local_shape laid out (u, v, w) again",
     [("skfem/assembly/form/trilinear_form.py",
       "        sz = (wbasis.Nbfun, vbasis.Nbfun, ubasis.Nbfun, nt)",
       "        sz = (ubasis.Nbfun, vbasis.Nbfun, wbasis.Nbfun, nt)"),
      ("skfem/assembly/form/trilinear_form.py",
       "                    mats[i, j, k] = wbasis.element_dofs[i]\n"
       "                    rows[i, j, k] = vbasis.element_dofs[j]\n"
       "                    cols[i, j, k] = ubasis.element_dofs[k]\n"
       "                    data[i, j, k] = self._kernel(",
       "                    mats[k, j, i] = wbasis.element_dofs[i]\n"
       "                    rows[k, j, i] = vbasis.element_dofs[j]\n"
       "                    cols[k, j, i] = ubasis.element_dofs[k]\n"
       "                    data[k, j, i] = self._kernel("),
      ("skfem/assembly/form/trilinear_form.py",
       "            (wbasis.Nbfun, vbasis.Nbfun, ubasis.Nbfun),\n        )",
       "            (ubasis.Nbfun, vbasis.Nbfun, wbasis.Nbfun),\n        )")],
     "C19-L1"),
    ("tolocal adds facet matrices with a fancy-index +=",
     ("skfem/assembly/form/coo_data.py",
      "            np.add.at(out, basis.tind, local)",
      "            out[basis.tind] += local"), "C19-L2"),
    ("tolocal gathers facet matrices through t2f again",
     ("skfem/assembly/form/coo_data.py",
      "            out = np.zeros((basis.mesh.nelements,) + local.shape[1:],\n"
      "                           dtype=local.dtype)\n"
      "            np.add.at(out, basis.tind, local)\n"
      "            local = out\n",
      "            out = np.zeros((basis.mesh.nfacets,) + local.shape[1:])\n"
      "            out[basis.find] = local\n"
      "            local = np.sum(out[basis.mesh.t2f], axis=0)\n"), "C19-L2"),
    ("composite basis pads with zeros of the active component",
     ("skfem/assembly/basis/composite_basis.py",
      "                            tmp.append(self.bases[k].basis[0][0].zeros())",
      "                            tmp.append(self.bases[i].basis[j][0].zeros())"),
     "C19-L5"),
    ("autodiff: Jacobian slots stored as [trial, test] again",
     [(_ADI, "                ixs = slice(nt * (basis.Nbfun * i + j),\n"
       "                            nt * (basis.Nbfun * i + j + 1))",
       "                ixs = slice(nt * (basis.Nbfun * j + i),\n"
       "                            nt * (basis.Nbfun * j + i + 1))"),
      (_ADI, "                data[i, j, :] = np.sum(DFU * dx, axis=1)",
       "                data[j, i, :] = np.sum(DFU * dx, axis=1)")],
     "C19-L1"),
    ("asm wraps a two-argument function as a linear form",
     (_AS, "            Functional,\n            LinearForm,\n"
      "            BilinearForm,\n", "            Functional,\n"
      "            BilinearForm,\n            LinearForm,\n"), "C19-L6"),
    ("asm numbers the block index from the reversed lists",
     (_AS, "zip(product(*(range(len(x)) for x in nargs)),",
      "zip(product(*(range(len(x))[::-1] for x in nargs)),"), "C19-L6"),
    ("vector element repeats locations by the spatial dimension",
     (_EV, _LOCS, "            self.doflocs = np.repeat(elem.doflocs, "
      "elem.dim, axis=0)\n"), "C19-L4"),
    ("vector element names components slowest",
     (_EV, "                         for i in elem.dofnames\n"
      "                         for j in range(self.dim)]",
      "                         for j in range(self.dim)\n"
      "                         for i in elem.dofnames]"), "C19-L4"),
    ("bilinear: local_shape listed (trial, test)",
     (_B, "            (vbasis.Nbfun, ubasis.Nbfun),", "            "
      "(ubasis.Nbfun, vbasis.Nbfun),"), "C19-L1"),
    ("bilinear: trial-major data layout with matching slots (old layout)",
     [(_B, "                ixs = slice(nt * (ubasis.Nbfun * i + j),\n"
       "                            nt * (ubasis.Nbfun * i + j + 1))",
       "                ixs = slice(nt * (vbasis.Nbfun * j + i),\n"
       "                            nt * (vbasis.Nbfun * j + i + 1))"),
      (_B, "data = np.zeros((vbasis.Nbfun, ubasis.Nbfun, nt), "
       "dtype=self.dtype)", "data = np.zeros((ubasis.Nbfun, vbasis.Nbfun, "
       "nt), dtype=self.dtype)"),
      (_B, "                    data[i, j, :] = self._kernel(",
       "                    data[j, i, :] = self._kernel("),
      (_B, "            data[i, j] = self._kernel(", "            data[j, i] "
       "= self._kernel(")], "C19-L1"),
    ("trilinear: local_shape in (u, v, w) order",
     ("skfem/assembly/form/trilinear_form.py",
      "            (wbasis.Nbfun, vbasis.Nbfun, ubasis.Nbfun),\n        )",
      "            (ubasis.Nbfun, vbasis.Nbfun, wbasis.Nbfun),\n        )"),
     "C19-L1"),
    ("fromlocal flattens in Fortran order",
     ("skfem/assembly/form/coo_data.py",
      "data=np.moveaxis(local, 0, -1).flatten('C'),",
      "data=np.moveaxis(local, 0, -1).flatten('F'),"), "C19-L2"),
    ("tolocal moves the cell axis to the wrong place",
     ("skfem/assembly/form/coo_data.py",
      "                                              order='C'), -1, 0)",
      "                                              order='C'), -1, 1)"),
     "C19-L2"),
    ("addition keeps a stale local_shape",
     ("skfem/assembly/form/coo_data.py", "            local_shape=None,\n",
      "            local_shape=self.local_shape,\n"), "C19-L2"),
    ("addition concatenates data in the opposite operand order",
     ("skfem/assembly/form/coo_data.py",
      "            data=np.concatenate((self.data, other.data)),",
      "            data=np.concatenate((other.data, self.data)),"), "C19-L2"),
    ("Dofs numbers the facet block in C order (split_indices still F)",
     (_D, "            (element.facet_dofs, topo.nfacets),\n"
      "                order='F') + offset",
      "            (element.facet_dofs, topo.nfacets),\n"
      "                order='C') + offset"), "C19-L3"),
    ("split_indices flattens the edge block in C order",
     (_AB, "                    self.edge_dofs[o[1]:(o[1] + e.edge_dofs)]."
      "flatten('F'),", "                    self.edge_dofs[o[1]:(o[1] + "
      "e.edge_dofs)].flatten('C'),"), "C19-L3"),
    ("split_indices concatenates facets before edges",
     (_AB, "                    self.nodal_dofs[k::ndims].flatten('F'),\n"
      "                    self.edge_dofs[k::ndims].flatten('F'),\n"
      "                    self.facet_dofs[k::ndims].flatten('F'),",
      "                    self.nodal_dofs[k::ndims].flatten('F'),\n"
      "                    self.facet_dofs[k::ndims].flatten('F'),\n"
      "                    self.edge_dofs[k::ndims].flatten('F'),"),
     "C19-L3"),
    ("split_indices advances the facet offset by the edge count",
     (_AB, "                o += np.array([e.nodal_dofs,\n"
      "                               e.edge_dofs,\n"
      "                               e.facet_dofs,",
      "                o += np.array([e.nodal_dofs,\n"
      "                               e.facet_dofs,\n"
      "                               e.edge_dofs,"), "C19-L3"),
    ("_deduce_bfun builds the facet group from edge counts",
     ("skfem/element/element_composite.py",
      "            tmp = sum([[j] * self.elems[j].facet_dofs",
      "            tmp = sum([[j] * self.elems[j].edge_dofs"), "C19-L3"),
    ("ElementVector decodes the component as i // dim",
     (_EV, "        n = i - self.dim * ind\n", "        n = ind % self.dim\n"),
     "C19-L4"),
    ("vector split selects contiguous rows instead of strided ones",
     (_AB, "                    self.nodal_dofs[k::ndims].flatten('F'),",
      "                    self.nodal_dofs[k:k + 1].flatten('F'),"),
     "C19-L4"),
    ("CompositeBasis shifts DOF numbers by Nbfun",
     (_CB, "                    offset += basis.N\n", "                    "
      "offset += basis.Nbfun\n"), "C19-L5"),
    ("CompositeBasis.split drops the last cut instead of keeping it",
     (_CB, "                                   for basis in self.bases])[:-1]),",
      "                                   for basis in self.bases])[1:]),"),
     "C19-L5"),
    ("CompositeBasis.interpolate slices from the previous component",
     (_CB, "        return tuple(basis.interpolate(x[ixs[itr]:ixs[itr + 1]])",
      "        return tuple(basis.interpolate(x[ixs[itr - 1]:ixs[itr]])"),
     "C19-L5"),
    ("asm pairs indices with the reversed basis product",
     ("skfem/assembly/__init__.py",
      "                        product(*nargs))))",
      "                        product(*nargs[::-1]))))"), "C19-L6"),
]
TWINS = [
    ("asm builds the index tuples with enumerate",
     (_AS, "    retval = to(map(lambda a: form.coo_data(*a[1], idx=a[0], "
      "**kwargs),\n                    zip(product(*(range(len(x)) for x in "
      "nargs)),\n                        product(*nargs))))",
      "    retval = to([form.coo_data(*[p[1] for p in c],\n"
      "                               idx=tuple(p[0] for p in c), **kwargs)"
      "\n                 for c in product(*(list(enumerate(x)) for x in "
      "nargs))])")),
    ("tolocal moves the cell axis with positive axis numbers",
     ("skfem/assembly/form/coo_data.py",
      "                                              order='C'), -1, 0)",
      "                                              order='C'),\n"
      "                            len(self.local_shape), 0)")),
    ("inverse spelled in two statements",
     ("skfem/assembly/form/coo_data.py",
      "        return self.fromlocal(np.linalg.inv(self.tolocal()))",
      "        local = self.tolocal()\n"
      "        return self.fromlocal(np.linalg.inv(local))")),
    ("vector element repeats locations with np.repeat by the component "
     "count",
     (_EV, _LOCS, "            self.doflocs = np.repeat(elem.doflocs, "
      "self.dim, axis=0)\n")),
    ("CompositeBasis.split written with an explicit loop",
     (_CB, "        return list(zip(\n            np.split(x, np.cumsum(["
      "basis.N\n                                   for basis in self.bases])"
      "[:-1]),\n            self.bases,\n        ))",
      "        cuts = np.cumsum([b.N for b in self.bases])[:-1]\n"
      "        parts = np.split(x, cuts)\n"
      "        return list(zip(parts, self.bases))")),
    ("CompositeBasis.element_dofs offset via running total",
     (_CB, "                    offset += basis.N\n", "                    "
      "offset = offset + basis.N\n")),
]
