"""C05 - essential boundary conditions: no mutation unless asked, the
kept/constrained split, index-role consistency of condense / enforce /
penalize / expansion, lost-update hazards of fancy-indexed updates."""
from __future__ import annotations

import ast
from typing import Dict, List, Optional, Set

from ..effects import Analyzer, _walk_local
from ..interp import Interp, PyFunc, Raised, Unsupported, Obj
from ..poly import Poly, Rat
from ..model import staged, AnalysisError, FuncInfo, Model, src, walk_no_nested

PID = "C05"
LEVEL = "other"
TECHNIQUE = ("effect/alias analysis of the boundary-condition helpers "
             "(overwrite idiom), exhaustive enumeration of the four-way "
             "split decision, role matching of index expressions "
             "(kept I / constrained D) in condense-enforce-penalize-solve, "
             "unique-index idiom analysis of every fancy-indexed augmented "
             "assignment in the package")
LEVEL_TEXT = (
    "Decides the structural clauses: (R1) no helper stores into its "
    "arguments except through 'X if overwrite else X.copy()'; (R2) the "
    "kept/constrained split is exhaustive, each legal case builds the "
    "complement of the given set in range(A.shape[0]), illegal cases raise, "
    "and the normalised tuple is rebound to the variables it came from at "
    "all call sites; (R3) condense keeps rows/columns I and moves columns D "
    "times x[D] to the right-hand side, enforce/penalize write only at D "
    "with x[D], matrix right-hand sides recurse with diag=0, expansion "
    "writes the solution at I into a copy of x; (R4) an update "
    "'a[idx] op= v' is well defined only if idx has no repeats - every such "
    "site must draw idx from an enumerated unique-producing idiom. The "
    "numerical statement (the condensed solve satisfies the original "
    "equations) follows from R3 by linear algebra and is not checked on "
    "numbers.")
LEVEL_TEXT += (
    " Added after the seeding phase: penalize decided by a symbolic run "
    "(diagonal and right-hand side at D, copy unless overwrite) and its "
    "default penalty is a single number (rank inference); index sets "
    "returned by _flatten_dofs are repeat-free.")
LEVEL_TEXT += (
    " Added in the hunting round (defects found by independent agents "
    "on the unchanged tree, DESIGN.md 9.4 / 9.6): "
    "lossy stores into copies of operands (dtype flow), constrained set "
    "repeat-free on every path of _init_bc, storage format established "
    "before raw CSR arrays are read, data-dependent divisors guarded.")
LEVEL_TEXT += (
    " Added in the second hunting round (DESIGN.md 9.6): "
    "a stored true quotient needs a floating buffer; format-specific "
    "flags of a sparse matrix are read after a conversion or with a "
    "default.")
LEVEL_TEXT += (
    " Added in the third round (review of the fix commits, DESIGN.md "
    "9.6): "
    "the right-hand side built for an omitted b is floating; reductions "
    "of the matrix operand (max / min) follow a conversion; the "
    "expansion run follows both outcomes of the real-mode test.")
LEVEL_TEXT += (
    " Added in the fourth hunting round (DESIGN.md 9.6): "
    "a helper that indexes the system matrix converts non-indexable "
    "formats (or tests the format) first.")
LEVEL_NOTE = (
    "Trusted: scipy.sparse indexing A[I][:, D], setdiag, numpy.setdiff1d / "
    "unique / arange / nonzero semantics. Not decided: floating-point "
    "agreement of penalize with enforce, CSR pointer arithmetic beyond R4.")
EXPLANATION = ("Effect analysis plus role/pattern rules on skfem/utils.py "
               "and a package-wide scan of fancy-indexed augmented "
               "assignments.")
TRUSTED = ["scipy.sparse row/column indexing and setdiag",
           "numpy.setdiff1d/unique/arange/nonzero return repeat-free arrays"]
ASSUMPTIONS = ["parameter names I (kept) and D (constrained) of the public "
               "signatures carry the documented meaning"]

U = "skfem.utils"
F = "skfem/utils.py"
BC_FUNCS = ["enforce", "penalize", "condense", "mpc", "solve_linear",
            "solve_eigen", "_init_bc", "_flatten_dofs", "solve"]

UNIQUE_FUNCS = {"numpy.unique", "numpy.arange", "numpy.setdiff1d",
                "numpy.intersect1d", "numpy.union1d", "numpy.flatnonzero",
                "numpy.argsort", "numpy.random.permutation"}
UNIQUE_TUPLE_FUNCS = {"numpy.nonzero", "numpy.where", "numpy.unique"}
MASK_FUNCS = {"numpy.isin", "numpy.in1d", "numpy.logical_and",
              "numpy.logical_or", "numpy.logical_not", "numpy.isnan",
              "numpy.isclose", "numpy.zeros", "numpy.ones"}


# ----------------------------------------------------------------------
def _r1(model, an, rep):
    R1 = "C05-R1"
    for name in BC_FUNCS:
        fn = model.func(U, name)
        s = an.summarize(fn)
        bad: Dict[str, list] = {}
        ow: Dict[str, int] = {}
        for e in s.effects:
            for r in e.roots:
                if r.startswith("param:"):
                    bad.setdefault(r[6:], []).append(e)
                elif r.startswith("ow:param:"):
                    ow[r[9:]] = ow.get(r[9:], 0) + 1
        for p in s.params:
            if p == s.params[-1] and fn.node.args.kwarg is not None:
                continue
            cons = f"{name}({p})"
            if p in bad:
                e = bad[p][0]
                rep.fail(R1, F, name, cons,
                         f"argument '{p}' is modified although overwriting "
                         f"was not requested: {e.detail}"
                         f"{' via ' + e.via if e.via else ''}", e.line)
            elif p in ow:
                rep.ok(R1, cons, f"{ow[p]} store(s), all through "
                       f"'{p} if overwrite else {p}.copy()'")
            else:
                rep.ok(R1, cons, "never stored to")


# ----------------------------------------------------------------------
def _eval_none_test(t, env) -> bool:
    """Evaluate a test built from 'X is None' / 'X is not None' / and / or /
    not over an assignment of None-ness to names."""
    if isinstance(t, ast.BoolOp):
        vals = [_eval_none_test(v, env) for v in t.values]
        return all(vals) if isinstance(t.op, ast.And) else any(vals)
    if isinstance(t, ast.UnaryOp) and isinstance(t.op, ast.Not):
        return not _eval_none_test(t.operand, env)
    if isinstance(t, ast.Compare) and len(t.ops) == 1 and \
            isinstance(t.left, ast.Name) and t.left.id in env and \
            isinstance(t.comparators[0], ast.Constant) and \
            t.comparators[0].value is None:
        isnone = env[t.left.id]
        if isinstance(t.ops[0], ast.Is):
            return isnone
        if isinstance(t.ops[0], ast.IsNot):
            return not isnone
    raise AnalysisError(f"_init_bc: test '{src(t)}' outside the None-test "
                        f"grammar")


def _is_complement(e, other: str, mat: str) -> bool:
    """np.setdiff1d(np.arange(<mat>.shape[0], ...), <other>)"""
    if not (isinstance(e, ast.Call) and len(e.args) == 2):
        return False
    return (src(e.func) in ("np.setdiff1d", "numpy.setdiff1d")
            and isinstance(e.args[0], ast.Call)
            and src(e.args[0].func) in ("np.arange", "numpy.arange")
            and e.args[0].args
            and src(e.args[0].args[0]) == f"{mat}.shape[0]"
            and src(e.args[1]) == other)


def _r2(model, rep):
    R2 = "C05-R2"
    fn = model.func(U, "_init_bc")
    params = fn.params()
    if params[:5] != ["A", "b", "x", "I", "D"]:
        raise AnalysisError(f"_init_bc signature changed: {params}")
    chain = [s for s in fn.node.body if isinstance(s, ast.If)
             and {"I", "D"} <= {n.id for n in ast.walk(s.test)
                                if isinstance(n, ast.Name)}]
    if len(chain) != 1:
        raise AnalysisError("_init_bc: the I/D decision chain not found")
    # flatten the if/elif/else chain
    branches = []
    node = chain[0]
    while True:
        branches.append((node.test, node.body))
        if len(node.orelse) == 1 and isinstance(node.orelse[0], ast.If):
            node = node.orelse[0]
        else:
            branches.append((None, node.orelse))
            break
    for i_none in (True, False):
        for d_none in (True, False):
            env = {"I": i_none, "D": d_none}
            body = None
            for t, b in branches:
                if t is None or _eval_none_test(t, env):
                    body = b
                    break
            case = f"I {'missing' if i_none else 'given'}, " \
                   f"D {'missing' if d_none else 'given'}"
            cons = f"_init_bc:case[{case}]"
            raises = bool(body) and isinstance(body[-1], ast.Raise)
            if i_none == d_none:
                if raises:
                    rep.ok(R2, cons, "illegal combination raises")
                else:
                    rep.fail(R2, F, "_init_bc", cons,
                             f"the illegal combination ({case}) does not "
                             f"raise", chain[0].lineno)
                continue
            missing, given = ("I", "D") if i_none else ("D", "I")
            asg = [s for s in (body or []) if isinstance(s, ast.Assign)
                   and src(s.targets[0]) == missing]
            if raises or len(asg) != 1:
                rep.fail(R2, F, "_init_bc", cons,
                         f"with {case} the set {missing} is not computed",
                         chain[0].lineno)
            elif _is_complement(asg[0].value, given, "A"):
                rep.ok(R2, cons, f"{missing} = complement of {given} in "
                       f"range(A.shape[0])", sample=True)
            else:
                v = asg[0].value
                known = isinstance(v, ast.Call) and src(v.func) in (
                    "np.setdiff1d", "numpy.setdiff1d", "np.union1d",
                    "np.intersect1d")
                if known or isinstance(v, ast.Name):
                    rep.fail(R2, F, "_init_bc", cons,
                             f"{missing} = {src(v)[:70]} is not the "
                             f"complement of {given} in range(A.shape[0])",
                             asg[0].lineno)
                else:
                    raise AnalysisError(f"_init_bc: complement idiom "
                                        f"'{src(v)[:60]}' not in the table")
    # the normalised index sets must be repeat-free: A[I][:, D] @ x[D]
    # counts a repeated D twice, A[I][:, I] with a repeated I is singular
    ff = model.func(U, "_flatten_dofs")
    fl = model.cls("skfem.assembly.dofs", "DofsView").methods["flatten"]
    fl_unique = all(isinstance(r.value, ast.Call) and model.dotted(
        fl.module, r.value.func) == "numpy.unique"
        for r in walk_no_nested(fl.node) if isinstance(r, ast.Return))
    nret = 0
    for r in walk_no_nested(ff.node):
        if not isinstance(r, ast.Return) or r.value is None:
            continue
        v = r.value
        if isinstance(v, ast.Constant) and v.value is None:
            continue
        nret += 1
        cons = f"_flatten_dofs:return[{src(v)[:30]}]"
        if isinstance(v, ast.Name):
            rep.ok(R2, cons, "an index array is passed through as given")
        elif isinstance(v, ast.Call) and model.dotted(ff.module, v.func) in (
                "numpy.unique", "numpy.union1d"):
            rep.ok(R2, cons, "several collections are merged through "
                   "np.unique: no index is listed twice")
        elif isinstance(v, ast.Call) and isinstance(v.func, ast.Attribute) \
                and v.func.attr == "flatten" and fl_unique:
            rep.ok(R2, cons, "DofsView.flatten() returns np.unique(...)")
        elif isinstance(v, ast.Call) and model.dotted(ff.module, v.func) in (
                "numpy.concatenate", "numpy.hstack", "numpy.append"):
            rep.fail(R2, F, "_flatten_dofs", cons,
                     f"'{src(v)[:60]}' joins several DOF collections without "
                     f"removing repeats: a DOF contained in two of them "
                     f"(a corner shared by two named boundaries) is listed "
                     f"twice, so condense subtracts its column twice and a "
                     f"kept set with repeats gives a singular block",
                     r.lineno)
        else:
            raise AnalysisError(f"_flatten_dofs: return '{src(v)[:50]}' "
                                f"not in the idiom table")
    if nret < 3:
        raise AnalysisError("_flatten_dofs: fewer than three non-None "
                            "returns")
    # the return tuple and the call sites
    rets = [n for n in walk_no_nested(fn.node) if isinstance(n, ast.Return)]
    if len(rets) != 1 or not isinstance(rets[0].value, ast.Tuple):
        raise AnalysisError("_init_bc: single tuple return expected")
    ret_names = [src(e) for e in rets[0].value.elts]
    if not all(n in params for n in ret_names):
        raise AnalysisError(f"_init_bc returns non-parameters {ret_names}")
    ncalls = 0
    for caller in ("enforce", "penalize", "condense"):
        cf = model.func(U, caller)
        for n in walk_no_nested(cf.node):
            if isinstance(n, ast.Assign) and isinstance(n.value, ast.Call) \
                    and src(n.value.func) == "_init_bc":
                ncalls += 1
                call = n.value
                passed = {}
                for p, a in zip(params, call.args):
                    passed[p] = src(a)
                for k in call.keywords:
                    passed[k.arg] = src(k.value)
                tg = n.targets[0]
                cons = f"{caller}:_init_bc-unpack"
                if not isinstance(tg, ast.Tuple) or \
                        len(tg.elts) != len(ret_names):
                    rep.fail(R2, F, caller, cons,
                             "the normalised tuple is not unpacked into as "
                             "many names as _init_bc returns", n.lineno)
                    continue
                wrong = [(src(t), passed.get(rn), rn)
                         for t, rn in zip(tg.elts, ret_names)
                         if passed.get(rn) != src(t)]
                if wrong:
                    t, p, rn = wrong[0]
                    rep.fail(R2, F, caller, cons,
                             f"position of '{rn}' in _init_bc's result is "
                             f"bound to '{t}', but '{p}' was passed as "
                             f"{rn}: the roles of the returned arrays are "
                             f"permuted", n.lineno)
                else:
                    rep.ok(R2, cons, f"result {tuple(ret_names)} is rebound "
                           f"to the variables passed in those roles")
    if ncalls < 3:
        raise AnalysisError(f"{ncalls} call sites of _init_bc, 3 expected")


# ----------------------------------------------------------------------
def _sub(e):
    """``A[I][:, D]`` -> ('A', 'I', 'D');  ``b[I]`` -> ('b', 'I', None);
    ``x[D]`` likewise."""
    if not isinstance(e, ast.Subscript):
        return None
    inner = e.value
    if isinstance(inner, ast.Subscript) and isinstance(inner.value, ast.Name):
        # A[R][:, C]
        sl = e.slice
        if isinstance(sl, ast.Tuple) and len(sl.elts) == 2 and isinstance(
                sl.elts[0], ast.Slice) and isinstance(sl.elts[1], ast.Name):
            if isinstance(inner.slice, ast.Name):
                return inner.value.id, inner.slice.id, sl.elts[1].id
        return None
    if isinstance(inner, ast.Name) and isinstance(e.slice, ast.Name):
        return inner.id, e.slice.id, None
    return None


def _assigns(fn: FuncInfo, name: str) -> List[ast.Assign]:
    return [n for n in walk_no_nested(fn.node) if isinstance(n, ast.Assign)
            and any(src(t) == name for t in n.targets)]


class _Mat:
    """matrix / vector stub recording row and column selections"""
    def __init__(self, name, kind, rows=None, cols=None):
        self.name, self.kind, self.rows, self.cols = name, kind, rows, cols
        self.skv_types = ({"scipy.sparse.spmatrix"} if kind == "sparse"
                          else {"numpy.ndarray"})
        self.skv_isarray = kind != "sparse"

    def skv_getitem(self, ix):
        if isinstance(ix, tuple) and len(ix) == 2 and isinstance(
                ix[0], slice) and ix[0] == slice(None):
            return _Mat(self.name, self.kind, self.rows, ix[1])
        return _Mat(self.name, self.kind, ix, self.cols)

    def skv_binop(self, op, other, reflected):
        a, b = (other, self) if reflected else (self, other)
        name = {ast.MatMult: "@", ast.Sub: "-", ast.Add: "+"}.get(type(op))
        if name is None:
            raise Unsupported("operator on a matrix stub")
        return ("op", name, a, b)

    def skv_getattr(self, name):
        if name == "copy":
            return PyFunc(lambda a, k, n: ("copy", self))
        if name == "shape":
            return (Poly.sym("N"), Poly.sym("N"))
        if name == "format" and self.kind == "sparse":
            return "csr"          # an indexable format: no conversion
        if name in ("tocsr", "tocsc") and self.kind == "sparse":
            return PyFunc(lambda a, k, n: self)   # same matrix
        raise Unsupported(f"matrix attribute {name}")

    def sig(self):
        return (self.name, self.rows, self.cols)


def _sig(v):
    if isinstance(v, _Mat):
        return v.sig()
    if isinstance(v, tuple):
        return tuple(_sig(x) for x in v)
    return v


def _r3(model, rep):
    R3 = "C05-R3"
    # ---- condense: symbolic run for the three kinds of right-hand side
    fn = model.func(U, "condense")

    def run_condense(bkind, expand=True):
        A = _Mat("A", "sparse")
        b = None if bkind is None else _Mat("b", bkind)
        x = _Mat("x", "dense")
        it = Interp(model)
        it.overrides[f"{U}._init_bc"] = PyFunc(
            lambda a, k, n: (b, x, "I", "D"))
        try:
            return it.call(fn, [A, b, x], {"I": "I", "D": "D",
                                           "expand": expand})
        except (Unsupported, Raised) as e:
            raise AnalysisError(f"condense[{bkind}]: {e}")
    want_A = ("A", "I", "I")
    r = run_condense("dense")
    ok = (isinstance(r, tuple) and len(r) == 4 and _sig(r[0]) == want_A
          and _sig(r[1]) == ("op", "-", ("b", "I", None),
                             ("op", "@", ("A", "I", "D"), ("x", "D", None)))
          and _sig(r[2]) == ("x", None, None) and r[3] == "I")
    _verdict(rep, R3, ok, "condense[vector]",
             "returns (A[I][:, I], b[I] - A[I][:, D] @ x[D], x, I)",
             "condense",
             f"condense returns {_sig(r)}; expected the kept block "
             f"A[I][:, I], the reduced load b[I] - A[I][:, D] @ x[D] and "
             f"the expansion data (x, I)", fn.lineno)
    r = run_condense("sparse")
    ok = (isinstance(r, tuple) and len(r) == 4 and _sig(r[0]) == want_A
          and _sig(r[1]) == ("b", "I", "I") and r[3] == "I")
    _verdict(rep, R3, ok, "condense[matrix rhs]",
             "mass matrix reduced to b[I][:, I]", "condense",
             f"with a matrix right-hand side condense returns {_sig(r)}; "
             f"both matrices must be reduced to the kept block", fn.lineno)
    r = run_condense(None)
    ok = isinstance(r, tuple) and len(r) == 3 and _sig(r[0]) == want_A \
        and r[2] == "I"
    _verdict(rep, R3, ok, "condense[no rhs]", "returns (A[I][:, I], x, I)",
             "condense", f"without right-hand side condense returns "
             f"{_sig(r)}", fn.lineno)
    r = run_condense("dense", expand=False)
    ok = isinstance(r, tuple) and len(r) == 2 and _sig(r[0]) == want_A
    _verdict(rep, R3, ok, "condense[expand=False]",
             "returns the condensed system only", "condense",
             f"expand=False returns {_sig(r)}", fn.lineno)
    # ---- expansion in solve_linear / solve_eigen
    for name in ("solve_linear", "solve_eigen"):
        f2 = model.func(U, name)
        log = []

        class Y:
            skv_isarray = True

            def __init__(self, base):
                self.base = base

            def skv_setitem(self, ix, v):
                log.append(("set", ix, v))

            def skv_getitem(self, ix):
                # x[:, None]: the same values with an extra axis
                return self

        class XV:
            skv_isarray = True

            def skv_getattr(self, nm):
                if nm == "copy":
                    return PyFunc(lambda a, k, n: Y("copy-of-x"))
                if nm == "astype":
                    # astype copies unless copy=False is passed
                    return PyFunc(lambda a, k, n: Y("copy-of-x")
                                  if k.get("copy", True) is not False
                                  else self)
                raise Unsupported("x." + nm)

        def hook(interp, nm, args, kwargs, node):
            if nm in ("numpy.result_type", "numpy.promote_types"):
                return "DT"
            if nm == "numpy.tile":
                return args[0]
            if nm == "numpy.add.at":
                log.append(("add.at", args[0], args[1]))
                return None
            # real modes delivered in a complex array are taken as real: the
            # same solution (both outcomes of the test are run)
            if nm == "numpy.isrealobj":
                return real_case[0]
            if nm == "numpy.iscomplexobj":
                return True
            if nm in ("numpy.imag", "numpy.real"):
                return args[0]
            if nm == "numpy.any":
                return False
            return NotImplemented
        real_case = [False]

        class SolX:
            skv_isarray = True

            def skv_getattr(self, nm):
                if nm == "shape":
                    return (Poly.sym("n"), Poly.sym("k"))
                if nm == "T":
                    return self
                raise Unsupported("X." + nm)
        solver = PyFunc(lambda a, k, n: ("L", SolX()) if name ==
                        "solve_eigen" else "SOL")
        xs = XV()
        args = ["A", "b", xs, "I", solver]
        try:
            it = Interp(model, call_hook=hook)
            r = it.call(f2, args, {})
            if name == "solve_eigen":
                n0 = len(log)
                real_case[0] = True
                r2 = Interp(model, call_hook=hook).call(f2, args, {})
                second = [e_ for e_ in log[n0:] if e_[0] == "set"]
                if not (isinstance(r2, tuple) and isinstance(r2[1], Y)
                        and len(second) == 1 and second[0][1] == "I"):
                    r = ("L", None)
                del log[n0:]
        except (Unsupported, Raised) as e:
            # eigen variant needs X.shape; fall back to the structural form
            r = None
        stores = [e_ for e_ in log if e_[0] == "set"]
        if r is not None:
            y = r[1] if isinstance(r, tuple) else r
            ok = (isinstance(y, Y) and len(stores) == 1
                  and stores[0][1] == "I")
            _verdict(rep, R3, ok, f"{name}:expansion",
                     "y = copy of x; y[I] = solution; constrained entries "
                     "keep the prescribed values", name,
                     f"expansion writes {stores} into {type(y).__name__}: "
                     f"the solution must go to y[I] of a copy of x",
                     f2.lineno)
        else:
            ys = _assigns(f2, "y")
            sto = [n for n in walk_no_nested(f2.node)
                   if isinstance(n, ast.Assign)
                   and isinstance(n.targets[0], ast.Subscript)
                   and src(n.targets[0].value) == "y"]
            ok = (len(ys) == 1 and "x.copy()" in src(ys[0].value)
                  and len(sto) == 1
                  and src(sto[0].targets[0].slice) == "I")
            _verdict(rep, R3, ok, f"{name}:expansion",
                     "y built from a copy of x; y[I] = solution", name,
                     "expansion does not write the solution at I into a "
                     "copy of x", f2.lineno)
    # ---- enforce / penalize
    fn = model.func(U, "enforce")
    checks = []
    stores = [n for n in walk_no_nested(fn.node) if isinstance(n, ast.Assign)
              and isinstance(n.targets[0], ast.Subscript)]
    dD = [n for n in stores if src(n.targets[0]) == "d[D]"]
    bD = [n for n in stores if src(n.targets[0].value) == "bout"]
    st_sp = [n for n in _assigns(fn, "start") + _assigns(fn, "stop")]
    rows_ok = len(st_sp) == 2 and {src(n.value) for n in st_sp} == \
        {"Aout.indptr[D]", "Aout.indptr[D + 1]"}
    _verdict(rep, R3, rows_ok, "enforce:rows", "rows to clear are the CSR "
             "ranges indptr[D] .. indptr[D + 1]", "enforce",
             "the cleared entries are not the CSR ranges of the rows D",
             fn.lineno)
    _verdict(rep, R3, len(dD) == 1 and src(dD[0].value) == "diag",
             "enforce:diagonal", "d[D] = diag then setdiag(d)", "enforce",
             "the diagonal of the constrained rows is not set to diag",
             fn.lineno)
    _verdict(rep, R3, len(bD) == 1 and src(bD[0].targets[0].slice) == "D"
             and src(bD[0].value) == "x[D]", "enforce:rhs",
             "bout[D] = x[D]", "enforce",
             f"right-hand side of the constrained rows is "
             f"{src(bD[0]) if bD else 'not set'}, expected bout[D] = x[D]",
             fn.lineno)
    rec = [n for n in walk_no_nested(fn.node) if isinstance(n, ast.Call)
           and src(n.func) == "enforce"]
    kw = {k.arg: src(k.value) for k in rec[0].keywords} if rec else {}
    _verdict(rep, R3, len(rec) == 1 and src(rec[0].args[0]) == "b"
             and kw.get("D") == "D" and float(kw.get("diag", "1")) == 0.0
             and kw.get("overwrite") == "overwrite", "enforce:mass-matrix",
             "matrix right-hand side: same rows D cleared with diag=0, "
             "overwrite forwarded", "enforce",
             "a matrix right-hand side is not reduced consistently "
             "(rows D, diag=0, overwrite forwarded)", fn.lineno)
    fn = model.func(U, "penalize")
    _penalize_run(model, rep, fn)
    _penalty_is_scalar(model, rep)


def _penalize_run(model, rep, fn):
    """symbolic run of penalize with an explicit epsilon: what is stored
    where, in which object"""
    R3 = "C05-R3"
    eps = Poly.sym("eps")

    class Vec:
        skv_isarray = True
        skv_types = ("numpy.ndarray",)

        def __init__(self, name, fresh):
            self.name, self.fresh, self.stores = name, fresh, []

        def skv_getitem(self, ix):
            return ("at", self.name, ix)

        def skv_setitem(self, ix, v):
            self.stores.append((ix, v))

        def skv_getattr(self, nm):
            if nm == "copy" or nm == "astype":
                return PyFunc(lambda a, k, n: Vec("copy of " + self.name,
                                                  True))
            raise Unsupported(f"{self.name}.{nm}")

    class Mat:
        skv_types = ("scipy.sparse.spmatrix",)

        def __init__(self, name, fresh):
            self.name, self.fresh, self.diag = name, fresh, None
            self.d = Vec("diag of " + name, True)

        def skv_getattr(self, nm):
            if nm == "copy":
                return PyFunc(lambda a, k, n: Mat("copy of " + self.name,
                                                  True))
            if nm == "diagonal":
                return PyFunc(lambda a, k, n: self.d)
            if nm == "setdiag":
                def sd(a, k, n):
                    self.diag = a[0]
                return PyFunc(sd)
            if nm == "format":
                return "csr"      # a format with setdiag / indexing
            raise Unsupported(f"{self.name}.{nm}")

    class Ix:
        skv_isarray = True

        def __init__(self, name):
            self.name = name

        def __repr__(self):
            return self.name
    DS, IS = Ix("D"), Ix("I")

    def quot(v):
        """(numerator description, denominator) of x / eps spelled anyhow"""
        if isinstance(v, tuple) and v and v[0] == "quot":
            return v[1], v[2]
        return None
    for ow in (False, True):
        A, b, x = Mat("A", False), Vec("b", False), Vec("x", False)

        class XAt:
            """x[D] / eps"""
            pass
        x.skv_getitem = None

        class XV(Vec):
            def skv_getitem(self, ix):
                return XD(ix)

        class XD:
            skv_isarray = True

            def __init__(self, ix):
                self.ix = ix

            def skv_binop(self, op, other, reflected):
                if isinstance(op, ast.Div) and not reflected:
                    return ("quot", self.ix, other)
                if isinstance(op, ast.Mult):
                    o = other
                    if isinstance(o, Rat) and o.n == Poly.const(1):
                        return ("quot", self.ix, o.d)
                    if isinstance(o, tuple) and o and o[0] == "recip":
                        return ("quot", self.ix, o[1])
                raise Unsupported("arithmetic on x[D]")
        x = XV("x", False)
        def phook(interp, nm, args, kwargs, node):
            if nm in ("numpy.result_type", "numpy.promote_types"):
                return "DT"
            return NotImplemented
        try:
            it = Interp(model, call_hook=phook)
            it.overrides[f"{U}._init_bc"] = PyFunc(
                lambda a, k, n: (a[1], a[2], IS, DS))
            r = it.call(fn, [A, b, x, None, Ix("Dgiven"), eps, ow], {})
        except (Unsupported, Raised) as e:
            raise AnalysisError(f"penalize(overwrite={ow}): {e}")
        if not (isinstance(r, tuple) and len(r) == 2):
            raise AnalysisError("penalize: (matrix, rhs) not returned")
        Aout, bout = r
        tag = f"[overwrite={ow}]"
        okA = isinstance(Aout, Mat) and Aout.fresh != ow and \
            Aout.diag is Aout.d and len(Aout.d.stores) == 1 and \
            Aout.d.stores[0][0] is DS
        val = Aout.d.stores[0][1] if okA else None
        okv = okA and ((isinstance(val, Rat) and val.n * eps == val.d)
                       or (isinstance(val, Poly) and False))
        _verdict(rep, R3, bool(okv), "penalize:diagonal" + tag,
                 "diagonal at D set to 1/epsilon on "
                 + ("the operand itself" if ow else "a copy"), "penalize",
                 f"the penalised diagonal is not 1/epsilon at D written "
                 f"back to {'A' if ow else 'a copy of A'} (got {val!r})",
                 fn.lineno)
        okb = isinstance(bout, Vec) and bout.fresh != ow and \
            len(bout.stores) == 1 and bout.stores[0][0] is DS
        q = quot(bout.stores[0][1]) if okb else None
        okq = q is not None and q[0] is DS and q[1] == eps
        _verdict(rep, R3, bool(okq), "penalize:rhs" + tag,
                 "rhs at D set to x[D]/epsilon on "
                 + ("the operand itself" if ow else "a copy"), "penalize",
                 f"the penalised right-hand side is not x[D]/epsilon at D "
                 f"of {'b' if ow else 'a copy of b'}", fn.lineno)


def _rank(e, ranks) -> Optional[int]:
    """array rank of an expression (0 = scalar), None if unknown"""
    if isinstance(e, ast.Constant):
        return 0
    if isinstance(e, ast.Name):
        return ranks.get(e.id)
    if isinstance(e, ast.BinOp):
        l, r = _rank(e.left, ranks), _rank(e.right, ranks)
        return None if l is None or r is None else max(l, r)
    if isinstance(e, ast.UnaryOp):
        return _rank(e.operand, ranks)
    if isinstance(e, ast.Subscript):
        b = _rank(e.value, ranks)
        i = _rank(e.slice, ranks)
        if b is None:
            return None
        if isinstance(e.slice, ast.Constant) and isinstance(
                e.slice.value, int):
            return max(b - 1, 0)
        return b if i in (1, None) else b
    if isinstance(e, ast.Call):
        f = src(e.func)
        if f in ("np.linalg.norm", "np.max", "np.min", "np.amax", "np.sum",
                 "np.mean", "max", "min", "float") and not any(
                     k.arg == "axis" for k in e.keywords):
            return 0
        if f in ("np.abs", "np.sqrt", "np.asarray", "np.array", "abs",
                 "np.maximum", "np.minimum", "np.ones_like"):
            rs = [_rank(a, ranks) for a in e.args]
            return None if any(r is None for r in rs) else max(rs)
        if isinstance(e.func, ast.Attribute):
            if e.func.attr in ("max", "min", "sum", "mean", "item") and \
                    not e.args and not e.keywords:
                return 0
            if e.func.attr in ("astype", "copy", "flatten"):
                return _rank(e.func.value, ranks)
            if e.func.attr == "diagonal":
                return 1
    return None


def _penalty_is_scalar(model, rep):
    """the default penalty of penalize() is one number for all constrained
    DOFs (a reduction over the constrained diagonal), as the documented
    scalar parameter is; a per-row default gives rows with a zero or
    unstored diagonal an infinite epsilon, i.e. no constraint at all"""
    fn = model.func(U, "penalize")
    ranks = {"D": 1, "I": 1}
    for st in sorted([n for n in walk_no_nested(fn.node)
                      if isinstance(n, ast.Assign)],
                     key=lambda n: n.lineno):
        if len(st.targets) == 1 and isinstance(st.targets[0], ast.Name) \
                and st.targets[0].id != "epsilon":
            r = _rank(st.value, ranks)
            if r is not None:
                ranks[st.targets[0].id] = r
    eps = [n for n in ast.walk(fn.node) if isinstance(n, ast.Assign)
           and len(n.targets) == 1 and src(n.targets[0]) == "epsilon"]
    if len(eps) != 1:
        raise AnalysisError(f"penalize: {len(eps)} default assignments of "
                            f"epsilon, 1 expected")
    r = _rank(eps[0].value, ranks)
    if r is None:
        raise AnalysisError(f"penalize: rank of '{src(eps[0].value)[:60]}' "
                            f"not determined")
    _verdict(rep, "C05-R3", r == 0, "penalize:epsilon-scalar",
             "default epsilon is a single number (reduction over the "
             "constrained diagonal)", "penalize",
             f"the default epsilon '{src(eps[0].value)[:60]}' is an array "
             f"with one entry per constrained DOF: a constrained row whose "
             f"diagonal is zero or not stored gets epsilon = inf, hence a "
             f"zero penalty - its prescribed value is ignored",
             eps[0].lineno)


def _r5(model, rep):
    """(b) no helper decides anything by comparing operand values with an
    absolute tolerance (np.allclose / np.isclose against a constant):
    whether a prescribed value counts would depend on the units of the data.
    (The former part (a) - "the vector allocated for an omitted x has the
    dtype of the system" - was withdrawn: since the expansion buffers are
    allocated in a common type of x and the solution, obligation
    holds-stored-values of _lossy_stores, the dtype of the default x is
    immaterial, and demanding it reported a change that leaves the
    behaviour intact - seed C05-5 on the repaired tree.)"""
    R5 = "C05-R5"
    for name in dict.fromkeys(BC_FUNCS + ["_init_bc"]):
        try:
            fn = model.func(U, name)
        except AnalysisError:
            continue
        params = set(fn.params())
        for node in walk_no_nested(fn.node):
            # (b)
            if isinstance(node, ast.Call) and src(node.func) in (
                    "np.allclose", "np.isclose", "numpy.allclose",
                    "numpy.isclose", "math.isclose"):
                names = {x_.id for a in node.args for x_ in ast.walk(a)
                         if isinstance(x_, ast.Name)}
                if names & params:
                    rep.fail(R5, F, name,
                             f"{name}:tolerance:{src(node)[:40]}",
                             f"'{src(node)[:60]}' compares operand values "
                             f"with an absolute tolerance (default atol "
                             f"1e-8): prescribed values that are small in "
                             f"the units of the problem are treated as "
                             f"zero and the kept equations are no longer "
                             f"satisfied", node.lineno)
    rep.ok(R5, "bc-helpers:no-absolute-tolerance",
           "no np.allclose / np.isclose on operand values in the boundary "
           "condition helpers")


def _lossy_stores(model, rep):
    """(c) A buffer that is a copy of one operand takes that operand's
    dtype; numpy casts whatever is stored into it *silently*.  Every item
    store of an array value that does not come from the same operand - the
    solver's result, the prescribed values x - needs the buffer allocated in
    a common type (np.result_type / np.promote_types in its definition).
    Scalars (constants, parameters annotated float) are exempt.  Engine:
    skv/dtypeflow.py."""
    from ..dtypeflow import lossy_store_sites
    R5 = "C05-R5"
    nstores = 0
    for name in dict.fromkeys(BC_FUNCS):
        try:
            fn = model.func(U, name)
        except AnalysisError:
            continue
        seen = set()
        for buf, own, who, d, node, wide in lossy_store_sites(
                fn.node, fn.params()):
            nstores += 1
            cons = f"{name}:{buf}:holds-stored-values"
            if cons in seen:
                continue
            seen.add(cons)
            if wide:
                rep.ok(R5, cons, f"'{buf}' is allocated in a common type of "
                                 f"'{own}' and what is stored into it")
            else:
                rep.fail(R5, F, name, cons,
                         f"'{src(d)[:60]}' gives '{buf}' the dtype of "
                         f"'{own}', then '{src(node)[:50]}' stores values "
                         f"from {who}: numpy casts them to that dtype "
                         f"silently (a float solution into an integer x is "
                         f"truncated, complex values into a real vector "
                         f"lose their imaginary part) and the result no "
                         f"longer satisfies the equations", node.lineno)
    from ..dtypeflow import quotient_store_sites
    nq = 0
    for name in dict.fromkeys(BC_FUNCS):
        try:
            fn = model.func(U, name)
        except AnalysisError:
            continue
        for buf, own, d, node, floating in quotient_store_sites(
                fn.node, fn.params()):
            nq += 1
            cons = f"{name}:{buf}:holds-quotients"
            if floating:
                rep.ok(R5, cons, f"'{buf}' is allocated in a floating common "
                                 f"type before '{src(node)[:40]}'")
            else:
                rep.fail(R5, F, name, cons,
                         f"'{src(node)[:50]}' stores a quotient - a floating "
                         f"value whatever the operands are - into '{buf}', "
                         f"which '{src(d)[:60]}' gives a common type of its "
                         f"operands only: integer prescribed values and an "
                         f"integer (or omitted) right-hand side make it an "
                         f"integer array and the penalised entries are "
                         f"truncated or overflow", node.lineno)
    # the right-hand side allocated for an omitted b is handed to the same
    # stores (penalize with overwrite=True keeps it): it must be floating
    ib = model.func(U, "_init_bc")
    allocs = [n_ for n_ in walk_no_nested(ib.node) if isinstance(n_, ast.Assign)
              and len(n_.targets) == 1 and src(n_.targets[0]) == "b"
              and isinstance(n_.value, ast.Call)
              and src(n_.value.func).split(".")[-1] in (
                  "zeros", "zeros_like", "empty", "empty_like", "ones",
                  "ones_like", "full", "full_like")]
    if len(allocs) != 1:
        raise AnalysisError(f"_init_bc: {len(allocs)} allocations of the "
                            f"default right-hand side")
    al = allocs[0]
    dt = [k.value for k in al.value.keywords if k.arg == "dtype"]
    from ..dtypeflow import FLOAT_MARKS
    flo = bool(dt) and any(src(y) in FLOAT_MARKS or (
        isinstance(y, ast.Constant) and isinstance(y.value, float))
        for y in ast.walk(dt[0]))
    cons = "_init_bc:default-b:floating"
    if flo:
        rep.ok(R5, cons, f"omitted b allocated as {src(dt[0])[:50]}")
    else:
        rep.fail(R5, F, "_init_bc", cons,
                 f"'{src(al)[:60]}' gives the right-hand side built for an "
                 f"omitted b the dtype of x: for integer prescribed values "
                 f"an integer array, which penalize(..., overwrite=True) "
                 f"keeps and stores x[D] / epsilon into (overflow to "
                 f"-9223372036854775808)", al.lineno)
    if nq < 1:
        raise AnalysisError("no store of a quotient into an operand copy "
                            "found in the boundary condition helpers "
                            "(penalize: bout[D] = x[D] / epsilon confirmed "
                            "by hand)")
    if nstores < 4:
        raise AnalysisError(f"only {nstores} stores of foreign values into "
                            f"operand copies found in the boundary "
                            f"condition helpers, 4 confirmed by hand")


def _constrained_set_repeat_free(model, rep):
    """condense contracts over the constrained set (A[I][:, D] @ x[D]): an
    index listed twice is subtracted twice.  enforce / penalize only store
    per index, so a repeated index is harmless there - the siblings would
    disagree.  A user-supplied index array may list an index twice
    (np.hstack of the DOFs of four sides lists the corners twice), so the D
    that _init_bc hands out must be normalised on every path: _init_bc is
    interpreted with D given as an array with repeats, as a view and as a
    dictionary of views."""
    R2 = "C05-R2"
    fn = model.func(U, "_init_bc")

    class Ix:
        skv_isarray = True

        def __init__(self, name, unique, types=("numpy.ndarray",)):
            self.name, self.unique, self.skv_types = name, unique, types

        def skv_getattr(self, nm):
            if nm == "flatten" and "skfem.assembly.dofs.DofsView" in \
                    self.skv_types:
                # DofsView.flatten returns np.unique(...) (checked above)
                return PyFunc(lambda a, k, n: Ix(f"flatten({self.name})",
                                                 True))
            if nm == "shape":
                return (Poly.sym("n"),)
            if nm == "dtype":
                return "DT"
            raise Unsupported(f"{self.name}.{nm}")

    def hook(interp, name, args, kwargs, node):
        if name in ("numpy.unique", "numpy.union1d", "numpy.setdiff1d",
                    "numpy.intersect1d"):
            return Ix(f"{name.split('.')[-1]}(...)", True)
        if name == "numpy.arange":
            return Ix("arange", True)
        if name in ("numpy.concatenate", "numpy.hstack"):
            return Ix("joined", False)
        if name in ("numpy.zeros", "numpy.zeros_like"):
            return Ix("zeros", False)
        if name in ("numpy.sort",) and isinstance(args[0], Ix):
            return Ix(f"sort({args[0].name})", args[0].unique)
        return NotImplemented

    class AM:
        skv_types = ("scipy.sparse.spmatrix",)

        def skv_getattr(self, nm):
            if nm == "shape":
                return (Poly.sym("n"), Poly.sym("n"))
            if nm == "dtype":
                return "DT"
            raise Unsupported("A." + nm)
    vcls = model.cls("skfem.assembly.dofs", "DofsView")

    def view(nm):
        # DofsView.flatten returns np.unique(...) (checked above)
        return Obj(vcls, {"flatten": PyFunc(
            lambda a, k, n: Ix(f"flatten({nm})", True))})
    cases = [("index array", lambda: Ix("user array", False)),
             ("DofsView", lambda: view("view")),
             ("dict of views", lambda: {"a": view("view a"),
                                        "b": view("view b")})]
    for label, mk in cases:
        try:
            r = Interp(model, call_hook=hook).call(
                fn, [AM(), Ix("b", False), Ix("x", False), None, mk()], {})
        except (Unsupported, Raised) as e:
            raise AnalysisError(f"_init_bc(D={label}): {e}")
        D = r[3] if isinstance(r, tuple) and len(r) == 4 else None
        if not isinstance(D, Ix):
            raise AnalysisError(f"_init_bc(D={label}): returned {r!r}")
        cons = f"_init_bc:D-repeat-free[{label}]"
        if D.unique:
            rep.ok(R2, cons, f"the constrained set handed out is {D.name}: "
                             f"no index is listed twice")
        else:
            rep.fail(R2, F, "_init_bc", cons,
                     f"D given as {label} is handed out as '{D.name}' - "
                     f"with the repeats it was given with; condense "
                     f"subtracts A[I][:, D] @ x[D], i.e. the column of a "
                     f"repeated index twice, while enforce / penalize treat "
                     f"D as a set (normalise with np.unique)", fn.lineno)


def _storage_format(model, rep):
    """enforce zeroes rows through the raw CSR arrays (indptr / data).  The
    same arrays of a CSC matrix (A.T of any assembled matrix, A.tocsc())
    describe *columns*: the arithmetic then wipes the columns of D in the
    kept rows and leaves the constrained rows standing, silently.  Every
    read of .indptr / .indices of a matrix that comes from a parameter needs
    its format established first: a .tocsr() in its definition chain, or a
    test of .format / isspmatrix_csr earlier in the function."""
    R3 = "C05-R3"
    n = 0
    for name in dict.fromkeys(BC_FUNCS):
        try:
            fn = model.func(U, name)
        except AnalysisError:
            continue
        params = set(fn.params())
        defs: Dict[str, List[ast.Assign]] = {}
        for x in walk_no_nested(fn.node):
            if isinstance(x, ast.Assign):
                for t in x.targets:
                    if isinstance(t, ast.Name):
                        defs.setdefault(t.id, []).append(x)
        seen = set()
        for x in walk_no_nested(fn.node):
            if not (isinstance(x, ast.Attribute) and x.attr in (
                    "indptr", "indices") and isinstance(x.value, ast.Name)):
                continue
            nm = x.value.id
            chain, todo, from_param = [], [nm], False
            while todo:
                c = todo.pop()
                if c in params:
                    from_param = True
                for d in defs.get(c, []):
                    if d.lineno < x.lineno and d not in chain:
                        chain.append(d)
                        todo += [y.id for y in ast.walk(d.value)
                                 if isinstance(y, ast.Name) and y.id != c]
            if not from_param or nm in seen:
                continue
            seen.add(nm)
            n += 1
            conv = any(isinstance(c, ast.Call) and ((isinstance(
                c.func, ast.Attribute) and c.func.attr == "tocsr")
                or src(c.func).split(".")[-1] in ("csr_matrix",
                                                  "csr_array"))
                for d in chain for c in ast.walk(d.value))
            tested = any(
                (isinstance(y, ast.Attribute) and y.attr in (
                    "format", "getformat")) or (
                    isinstance(y, ast.Call) and src(y.func).split(".")[-1]
                    in ("isspmatrix_csr", "getformat"))
                for y in walk_no_nested(fn.node)
                if getattr(y, "lineno", 10 ** 9) < x.lineno)
            cons = f"{name}:{nm}.{x.attr}:csr-established"
            if conv or tested:
                rep.ok(R3, cons, "row-wise (CSR) storage is established "
                       "before the raw index arrays are read")
            else:
                rep.fail(R3, F, name, cons,
                         f"'{nm}.{x.attr}' is read as the row pointer of "
                         f"'{nm}', which is the caller's matrix (or its "
                         f"copy) in whatever format it came: for a CSC "
                         f"matrix (A.T, A.tocsc()) the same arrays describe "
                         f"columns, so the columns of D are zeroed and the "
                         f"constrained rows are left standing",
                         x.lineno)
    if n < 1:
        raise AnalysisError("no raw CSR access found in the boundary "
                            "condition helpers (enforce: confirmed by hand)")
    # format-specific flags: .has_canonical_format / .has_sorted_indices
    # exist for the compressed and COO formats only; LIL, DOK and DIA
    # matrices - which condense and penalize hand on in the format they were
    # given - raise AttributeError.  Every direct read in utils.py (nested
    # solver closures included) needs a conversion in the definition chain;
    # getattr(X, flag, default) is the accepted idiom for "any format".
    nflag = 0
    mod = model.module(U)
    qual = {}

    def name_all(node, prefix):
        for ch in ast.iter_child_nodes(node):
            if isinstance(ch, (ast.FunctionDef, ast.AsyncFunctionDef,
                               ast.ClassDef)):
                qual[id(ch)] = prefix + ch.name
                name_all(ch, prefix + ch.name + ".")
            else:
                name_all(ch, prefix)
    name_all(mod.tree, "")
    for fnode in ast.walk(mod.tree):
        if not isinstance(fnode, (ast.FunctionDef, ast.AsyncFunctionDef)):
            continue
        qn = qual[id(fnode)]
        defs = {}
        for x in walk_no_nested(fnode):
            if isinstance(x, ast.Assign):
                for t in x.targets:
                    if isinstance(t, ast.Name):
                        defs.setdefault(t.id, []).append(x)
        for x in walk_no_nested(fnode):
            if isinstance(x, ast.Call) and src(x.func) == "getattr" and \
                    len(x.args) == 3 and isinstance(
                        x.args[1], ast.Constant) and x.args[1].value in (
                        "has_canonical_format", "has_sorted_indices"):
                nflag += 1
                rep.ok(R3, f"{qn}:{src(x.args[0])}."
                       f"{x.args[1].value}:any-format",
                       "flag read with a default for formats without it")
                continue
            if not (isinstance(x, ast.Attribute) and x.attr in (
                    "has_canonical_format", "has_sorted_indices")
                    and isinstance(x.value, ast.Name)
                    and isinstance(x.ctx, ast.Load)):
                continue
            nflag += 1
            nm = x.value.id
            conv = any(isinstance(c, ast.Call) and isinstance(
                c.func, ast.Attribute) and c.func.attr in (
                "tocsr", "tocsc", "tocoo", "tobsr")
                for d in defs.get(nm, []) if d.lineno <= x.lineno
                for c in ast.walk(d.value))
            cons = f"{qn}:{nm}.{x.attr}:any-format"
            if conv:
                rep.ok(R3, cons, "read after a conversion to a compressed "
                       "format")
            else:
                rep.fail(R3, F, qn, cons,
                         f"'{nm}.{x.attr}' is read from a matrix in whatever "
                         f"format it came: LIL, DOK and DIA matrices (which "
                         f"condense and penalize return as given) have no "
                         f"such attribute and the call raises "
                         f"AttributeError where it used to solve", x.lineno)
    # reductions that not every storage format offers: dia_matrix (and lil /
    # dok for some) has no .max() / .min() - a matrix in the format it came
    # in needs a conversion first
    for name in dict.fromkeys(BC_FUNCS):
        try:
            fn = model.func(U, name)
        except AnalysisError:
            continue
        params = set(fn.params())
        fdefs = {}
        for x in walk_no_nested(fn.node):
            if isinstance(x, ast.Assign) and len(x.targets) == 1 and \
                    isinstance(x.targets[0], ast.Name):
                fdefs.setdefault(x.targets[0].id, []).append(x.value)
        for x in walk_no_nested(fn.node):
            if not (isinstance(x, ast.Call) and isinstance(
                    x.func, ast.Attribute) and x.func.attr in (
                    "max", "min", "argmax", "argmin")):
                continue
            recv = x.func.value
            if isinstance(recv, ast.Call) and src(recv.func) in (
                    "abs", "np.abs") and recv.args:
                recv = recv.args[0]
            names = [recv.id] if isinstance(recv, ast.Name) else []
            conv = isinstance(recv, ast.Call) and isinstance(
                recv.func, ast.Attribute) and recv.func.attr in (
                "tocsr", "tocsc", "tocoo")
            if conv:
                inner = recv.func.value
                names = [inner.id] if isinstance(inner, ast.Name) else []
            # is it (a copy of) the matrix operand?
            def matrix(nm, depth=0):
                if nm == "A":
                    return True
                return depth < 4 and any(
                    isinstance(y, ast.Name) and matrix(y.id, depth + 1)
                    for d_ in fdefs.get(nm, []) for y in ast.walk(d_)
                    if not (isinstance(d_, ast.Call) and isinstance(
                        d_.func, ast.Attribute) and d_.func.attr in (
                        "diagonal", "toarray", "todense")))
            if not names or not matrix(names[0]) or "A" not in params:
                continue
            nflag += 1
            cons = f"{name}:{src(x)[:30]}:any-format"
            if conv:
                rep.ok(R3, cons, "reduction after a conversion to a "
                       "compressed format")
            else:
                rep.fail(R3, F, name, cons,
                         f"'{src(x)[:50]}' reduces the matrix in the format "
                         f"it came in: dia_matrix has no .max(), so the "
                         f"call raises AttributeError for a format the "
                         f"helper otherwise supports", x.lineno)
    # indexing: A[I] exists for CSR, CSC, LIL and DOK only - COO, DIA and BSR
    # (what sp.block_diag, sp.eye / sp.diags and sp.kron return) raise.  A
    # helper that indexes the system matrix needs a conversion or a test of
    # its format first.
    for name in dict.fromkeys(BC_FUNCS):
        try:
            fn = model.func(U, name)
        except AnalysisError:
            continue
        if "A" not in fn.params():
            continue
        subs = [x for x in walk_no_nested(fn.node) if isinstance(
            x, ast.Subscript) and isinstance(x.value, ast.Name)
            and x.value.id == "A" and isinstance(x.ctx, ast.Load)]
        if not subs:
            continue
        first = min(x.lineno for x in subs)
        established = any(
            (isinstance(y, ast.Attribute) and y.attr == "format"
             and src(y.value) == "A")
            or (isinstance(y, ast.Call) and isinstance(y.func, ast.Attribute)
                and y.func.attr in ("tocsr", "tocsc", "tolil")
                and src(y.func.value) == "A")
            for y in walk_no_nested(fn.node)
            if getattr(y, "lineno", 10 ** 9) < first)
        nflag += 1
        cons = f"{name}:A[...]:indexable-format"
        if established:
            rep.ok(R3, cons, "the matrix is converted to (or tested for) an "
                   "indexable format before it is indexed")
        else:
            rep.fail(R3, F, name, cons,
                     f"'{src(subs[0])[:30]}' indexes the system matrix in "
                     f"the format it came in: COO, DIA and BSR matrices "
                     f"(sp.block_diag, sp.eye, sp.diags, sp.kron) are not "
                     f"subscriptable and {name} raises TypeError where the "
                     f"sibling enforce accepts them", subs[0].lineno)
    if nflag < 3:
        raise AnalysisError(f"only {nflag} reads of the canonical-format "
                            f"flag found in utils.py, 4 confirmed by hand")


def _data_denominators(model, rep):
    """A divisor computed from the *values* of an operand (a norm, max or
    sum of matrix entries) can be zero for admissible input: constrained
    rows without stored entries (the property names them), a pinned
    pressure DOF of a saddle-point matrix.  1e-10 / 0 is inf, the penalty
    1 / inf is 0 and the constraint silently disappears.  Such a divisor
    needs a guard (a comparison with 0, np.where, max(..., tiny)) before the
    division."""
    R5 = "C05-R5"
    REDUCE = {"norm", "max", "min", "sum", "mean", "amax", "amin", "abs"}
    n = 0
    for name in dict.fromkeys(BC_FUNCS):
        try:
            fn = model.func(U, name)
        except AnalysisError:
            continue
        a = fn.node.args
        scalars = {x.arg for x in a.posonlyargs + a.args + a.kwonlyargs
                   if x.annotation is not None and src(x.annotation) in (
                       "float", "int", "bool", "Optional[float]")}
        defs: Dict[str, List[ast.Assign]] = {}
        for x in walk_no_nested(fn.node):
            if isinstance(x, ast.Assign):
                for t in x.targets:
                    if isinstance(t, ast.Name):
                        defs.setdefault(t.id, []).append(x)

        def data_reduction(e):
            """a reduction call over array data inside e (directly)"""
            for c in ast.walk(e):
                if isinstance(c, ast.Call):
                    last = src(c.func).split(".")[-1]
                    if last in REDUCE and (c.args or isinstance(
                            c.func, ast.Attribute)):
                        return c
            return None
        for x in walk_no_nested(fn.node):
            if not (isinstance(x, ast.BinOp) and isinstance(x.op, ast.Div)):
                continue
            den = x.right
            red = data_reduction(den)
            if red is None:
                continue
            n += 1
            # guard: the reduction's value is compared / clamped somewhere
            # in the function before use
            text = src(red)
            guarded = False
            for y in walk_no_nested(fn.node):
                if isinstance(y, ast.Compare) and text in src(y) and \
                        not any(isinstance(o, (ast.Is, ast.IsNot))
                                for o in y.ops):
                    guarded = True
                if isinstance(y, ast.Call) and src(y.func).split(".")[-1] \
                        in ("where", "maximum", "max", "clip") and \
                        y is not red and text in src(y) and \
                        src(y) != text:
                    guarded = True
            # or the reduction is first bound to a name that is tested
            for nm, dl in defs.items():
                if any(text in src(d.value) and not any(
                        isinstance(z, ast.BinOp) and isinstance(z.op, ast.Div)
                        for z in ast.walk(d.value)) for d in dl):
                    for y in walk_no_nested(fn.node):
                        if isinstance(y, ast.Compare) and not any(
                                isinstance(o, (ast.Is, ast.IsNot))
                                for o in y.ops) and any(
                                isinstance(z, ast.Name) and z.id == nm
                                for z in ast.walk(y)):
                            guarded = True
            cons = f"{name}:divisor[{text[:40]}]"
            if guarded:
                rep.ok(R5, cons, "the data-dependent divisor is tested "
                       "against zero before the division")
            else:
                rep.fail(R5, F, name, cons,
                         f"'{src(x)[:70]}' divides by a quantity computed "
                         f"from operand values that is zero for admissible "
                         f"input (constrained rows without stored entries, "
                         f"a zero diagonal block): the quotient is inf, its "
                         f"reciprocal 0, and the constraint is silently not "
                         f"imposed", x.lineno)
    # also divisions by a name bound to such a reduction
    rep.units("data-dependent divisors in the BC helpers", n)


def _verdict(rep, rule, ok, cons, okmsg, qual, badmsg, line):
    if ok:
        rep.ok(rule, cons, okmsg)
    else:
        rep.fail(rule, F, qual, cons, badmsg, line)


def _branch(fn, node) -> str:
    """label of the enclosing isinstance branch, for stable keys"""
    for n in walk_no_nested(fn.node):
        if isinstance(n, ast.If) and any(node is x for b in (n.body,)
                                         for x in b):
            return src(n.test)[:40]
    return "top"


# ----------------------------------------------------------------------
class UniqueIndex:
    """Is an index expression provably repeat-free (or scalar / slice /
    boolean mask)?"""

    def __init__(self, model: Model, fn: FuncInfo):
        self.model, self.fn = model, fn
        self.loopvars: Set[str] = set()
        self.defs: Dict[str, List[ast.expr]] = {}
        for n in _walk_local(fn.node):
            if isinstance(n, (ast.For, ast.comprehension)):
                for x in ast.walk(n.target):
                    if isinstance(x, ast.Name):
                        self.loopvars.add(x.id)
            elif isinstance(n, ast.Assign):
                for t in n.targets:
                    if isinstance(t, ast.Name):
                        self.defs.setdefault(t.id, []).append(n.value)
                    elif isinstance(t, ast.Tuple):
                        for k, x in enumerate(t.elts):
                            if isinstance(x, ast.Name):
                                self.defs.setdefault(x.id, []).append(
                                    ("tuple", k, n.value))

    def dotted(self, e):
        return self.model.dotted(self.fn.module, e)

    def why(self, e, depth=0) -> Optional[str]:
        """reason the index is safe, or None"""
        if depth > 4:
            return None
        if isinstance(e, ast.Slice):
            return "slice"
        if isinstance(e, ast.Constant):
            return "constant"
        if isinstance(e, ast.Tuple):
            rs = [self.why(x, depth + 1) for x in e.elts]
            arrays = [r for r in rs if r not in ("slice", "constant",
                                                 "loop variable")]
            if all(r is not None for r in rs) and len(arrays) <= 1:
                return "tuple(" + ", ".join(rs) + ")"
            return None
        if isinstance(e, ast.Name):
            if e.id in self.loopvars and e.id not in self.defs:
                return "loop variable"
            ds = self.defs.get(e.id)
            if ds and len(ds) == 1:
                d = ds[0]
                if isinstance(d, tuple):
                    _, k, call = d
                    if isinstance(call, ast.Call) and self.dotted(
                            call.func) in UNIQUE_TUPLE_FUNCS:
                        return f"component of {self.dotted(call.func)}"
                    return None
                return self.why_value(d, depth + 1)
            return None
        if isinstance(e, ast.BinOp) and isinstance(e.op, (ast.Add, ast.Sub)):
            # unique array shifted by a scalar stays repeat-free
            for a, b in ((e.left, e.right), (e.right, e.left)):
                r = self.why(a, depth + 1)
                if r and isinstance(b, (ast.Constant, ast.Name)) and (
                        isinstance(b, ast.Constant)
                        or b.id in self.loopvars):
                    return r + " + scalar"
            return None
        return self.why_value(e, depth)

    def why_value(self, d, depth) -> Optional[str]:
        if isinstance(d, ast.Compare):
            return "boolean mask"
        if isinstance(d, ast.UnaryOp) and isinstance(d.op, ast.Invert):
            return "boolean mask"
        if isinstance(d, ast.Subscript):
            # np.nonzero(...)[k]
            if isinstance(d.value, ast.Call) and self.dotted(
                    d.value.func) in UNIQUE_TUPLE_FUNCS:
                return f"{self.dotted(d.value.func)}(...)[k]"
            return None
        if isinstance(d, ast.Call):
            dn = self.dotted(d.func)
            if dn in UNIQUE_FUNCS:
                return dn
            if dn in MASK_FUNCS and dn not in ("numpy.zeros", "numpy.ones"):
                return f"boolean mask ({dn})"
            if isinstance(d.func, ast.Name) and d.func.id == "tuple" and \
                    d.args and isinstance(d.args[0], ast.Subscript):
                ix = d.args[0].slice
                elts = ix.elts if isinstance(ix, ast.Tuple) else [ix]
                if any(isinstance(x, ast.Name) and x.id in self.loopvars
                       for x in elts):
                    return "tuple of scalars (one column of an index table)"
            if isinstance(d.func, ast.Attribute):
                if d.func.attr == "astype":
                    return self.why_value(d.func.value, depth + 1) if \
                        not isinstance(d.func.value, ast.Name) else \
                        self.why(d.func.value, depth + 1)
                if d.func.attr == "flatten" and isinstance(
                        d.func.value, ast.Call) and isinstance(
                        d.func.value.func, ast.Attribute):
                    m = d.func.value.func.attr
                    owners = [c for c in self.model.all_classes()
                              if m in c.methods]
                    if owners and all(
                            c.methods[m].node.returns is not None
                            and "DofsView" in src(c.methods[m].node.returns)
                            for c in owners):
                        fl = self.model.cls("skfem.assembly.dofs",
                                            "DofsView").methods["flatten"]
                        rets = [n for n in walk_no_nested(fl.node)
                                if isinstance(n, ast.Return)]
                        if rets and all(
                                isinstance(r.value, ast.Call)
                                and self.model.dotted(fl.module, r.value.func)
                                == "numpy.unique" for r in rets):
                            return f"DofsView.flatten() of {m}(...) " \
                                   f"(returns numpy.unique)"
        return None


def _r4(model, rep):
    R4 = "C05-R4"
    n = 0
    for fn in model.all_functions():
        if fn.path.startswith("skfem/visuals"):
            continue
        ui = None
        for node in _walk_local(fn.node):
            if not (isinstance(node, ast.AugAssign)
                    and isinstance(node.target, ast.Subscript)):
                continue
            n += 1
            ui = ui or UniqueIndex(model, fn)
            # the innermost subscript is the one carrying the update
            why = ui.why(node.target.slice)
            cons = f"{fn.short()}:{src(node.target.value)}[...]" \
                   f"{type(node.op).__name__}"
            if why:
                rep.ok(R4, cons, f"index {src(node.target.slice)[:40]} is "
                       f"repeat-free: {why}")
            else:
                rep.fail(R4, fn.path, fn.short(), cons,
                         f"'{src(node)[:70]}': the index "
                         f"'{src(node.target.slice)[:50]}' is not provably "
                         f"repeat-free; where it repeats, numpy applies the "
                         f"update once and the others are lost", node.lineno)
    if n < 6:
        raise AnalysisError(f"only {n} fancy-indexed augmented assignments "
                            f"found (8 confirmed by hand)")


def run(model: Model, rep, tier: str) -> None:
    rep.rule("C05-R1", "helpers store into their arguments only through "
             "'X if overwrite else X.copy()'")
    rep.rule("C05-R2", "kept/constrained split exhaustive, complements "
             "correct, illegal cases raise, result rebound by role")
    rep.rule("C05-R3", "index roles: keep I, eliminate D with x[D]; "
             "enforce/penalize write at D only; expansion writes y[I]")
    rep.rule("C05-R4", "every 'a[idx] op= v' uses a provably repeat-free "
             "idx (lost-update hazard)")
    an = Analyzer(model)
    rep.rule("C05-R5", "the expansion vector can hold the solution "
             "(dtype of the system); no absolute tolerance on operand "
             "values")
    staged(lambda: _r5(model, rep), lambda: _lossy_stores(model, rep),
           lambda: _constrained_set_repeat_free(model, rep),
           lambda: _storage_format(model, rep),
           lambda: _data_denominators(model, rep),
           lambda: _r1(model, an, rep), lambda: _r2(model, rep),
           lambda: _r3(model, rep), lambda: _r4(model, rep))
    rep.require_min("C05-R1", 30)
    rep.require_min("C05-R2", 7)
    rep.require_min("C05-R3", 12)


_U = "skfem/utils.py"
MUTANTS = [
    ("condense indexes the matrix in the format given",
     (_U, "    # COO, DIA and BSR matrices cannot be indexed\n    if "
      "getattr(A, 'format', None) in ('coo', 'dia', 'bsr'):\n        A = "
      "A.tocsr()\n    if isinstance(b, spmatrix)",
      "    if isinstance(b, spmatrix)"), "C05-R3"),
    ("penalize takes the fallback scale in the format given",
     (_U, "            scale = abs(Aout.tocsr()).max() if Aout.nnz > 0 else "
      "0.", "            scale = abs(Aout).max() if Aout.nnz > 0 else 0."),
     "C05-R3"),
    ("right-hand side for an omitted b allocated like x",
     (_U, "        b = np.zeros(x.shape, dtype=np.result_type(x, "
      "np.float32))", "        b = np.zeros_like(x)"), "C05-R5"),
    ("solve_linear expands into a plain copy of x again",
     (_U, "        y = x.astype(np.result_type(x, sol))\n",
      "        y = x.copy()\n"), "C05-R5"),
    ("solve_eigen expands into a plain copy of x again",
     (_U, "        y = np.tile(x.astype(np.result_type(x, X))[:, None],\n"
      "                    (1, X.shape[1]))",
      "        y = np.tile(x.copy()[:, None], (1, X.shape[1]))"), "C05-R5"),
    ("enforce writes the prescribed values into a plain copy of b",
     (_U, "            bout = b if overwrite else b.astype(np.result_type("
      "b, x))", "            bout = b if overwrite else b.copy()"),
     "C05-R5"),
    ("penalize promotes the right-hand side with its operands only",
     (_U, "b.astype(np.result_type(b, x, np.float32))\n    bout[D] = x[D] / "
      "epsilon", "b.astype(np.result_type(b, x))\n    bout[D] = x[D] / "
      "epsilon"), "C05-R5"),
    ("direct solver reads the canonical-format flag of any format",
     (_U, "        if not getattr(A, 'has_canonical_format', True):",
      "        if not A.has_canonical_format:"), "C05-R3"),
    ("constrained index arrays are used as given again",
     (_U, "        D = np.unique(D)  # an index listed twice is constrained "
      "once\n", ""), "C05-R2"),
    ("enforce reads the row pointer of whatever format it is given",
     (_U, "    if A.format != 'csr':\n        # rows are zeroed through the "
      "CSR index arrays\n        if overwrite:\n            raise ValueError("
      "\"overwrite=True requires a CSR matrix.\")\n        Aout = A.tocsr()\n"
      "    else:\n        Aout = A if overwrite else A.copy()\n",
      "    Aout = A if overwrite else A.copy()\n"), "C05-R3"),
    ("penalize divides by the norm of the constrained diagonal unguarded",
     (_U, "        scale = np.linalg.norm(d[D], np.inf) if len(D) > 0 else "
      "0.\n        if scale == 0.:\n            # constrained rows without "
      "(diagonal) entries\n            scale = abs(Aout.tocsr()).max() if Aout.nnz "
      "> 0 else 0.\n        if scale == 0.:\n            scale = 1.\n"
      "        epsilon = 1e-10 / float(scale)",
      "        epsilon = 1e-10 / np.linalg.norm(d[D], np.inf).astype(float)"),
     "C05-R5"),
    ("condense skips the coupling term for 'zero' data",
     ("skfem/utils.py", "            bout = b[I] - A[I][:, D] @ x[D]\n",
      "            bout = b[I]\n            if not np.allclose(x[D], 0.):\n"
      "                bout = bout - A[I][:, D] @ x[D]\n"), "C05-R5"),
    ("enforce: matrix copy dropped",
     (_U, "    Aout = A if overwrite else A.copy()\n\n    # set rows on lhs "
      "to zero", "    Aout = A\n\n    # set rows on lhs to zero"), "C05-R1"),
    ("enforce: right-hand side copy dropped",
     (_U, "            bout = b if overwrite else b.astype(np.result_type("
      "b, x))\n            bout[D] = x[D]",
      "            bout = b\n            bout[D] = x[D]"), "C05-R1"),
    ("penalize: overwrite test inverted",
     (_U, "    bout = b if overwrite else b.astype(np.result_type(b, x, "
      "np.float32))\n    bout[D] = x[D] / epsilon",
      "    bout = b.astype(np.result_type(b, x, np.float32)) if overwrite "
      "else b\n    bout[D] = x[D] / epsilon"), "C05-R1"),
    ("solve_linear expands into the caller's x",
     (_U, "        y = x.astype(np.result_type(x, sol))\n",
      "        y = x.astype(np.result_type(x, sol), copy=False)\n"),
     "C05-R1"),
    ("_init_bc returns the index sets exchanged",
     (_U, "    return b, x, I, D\n", "    return b, x, D, I\n"), "C05-R2"),
    ("_init_bc: complement of I computed against itself",
     (_U, "        D = np.setdiff1d(np.arange(A.shape[0], dtype=np.int32), "
      "I)", "        D = np.setdiff1d(np.arange(A.shape[0], dtype=np.int32),"
      " D)"), "C05-R2"),
    ("_init_bc: complement taken in the number of columns of b",
     (_U, "        I = np.setdiff1d(np.arange(A.shape[0], dtype=np.int32), "
      "D)", "        I = np.setdiff1d(np.arange(A.shape[1] - 1, "
      "dtype=np.int32), D)"), "C05-R2"),
    ("_init_bc: both sets given is accepted silently",
     (_U, "    else:\n        raise Exception(\"Give only I or only D!\")",
      "    else:\n        pass"), "C05-R2"),
    ("condense: prescribed values taken at the kept set",
     (_U, "            bout = b[I] - A[I][:, D] @ x[D]",
      "            bout = b[I] - A[I][:, D] @ x[I]"), "C05-R3"),
    ("condense: eliminated columns taken from rows D",
     (_U, "            bout = b[I] - A[I][:, D] @ x[D]",
      "            bout = b[I] - A[D][:, D] @ x[D]"), "C05-R3"),
    ("condense: expansion data names the constrained set",
     (_U, "        ret_value += (x, I)", "        ret_value += (x, D)"),
     "C05-R3"),
    ("condense: mass matrix reduced on rows only",
     (_U, "            bout = b[I][:, I]", "            bout = b[I]"),
     "C05-R3"),
    ("solve_linear: solution written at the wrong name",
     (_U, "            y[I] = sol\n        return y",
      "            y[:len(I)] = sol\n        return y"), "C05-R3"),
    ("enforce: right-hand side receives the kept values",
     (_U, "            bout[D] = x[D]", "            bout[D] = x[I]"),
     "C05-R3"),
    ("enforce: mass matrix keeps unit diagonal",
     (_U, "bout = enforce(b, D=D, diag=0., overwrite=overwrite)",
      "bout = enforce(b, D=D, overwrite=overwrite)"), "C05-R3"),
    ("enforce: lossy in-place index construction restored",
     (_U, "    offset = np.repeat(np.cumsum(count) - count, count)\n"
      "    idx = np.repeat(start, count) + np.arange(count.sum()) - offset\n",
      "    idx = np.ones(count.sum(), dtype=np.int32)\n"
      "    idx[np.cumsum(count)[:-1]] -= count[:-1]\n"
      "    idx = np.repeat(start, count) + np.cumsum(idx) - 1\n"), "C05-R4"),
    ("dictionary of views flattened without removing repeats",
     (_U, "        return np.unique(\n            np.concatenate(["
      "_flatten_helper(S, key) for key in S])\n        )",
      "        return np.concatenate([_flatten_helper(S, key) for key in "
      "S])"), "C05-R2"),
    ("penalize: penalty accumulated with possibly repeated D",
     (_U, "    d[D] = 1. / epsilon\n", "    d[np.asarray(D)] += 1. / epsilon"
      "\n"), None),
]
TWINS = [
    ("omitted prescribed values default to a float vector (the expansion "
     "buffers are allocated in a common type: seed C05-5 on the repaired "
     "tree)",
     ("skfem/utils.py", "        x = np.zeros(A.shape[0], dtype=A.dtype)",
      "        x = np.zeros(A.shape[0])")),
    ("direct solver converts before reading the flag",
     (_U, "        if not getattr(A, 'has_canonical_format', True):",
      "        A = A.tocsc()\n        if not A.has_canonical_format:")),
    ("penalize promotes with float64",
     (_U, "np.result_type(b, x, np.float32))\n    bout[D]",
      "np.result_type(b, x, np.float64))\n    bout[D]")),
    ("penalize multiplies by the reciprocal of epsilon",
     (_U, "    bout[D] = x[D] / epsilon", "    bout[D] = x[D] * (1. / "
      "epsilon)")),
    ("enforce: non-CSR input converted with the constructor",
     (_U, "            raise ValueError(\"overwrite=True requires a CSR "
      "matrix.\")\n        Aout = A.tocsr()\n",
      "            raise ValueError(\"overwrite=True requires a CSR "
      "matrix.\")\n        Aout = sp.csr_matrix(A)\n")),
    ("penalize: default scale from the largest absolute diagonal",
     (_U, "        scale = np.linalg.norm(d[D], np.inf) if len(D) > 0 else "
      "0.", "        scale = float(np.abs(d[D]).max()) if len(D) > 0 else "
      "0.")),
    ("enforce: common type spelled with promote_types",
     (_U, "            bout = b if overwrite else b.astype(np.result_type("
      "b, x))", "            bout = b if overwrite else b.astype("
      "np.promote_types(b.dtype, x.dtype))")),
    ("_init_bc: numpy spelled out",
     (_U, "        D = np.setdiff1d(np.arange(A.shape[0], dtype=np.int32), "
      "I)", "        D = np.setdiff1d(np.arange(A.shape[0]), I)")),
    ("enforce: format established with isspmatrix_csr",
     (_U, "    if A.format != 'csr':", "    if not isspmatrix_csr(A):")),
    ("_init_bc: given constrained set normalised after the complement",
     (_U, "        D = np.unique(D)  # an index listed twice is constrained "
      "once\n        I = np.setdiff1d(np.arange(A.shape[0], dtype=np.int32),"
      " D)\n",
      "        I = np.setdiff1d(np.arange(A.shape[0], dtype=np.int32), D)\n"
      "        D = np.unique(D)\n")),
]
