"""C15 - no hidden state: memo keys complete, cached inputs frozen after
construction, construction order, no closure / process-global state, operands
never mutated."""
from __future__ import annotations

import ast
from typing import Dict, List, Set

from ..effects import Analyzer, MUTATORS, _walk_local, local_names
from ..memo import MemoFinder, MemoSite
from ..model import AnalysisError, FuncInfo, Model, src, walk_no_nested

PID = "C15"
LEVEL = "other"
TECHNIQUE = ("flow-sensitive may-alias / effect analysis with bounded "
             "inter-procedural summaries over the whole package; "
             "memoisation-site discovery with def-use closure of the cached "
             "value versus the staleness guard; frozen-after-construction, "
             "closure-capture and global-state rules (ast)")
LEVEL_TEXT = (
    "The property is about effects, which are visible in the code on every "
    "path: (R1) at each of the memoisation sites the parameters the cached "
    "value depends on are covered by a content-sensitive guard or key; (R2) "
    "the attributes parameter-free caches read are only ever stored in "
    "constructors; (R3) constructors store those attributes before the "
    "first lazy read; (R4) no closure mutates a captured container and no "
    "library function writes process-global state; (R5) no function stores "
    "into storage reachable from its parameters unless documented as an "
    "output (one-symbol exceptions with reasons). Histories need not be "
    "enumerated: absence of the effect on every path implies history "
    "independence. Optimistic for unresolved (third-party) calls.")
LEVEL_TEXT += (
    " Added after the seeding phase: (R5) also covers the nested functions "
    "handed out as solvers / callbacks (their own parameters are operands "
    "of whoever calls them); 'x op= v' counts as an in-place store when x "
    "is a plain copy of an array operand.")
LEVEL_TEXT += (
    " Added in the hunting round (defects found by independent agents "
    "on the unchanged tree, DESIGN.md 9.4 / 9.6): "
    "(R6) no result read from uninitialised memory; hidden randomness "
    "and in-place canonicalisation by external routines; closures that "
    "do not outlive their call may keep per-call state.")
LEVEL_TEXT += (
    " Added in the third round (review of the fix commits, DESIGN.md "
    "9.6): "
    "the ARPACK start vector is generic (a seeded draw, not a constant "
    "vector); the M= operand of eigs / eigsh is covered by the "
    "canonicaliser rule.")
LEVEL_TEXT += (
    " Added in the fourth hunting round (DESIGN.md 9.6): "
    "no consumer of the memoised Jacobian table of MappingIsoparametric "
    "returns a bare entry of it.")
LEVEL_NOTE = (
    "Assumes third-party calls (numpy/scipy) have no effects other than "
    "those in the enumerated tables (out=, ufunc.at, put/place/copyto, "
    "in-place ndarray/list/dict/sparse mutators) and that mesh objects are "
    "immutable (decided by R2/R5). Not decided: bit-for-bit equality of "
    "results across histories for effects outside Python-visible state.")
EXPLANATION = ("Effect and memo-key analysis over every function of the "
               "package; each obligation is one (rule, construct) pair.")
TRUSTED = ["enumerated tables of mutating / view-producing / fresh-producing "
           "numpy, scipy.sparse and builtin operations (skv/effects.py)"]
ASSUMPTIONS = ["unresolved calls are effect-free on their arguments",
               "identity of a mesh object is a sound cache key because mesh "
               "arrays are never stored to after construction (R2, R5)"]

CTORS = {"__init__", "__post_init__", "__new__", "__array_finalize__",
         "__setstate__"}

# (function short name, parameter) -> reason.  One symbol wide (G5).
R5_EXCEPTIONS = {
    ("BilinearForm._threaded_kernel", "data"):
        "worker output buffer: each thread owns the slots it writes "
        "(decided by C16-O3)",
    ("Form._normalize_asm_kwargs", "w"):
        "receives the caller's **kwargs dictionary, which Python creates "
        "fresh per call; all five producers pass exactly that",
    ("from_meshio", "out"):
        "documented output parameter: list of attribute names to overwrite "
        "with the corresponding meshio data",
    ("from_file", "out"):
        "forwards the documented output parameter of from_meshio",
}
R5_SKIP_PREFIX = ("skfem/visuals/",)


def _hierarchy(model: Model, cls) -> Set[str]:
    fam = {c.qualname for c in cls.mro()}
    for c in model.all_classes():
        if cls in c.mro():
            fam.add(c.qualname)
            fam |= {d.qualname for d in c.mro()}
    return fam


CACHE_DECOS = ("lru_cache", "functools.lru_cache", "cache",
               "functools.cache", "cached_property",
               "functools.cached_property")


def _decorator_caches(model, rep):
    """functools caches: the cached object is handed to every caller.  A
    module-level function (or a method keyed by hashable arguments) under
    such a decorator must not return something a caller can modify in
    place - an ndarray, list or dict, alone or inside a tuple: the first
    in-place change is seen by every later caller, the library's own
    requests included."""
    R1 = "C15-R1"
    n = 0
    for fn in model.all_functions():
        decos = []
        for d in fn.node.decorator_list:
            t = src(d.func) if isinstance(d, ast.Call) else src(d)
            if t in CACHE_DECOS:
                decos.append(t)
        if not decos:
            continue
        n += 1
        ann = src(fn.node.returns) if fn.node.returns is not None else ""
        mutable_ann = any(k in ann for k in ("ndarray", "List", "Dict",
                                             "list", "dict", "spmatrix"))
        rets = [r.value for r in walk_no_nested(fn.node)
                if isinstance(r, ast.Return) and r.value is not None]

        def mutable_expr(e):
            if isinstance(e, ast.Tuple):
                return any(mutable_expr(x) for x in e.elts)
            if isinstance(e, (ast.List, ast.Dict, ast.ListComp,
                              ast.DictComp, ast.Set)):
                return True
            if isinstance(e, ast.Call):
                f = src(e.func)
                return f.startswith(("np.", "numpy.")) or f in (
                    "list", "dict", "leggauss")
            if isinstance(e, ast.BinOp):
                return mutable_expr(e.left) or mutable_expr(e.right)
            if isinstance(e, ast.Name):
                # a local computed from numpy calls
                for st in walk_no_nested(fn.node):
                    if isinstance(st, ast.Assign):
                        for t in st.targets:
                            names = [x.id for x in ast.walk(t)
                                     if isinstance(x, ast.Name)]
                            if e.id in names and mutable_expr(st.value):
                                return True
            return False
        cons = f"{fn.short()}:@{decos[0]}"
        if mutable_ann or any(mutable_expr(r) for r in rets):
            rep.fail(R1, fn.path, fn.short(), cons,
                     f"the function is memoised with @{decos[0]} but returns "
                     f"mutable arrays / containers ({ann or 'see returns'}): "
                     f"every caller receives the same objects, so one "
                     f"in-place change (e.g. rescaling a rule to another "
                     f"interval) silently alters what all later callers - "
                     f"the library itself included - are given",
                     fn.lineno)
        else:
            rep.ok(R1, cons, "memoised value is immutable")
    rep.units("functools-cached functions", n)


def _memo_rules(model, an, rep):
    R1, R2 = "C15-R1", "C15-R2"
    _decorator_caches(model, rep)
    mf = MemoFinder(model, an)
    sites = mf.sites()
    if len(sites) < 25:
        raise AnalysisError(f"only {len(sites)} memoisation sites found, 29 "
                            f"confirmed by hand")
    rep.units("memoisation sites", len(sites))
    for s in sites:
        missing = sorted(d for d in s.deps if d not in s.covered)
        if missing:
            why = "; ".join(f"{d}: {s.weak.get(d, 'not tested at all')}"
                            for d in missing)
            rep.fail(R1, s.fn.path, s.fn.short(), s.construct,
                     f"cached value depends on {missing} but the guard "
                     f"'{s.guard[:70]}' does not compare their content "
                     f"({why})", s.node.lineno)
        else:
            how = (", ".join(f"{k}: {v}" for k, v in sorted(s.covered.items()))
                   or "no parameter flows into the cached value")
            rep.ok(R1, s.construct, f"guard '{s.guard[:60]}' - {how}")
    # a cache must not live in a dataclass field: dataclasses.replace
    # copies every field into the derived object, whose inputs differ
    def dataclass_fields(cls):
        out = {}
        for c in cls.mro():
            is_dc = any(src(d).split("(")[0] in ("dataclass",
                                                 "dataclasses.dataclass")
                        for d in c.node.decorator_list)
            if not is_dc:
                continue
            for st in c.node.body:
                if isinstance(st, ast.AnnAssign) and isinstance(
                        st.target, ast.Name) and "ClassVar" not in src(
                            st.annotation):
                    out.setdefault(st.target.id, c)
        return out
    for st_ in sites:
        cls = st_.fn.cls
        if cls is None:
            continue
        fields = dataclass_fields(cls)
        hit = sorted(a for a in st_.cache_attrs if a in fields)
        cons = st_.construct + ":storage"
        if hit:
            rep.fail(R2, st_.fn.path, st_.fn.short(), cons,
                     f"the cache is kept in '{hit[0]}', a dataclass field "
                     f"of {fields[hit[0]].name}: dataclasses.replace() "
                     f"copies it into every derived object (refined, "
                     f"translated, scaled, joined ...), which then answers "
                     f"from a value computed for the old object",
                     st_.node.lineno)
        else:
            rep.ok(R2, cons, "cache storage is not a dataclass field (not "
                   "copied by replace)")
    # key functions used by keyed caches must be content-complete
    keyfuncs = {s.keyfunc for s in sites if s.keyfunc}
    for kf in sorted(keyfuncs):
        if not kf.startswith("skfem."):
            raise AnalysisError(f"cache key function {kf} is not analysable")
        modn, fname = kf.rsplit(".", 1)
        fn = model.func(modn, fname)
        attrs = {n.attr for n in ast.walk(fn.node)
                 if isinstance(n, ast.Attribute)}
        content = bool(attrs & {"tobytes", "data", "tostring"})
        cons = f"{fname}:array-key"
        if content and {"shape", "dtype"} <= attrs:
            rep.ok(R1, cons, "array arguments are keyed by content, shape "
                   "and dtype")
        elif content:
            rep.fail(R1, fn.path, fname, cons,
                     "array arguments are keyed by their bytes only: arrays "
                     "of different shape or dtype with equal bytes collide "
                     f"(missing: {sorted({'shape', 'dtype'} - attrs)})",
                     fn.lineno)
        else:
            rep.fail(R1, fn.path, fname, cons,
                     "array arguments are not keyed by content", fn.lineno)
    # R2: inputs of parameter-free caches are stored in constructors only
    an_all = {fn.qualname: an.summarize(fn) for fn in model.all_functions()}
    by_cls: Dict[str, Set[str]] = {}
    for s in sites:
        cache_all = set()
        for t in sites:
            if t.fn.cls is s.fn.cls or t.fn.cls in s.fn.cls.mro() or \
                    s.fn.cls in t.fn.cls.mro():
                cache_all |= t.cache_attrs | t.stored_attrs
        watched = {a for a in s.self_reads
                   if a not in cache_all and s.fn.cls.find_method(a) is None}
        # properties map to the attributes they read
        for a in list(s.self_reads):
            pm = s.fn.cls.find_method(a)
            if pm is not None and any(src(d) == "property"
                                      for d in pm.node.decorator_list):
                watched |= {x for x in an.summarize(pm).attr_reads
                            if x not in cache_all
                            and s.fn.cls.find_method(x) is None}
        by_cls.setdefault(s.fn.cls.qualname, set()).update(watched)
    for cq, watched in sorted(by_cls.items()):
        cls = next(c for c in model.all_classes() if c.qualname == cq)
        fam = _hierarchy(model, cls)
        offenders = []
        for fn in model.all_functions():
            if fn.cls is None or fn.cls.qualname not in fam or \
                    fn.name in CTORS:
                continue
            st = an_all[fn.qualname].attr_stores & watched
            for a in sorted(st):
                offenders.append((fn, a))
        for a in sorted(watched):
            bad = [fn for fn, x in offenders if x == a]
            cons = f"{cls.name}.{a}:frozen"
            if not bad:
                rep.ok(R2, cons, f"self.{a} (read by a cache of "
                       f"{cls.name}) is stored in constructors only")
            for fn in bad:
                rep.fail(R2, fn.path, fn.short(), f"{cons}@{fn.short()}",
                         f"self.{a} feeds a parameter-free cache of "
                         f"{cls.name} but is reassigned in {fn.short()} "
                         f"after construction: the cache goes stale",
                         fn.lineno)
    return sites


def _ctor_order(model, an, rep, sites: List[MemoSite]):
    """R3: in a constructor, the first read of a lazily cached property
    comes after the last store to an attribute that cache reads."""
    R3 = "C15-R3"
    props: Dict[str, List[MemoSite]] = {}
    for s in sites:
        if any(src(d) == "property" for d in s.fn.node.decorator_list):
            props.setdefault(s.fn.name, []).append(s)
    n = 0
    for cls in model.all_classes():
        for cname in ("__init__", "__post_init__"):
            ctor = cls.methods.get(cname)
            if ctor is None:
                continue
            stores: Dict[str, int] = {}
            reads: Dict[str, int] = {}
            for node in _walk_local(ctor.node):
                if isinstance(node, ast.Attribute) and isinstance(
                        node.value, ast.Name) and node.value.id == "self":
                    if isinstance(node.ctx, ast.Store):
                        stores[node.attr] = max(stores.get(node.attr, 0),
                                                node.lineno)
                    else:
                        reads.setdefault(node.attr, node.lineno)
                        reads[node.attr] = min(reads[node.attr], node.lineno)
            for pname, first in sorted(reads.items()):
                for s in props.get(pname, []):
                    if s.fn.cls not in cls.mro():
                        continue
                    n += 1
                    late = sorted(a for a in s.self_reads
                                  if stores.get(a, 0) > first)
                    cons = f"{cls.name}.{cname}:read[{pname}]"
                    if late:
                        rep.fail(R3, ctor.path, f"{cls.name}.{cname}", cons,
                                 f"the cached property {pname} is first read "
                                 f"before self.{late[0]} (which it depends "
                                 f"on) is stored: the cache is filled from a "
                                 f"stale value", first)
                    else:
                        rep.ok(R3, cons, f"every input of {pname} is stored "
                               f"before its first read")
    return n


TRANSIENT_CONSUMERS = {"Thread", "threading.Thread", "map", "filter",
                       "sorted", "min", "max", "reduce",
                       "functools.reduce", "any", "all", "sum", "list",
                       "tuple"}


def _outlives_call(outer_node, nested) -> bool:
    """May the nested function be alive after the enclosing call returned?
    It does when it (or a container / partial holding it) is returned,
    yielded, stored into an attribute, subscript or global, or handed to a
    callee that is not known to drop it.  A function that is only called,
    or only handed to a consumer that finishes within the enclosing call
    (a Thread that is joined, map / sorted / min ...), takes its captured
    variables to the grave: mutating them is per-call state."""
    parent = {}
    for p in ast.walk(outer_node):
        for c in ast.iter_child_nodes(p):
            parent[id(c)] = p
    if isinstance(nested, ast.Lambda):
        refs = [nested]
    else:
        refs = [n for n in ast.walk(outer_node)
                if isinstance(n, ast.Name) and n.id == nested.name
                and isinstance(n.ctx, ast.Load)]
        # decorated nested functions: the decorator receives them
        if nested.decorator_list:
            return True
    aliases = set()
    for r in refs:
        c, p = r, parent.get(id(r))
        while p is not None:
            if isinstance(p, ast.Call):
                if c is p.func:
                    break                      # called: result, not itself
                callee = src(p.func)
                if callee.split(".")[-1] in TRANSIENT_CONSUMERS or \
                        callee in TRANSIENT_CONSUMERS:
                    # the consumer object itself may escape (a Thread kept
                    # in a list is still joined here): treated as transient
                    break
                return True
            if isinstance(p, (ast.Return, ast.Yield, ast.YieldFrom)):
                return True
            if isinstance(p, (ast.Assign, ast.AnnAssign, ast.AugAssign)):
                tg = p.targets if isinstance(p, ast.Assign) else [p.target]
                if any(not isinstance(t, ast.Name) for t in tg):
                    return True                # attribute / subscript store
                aliases |= {t.id for t in tg}
                break
            if isinstance(p, (ast.FunctionDef, ast.Lambda)) and \
                    p is not outer_node and p is not nested:
                return True                    # captured by another closure
            if isinstance(p, ast.stmt):
                break
            c, p = p, parent.get(id(p))
    for a in aliases:
        fake = ast.FunctionDef(name=a, args=None, body=[], decorator_list=[])
        if a != getattr(nested, "name", None) and _outlives_call(outer_node,
                                                                  fake):
            return True
    return False


def _closures_and_globals(model, an, rep):
    R4 = "C15-R4"
    nclos = 0
    for fn in model.all_functions():
        if fn.path.startswith(R5_SKIP_PREFIX):
            continue
        outer = local_names(fn.node)
        for nested in ast.walk(fn.node):
            if nested is fn.node or not isinstance(
                    nested, (ast.FunctionDef, ast.Lambda)):
                continue
            nclos += 1
            s = an.summarize_nested(fn.module, nested, fn.cls, outer)
            name = getattr(nested, "name", "<lambda>")
            bad = [e for e in s.effects
                   if any(r.startswith("closure:") for r in e.roots)
                   and e.kind in ("store", "mutator", "inplace-func",
                                  "out-kw", "augassign-name")]
            cons = f"{fn.short()}.{name}:captures"
            if bad and not _outlives_call(fn.node, nested):
                rep.ok(R4, cons, "mutates a captured variable, but the "
                                 "function does not outlive the enclosing "
                                 "call (only called / handed to a consumer "
                                 "that finishes within it): per-call state")
            elif bad:
                seen = set()
                for e in bad:
                    cap = sorted(r[8:] for r in e.roots
                                 if r.startswith("closure:"))
                    k = (tuple(cap), e.detail)
                    if k in seen:
                        continue
                    seen.add(k)
                    rep.fail(R4, fn.path, fn.short(),
                             f"{fn.short()}.{name}:captured[{cap[0]}]",
                             f"the returned closure mutates the captured "
                             f"'{cap[0]}' ({e.detail}): every call changes "
                             f"the state seen by the next", e.line)
            else:
                rep.ok(R4, cons, "captured variables are only read")
    rep.units("nested functions", nclos)
    # process-global state
    nfun = 0
    for fn in model.all_functions():
        if fn.path.startswith(R5_SKIP_PREFIX):
            continue
        nfun += 1
        s = an.summarize(fn)
        for e in s.effects:
            if e.kind in ("global-state", "global-write") and e.via is None:
                rep.fail(R4, fn.path, fn.short(),
                         f"{fn.short()}:global[{e.detail.split()[2] if e.kind == 'global-state' else e.detail}]",
                         e.detail + " - a library call must not alter the "
                         "caller's interpreter-wide state", e.line)
    rep.ok(R4, "package:global-state",
           f"{nfun} functions scanned for writes to process-global state")
    # mutable class-level attributes mutated through self
    for cls in model.all_classes():
        if cls.path.startswith(R5_SKIP_PREFIX):
            continue
        mutable = {a for c in cls.mro() for a, v in c.attrs.items()
                   if isinstance(v, (ast.List, ast.Dict, ast.Set))}
        if not mutable:
            continue
        for m in cls.methods.values():
            inst_store = {n.attr for n in _walk_local(m.node)
                          if isinstance(n, ast.Attribute)
                          and isinstance(n.ctx, ast.Store)
                          and isinstance(n.value, ast.Name)
                          and n.value.id == "self"}
            for n in _walk_local(m.node):
                tgt = None
                if isinstance(n, ast.Call) and isinstance(
                        n.func, ast.Attribute) and n.func.attr in MUTATORS:
                    tgt = n.func.value
                elif isinstance(n, (ast.Assign, ast.AugAssign)):
                    ts = n.targets if isinstance(n, ast.Assign) \
                        else [n.target]
                    for t in ts:
                        if isinstance(t, ast.Subscript):
                            tgt = t.value
                if isinstance(tgt, ast.Attribute) and isinstance(
                        tgt.value, ast.Name) and tgt.value.id in (
                        "self", "cls") and tgt.attr in mutable and \
                        tgt.attr not in inst_store:
                    rep.fail(R4, m.path, m.short(),
                             f"{m.short()}:class-attr[{tgt.attr}]",
                             f"{src(tgt)} is a mutable class-level default "
                             f"shared by all instances and is mutated in "
                             f"place", n.lineno)
    return nclos


def _operands(model, an, rep, sites=()):
    R5 = "C15-R5"
    # private attributes that are storage of a memoisation site (lazily
    # filled caches): stores into them are the memo itself (R1-R3); every
    # other attribute, private or not, holds data of the object
    cache_attrs = set()
    for st in sites:
        cache_attrs |= set(st.cache_attrs) | set(st.stored_attrs)
    n = 0
    used_exc = set()
    for fn in model.all_functions():
        if fn.path.startswith(R5_SKIP_PREFIX):
            continue
        n += 1
        s = an.summarize(fn)
        per_param: Dict[str, list] = {}
        for e in s.effects:
            if e.kind in ("global-state", "global-write"):
                continue
            for r in e.roots:
                if r.startswith("param:"):
                    if e.kind == "attr-store" and fn.name in CTORS:
                        continue
                    per_param.setdefault(r[6:], []).append(e)
                elif r.startswith("global:"):
                    per_param.setdefault("<module " + r[7:] + ">",
                                         []).append(e)
                elif r.startswith("self.") and fn.name not in CTORS and \
                        e.kind != "attr-store" and \
                        r[5:].split(".")[0].split("[")[0] not in cache_attrs:
                    per_param.setdefault("self." + r[5:], []).append(e)
        params = [p for p in s.params if p not in ("self", "cls")]
        for p in params:
            if p in per_param:
                continue
            rep.ok(R5, f"{fn.short()}({p})", "never stored to") \
                if False else None
        for p, effs in sorted(per_param.items()):
            key = (fn.short(), p)
            if key in R5_EXCEPTIONS:
                used_exc.add(key)
                rep.ok(R5, f"{fn.short()}({p}):exception",
                       f"stores allowed: {R5_EXCEPTIONS[key]}")
                continue
            e = effs[0]
            chain = f" via {e.via}" if e.via else ""
            rep.fail(R5, fn.path, fn.short(), f"{fn.short()}({p})",
                     f"storage reachable from operand '{p}' is modified: "
                     f"{e.detail}{chain} ({len(effs)} store(s))", e.line)
        clean = len(params) - len([p for p in per_param if p in params])
        if clean > 0:
            rep.obligations[R5] = rep.obligations.get(R5, 0) + clean
            rep.discharged[R5] = rep.discharged.get(R5, 0) + clean
            rep.constructs.setdefault(R5, set()).update(
                f"{fn.qualname}({p})" for p in params if p not in per_param)
    # nested functions handed out to callers (solver closures, callbacks):
    # their own parameters are operands of whoever calls them
    nn = 0
    for fn in model.all_functions():
        if fn.path.startswith(R5_SKIP_PREFIX):
            continue
        outer = local_names(fn.node)
        for nested in ast.walk(fn.node):
            if nested is fn.node or not isinstance(nested, ast.FunctionDef):
                continue
            nn += 1
            s = an.summarize_nested(fn.module, nested, fn.cls, outer)
            per: Dict[str, list] = {}
            for e in s.effects:
                for r in e.roots:
                    if r.startswith("param:"):
                        per.setdefault(r[6:], []).append(e)
            params = [a.arg for a in nested.args.posonlyargs
                      + nested.args.args + nested.args.kwonlyargs
                      if a.arg not in ("self", "cls")]
            for p in params:
                cons = f"{fn.short()}.{nested.name}({p})"
                if p in per:
                    e = per[p][0]
                    chain = f" via {e.via}" if e.via else ""
                    key = (f"{fn.short()}.{nested.name}", p)
                    if key in R5_EXCEPTIONS:
                        used_exc.add(key)
                        rep.ok(R5, cons + ":exception",
                               f"stores allowed: {R5_EXCEPTIONS[key]}")
                        continue
                    rep.fail(R5, fn.path, fn.short(), cons,
                             f"storage reachable from operand '{p}' of the "
                             f"nested function {nested.name} is modified: "
                             f"{e.detail}{chain}", e.line)
                else:
                    rep.ok(R5, cons, "never stored to")
    rep.units("nested functions analysed for effects on their operands", nn)
    rep.units("functions analysed for effects", n)
    stale = set(R5_EXCEPTIONS) - used_exc
    for k in sorted(stale):
        rep.note(f"exception {k} no longer matches any store (harmless)")
    # the overwrite idiom: stores through 'X if overwrite else X.copy()'
    ow = 0
    for fn in model.all_functions():
        s = an.summarize(fn)
        for e in s.effects:
            if any(r.startswith("ow:") for r in e.roots) and e.via is None:
                ow += 1
    rep.samples.append({"rule": R5, "construct": "overwrite idiom",
                        "obligation": f"{ow} store(s) go through "
                        f"'X if overwrite else X.copy()' and are permitted "
                        f"only on request", "verdict": "holds"})
    return n


RANDOM_START_APIS = {
    # documented default of the start vector: random, drawn from the global
    # NumPy generator
    "scipy.sparse.linalg.eigs": "v0", "scipy.sparse.linalg.eigsh": "v0",
    "scipy.sparse.linalg.svds": "v0",
}


def _hidden_randomness(model, rep):
    """ARPACK (scipy.sparse.linalg.eigs / eigsh / svds) starts its iteration
    from a *random* vector unless v0 is passed: eigenvectors come back with
    random sign, close eigenpairs in varying order - identical calls on
    unchanged operands give different results.  Every call in the package
    must supply v0 (literally, or through a dictionary literal that is
    unpacked into the call and has the key)."""
    R4 = "C15-R4"
    n = 0
    for fn in model.all_functions():
        if fn.path.startswith(R5_SKIP_PREFIX):
            continue
        mod = fn.module
        # function-local imports: from scipy.sparse.linalg import eigs
        local = {}
        for x in ast.walk(fn.node):
            if isinstance(x, ast.ImportFrom) and x.module:
                for a in x.names:
                    local[a.asname or a.name] = f"{x.module}.{a.name}"
        for c in ast.walk(fn.node):
            if not isinstance(c, ast.Call):
                continue
            d = model.dotted(mod, c.func)
            if d is None and isinstance(c.func, ast.Name):
                d = local.get(c.func.id)
            kw = RANDOM_START_APIS.get(d or "")
            if kw is None:
                continue
            n += 1
            given = any(k.arg == kw for k in c.keywords)
            for k in c.keywords:
                if k.arg is None:               # **{...}
                    for x in ast.walk(k.value):
                        if isinstance(x, ast.Dict) and any(
                                isinstance(kk, ast.Constant)
                                and kk.value == kw for kk in x.keys):
                            given = True
            # or set into the parameter dictionary beforehand
            # (params['v0'] = ..., params.setdefault('v0', ...))
            if any(isinstance(x, ast.Constant) and x.value == kw
                   for x in ast.walk(fn.node)):
                given = True
            q = fn.short()
            cons = f"{q}:{d.rsplit('.', 1)[1]}:start-vector"
            # ... and the supplied vector has to be *generic*: a constant
            # vector (np.ones) is invariant under every symmetry of a
            # symmetric mesh - the Krylov space never leaves the symmetric
            # subspace and eigenvalues are skipped - and lies in the kernel
            # of an unconstrained stiffness matrix (ARPACK: 'starting vector
            # is zero').  Accepted: a draw from a generator with a literal
            # seed.
            if given:
                fdefs = {x.targets[0].id: x.value for x in ast.walk(fn.node)
                         if isinstance(x, ast.Assign) and len(x.targets) == 1
                         and isinstance(x.targets[0], ast.Name)}
                vals = [k.value for k in c.keywords if k.arg == kw]
                for k in c.keywords:
                    if k.arg is None:
                        for x in ast.walk(k.value):
                            if isinstance(x, ast.Dict):
                                vals += [v for kk, v in zip(x.keys, x.values)
                                         if isinstance(kk, ast.Constant)
                                         and kk.value == kw]
                vals = [fdefs.get(v.id, v) if isinstance(v, ast.Name) else v
                        for v in vals]
                def constant_vector(v):
                    # c * np.ones(n), np.full(n, c), ... : every entry equal
                    while isinstance(v, ast.BinOp) and isinstance(
                            v.op, (ast.Mult, ast.Div)):
                        if isinstance(v.left, (ast.Constant, ast.Name)) and \
                                isinstance(v.op, ast.Mult):
                            v = v.right
                        elif isinstance(v.right, (ast.Constant, ast.Name)):
                            v = v.left
                        else:
                            return False
                    return isinstance(v, ast.Call) and src(
                        v.func).split(".")[-1] in (
                        "ones", "zeros", "full", "ones_like", "zeros_like",
                        "full_like")
                const = [v for v in vals if constant_vector(v)]
                cons2 = f"{q}:{d.rsplit('.', 1)[1]}:start-vector-generic"
                if const:
                    rep.fail(R4, fn.path, q, cons2,
                             f"the start vector '{src(const[0])[:40]}' is a "
                             f"constant vector: invariant under the "
                             f"symmetries of a symmetric mesh (modes odd "
                             f"under a symmetry are skipped: ex31 returns "
                             f"198.98 instead of the second 141.035) and in "
                             f"the kernel of an unconstrained stiffness "
                             f"matrix (ArpackError -9)", c.lineno)
                elif vals:
                    rep.ok(R4, cons2, "start vector drawn from a generator "
                           "with a fixed seed")
            if given:
                rep.ok(R4, cons, f"{kw} is supplied")
            else:
                rep.fail(R4, fn.path, q, cons,
                         f"'{src(c)[:60]}' leaves {kw} to the library, "
                         f"which draws a random start vector from the "
                         f"global generator: the same solve(...) on "
                         f"unchanged operands returns eigenvectors of "
                         f"random sign (and close eigenpairs in varying "
                         f"order)", c.lineno)
    if n < 2:
        raise AnalysisError(f"only {n} ARPACK calls found")


def _cache_entries_not_handed_out(model, rep):
    """MappingIsoparametric.J memoises the Jacobian entries per point set
    and returns the stored arrays.  Its consumers combine them into new
    arrays (determinants, inverses) - except where an entry *is* the result:
    in one dimension det DF = J[0][0].  Returning that entry hands the
    caller the cache itself; an in-place operation on the result (det *= W)
    changes every later evaluation on the mapping, which is cached on the
    mesh.  Every value a method of the class returns that is a bare entry
    of the memoised table must be copied."""
    R1 = "C15-R1"
    cls = model.cls("skfem.mapping.mapping_isoparametric",
                    "MappingIsoparametric")
    n = 0
    for name, fn in sorted(cls.methods.items()):
        if name == "J":
            continue
        entries = {}
        for x in walk_no_nested(fn.node):
            if isinstance(x, ast.Assign) and len(x.targets) == 1 and \
                    isinstance(x.targets[0], ast.Name):
                v = x.value
                bare = v
                while isinstance(bare, ast.Subscript):
                    bare = bare.value
                if isinstance(v, ast.Subscript) and isinstance(
                        bare, ast.Name) and bare.id == "J":
                    entries[x.targets[0].id] = x
                elif x.targets[0].id in entries:
                    del entries[x.targets[0].id]
        rets = [r.value for r in walk_no_nested(fn.node)
                if isinstance(r, ast.Return) and r.value is not None]
        for r in rets:
            names = [r.id] if isinstance(r, ast.Name) else []
            for nm in names:
                if nm in entries:
                    n += 1
                    rep.fail(R1, fn.path, fn.short(),
                             f"{fn.short()}:{nm}:cache-entry-returned",
                             f"'{src(entries[nm])}' is returned as it is: "
                             f"an entry of the table memoised by J() - the "
                             f"caller's in-place operation on the result "
                             f"(det *= W) changes every later evaluation "
                             f"of the mapping", entries[nm].lineno)
        if any(isinstance(x, ast.Name) and x.id == "J"
               for x in ast.walk(fn.node)):
            n += 1
            if not any(nm in entries for r in rets
                       for nm in ([r.id] if isinstance(r, ast.Name) else [])):
                rep.ok(R1, f"{fn.short()}:cache-entries",
                       "no bare entry of the memoised Jacobian table is "
                       "returned")
    if n < 2:
        raise AnalysisError("MappingIsoparametric: consumers of J not found")


def _uninitialised(model, rep):
    """R6: nothing a caller can see is read from uninitialised memory.
    (a) Every np.empty buffer is covered *structurally*: all its stores use
    integers, loop variables or slices in the positions that matter, or two
    complementary index sets - a buffer whose stores go through
    data-dependent index arrays (np.nonzero of a match) keeps whatever the
    allocator left wherever nothing matches, and the 'result' then depends
    on what ran before.  (b) The oriented facet sets the library itself
    builds never designate the missing neighbour (-1) of an exterior facet:
    Mesh.facets_around is interpreted on the incidence structures of two and
    three cells for every subset of cells, flip on and off;
    Mesh.facets_satisfying(normal=...) with every facet selected and the
    adversarial sign of the normal test."""
    from itertools import product
    from .. import nlite
    from ..nlite import NArr
    from ..interp import Interp, Obj, PyFunc, Raised, Unsupported
    R6 = "C15-R6"
    # ---- (a)
    nbuf = 0
    for fn in model.all_functions():
        if fn.path.startswith(R5_SKIP_PREFIX):
            continue
        loopvars = set()
        for n in walk_no_nested(fn.node):
            if isinstance(n, (ast.For, ast.comprehension)):
                loopvars |= {x.id for x in ast.walk(n.target)
                             if isinstance(x, ast.Name)}
        assigns = {}
        for n in walk_no_nested(fn.node):
            if isinstance(n, ast.Assign) and len(n.targets) == 1:
                t = n.targets[0]
                key = src(t) if isinstance(t, (ast.Name, ast.Attribute)) \
                    else None
                if key:
                    assigns.setdefault(key, []).append(n)
        for key, defs in assigns.items():
            emp = [d for d in defs if isinstance(d.value, ast.Call)
                   and src(d.value.func) in ("np.empty", "numpy.empty")]
            if not emp:
                continue
            shp = emp[0].value.args[0] if emp[0].value.args else None
            if isinstance(shp, ast.Tuple) and any(
                    isinstance(e, ast.Constant) and e.value == 0
                    for e in shp.elts):
                continue                     # empty array: nothing to cover
            nbuf += 1
            stores = [n for n in walk_no_nested(fn.node)
                      if isinstance(n, (ast.Assign, ast.AugAssign))
                      and isinstance((n.targets[0] if isinstance(
                          n, ast.Assign) else n.target), ast.Subscript)
                      and src((n.targets[0] if isinstance(n, ast.Assign)
                               else n.target).value) == key]
            dd = []          # data-dependent index names
            for st in stores:
                tgt = st.targets[0] if isinstance(st, ast.Assign) \
                    else st.target
                ix = tgt.slice
                parts = ix.elts if isinstance(ix, ast.Tuple) else [ix]
                for p_ in parts:
                    if isinstance(p_, (ast.Slice, ast.Constant)):
                        continue
                    if isinstance(p_, ast.Name) and p_.id in loopvars:
                        continue
                    if isinstance(p_, ast.Name):
                        dd.append((p_.id, st))
                    elif not isinstance(p_, ast.UnaryOp):
                        dd.append((src(p_), st))
            cons = f"{fn.short()}:{key}:np.empty-covered"
            names = {n_ for n_, _ in dd}
            # complementary pair: one index set is np.setdiff1d(range, other)
            compl = False
            for a_ in names:
                for d in assigns.get(a_, []):
                    if isinstance(d.value, ast.Call) and src(
                            d.value.func) in ("np.setdiff1d",
                                              "numpy.setdiff1d") and any(
                            isinstance(x, ast.Name) and x.id in names
                            and x.id != a_ for x in ast.walk(d.value)):
                        compl = True
            # a boolean mask and its negation: N[:, m] = ..; N[:, ~m] = ..
            inv = set()
            for st in stores:
                tgt = st.targets[0] if isinstance(st, ast.Assign) \
                    else st.target
                for x in ast.walk(tgt.slice):
                    if isinstance(x, ast.UnaryOp) and isinstance(
                            x.op, ast.Invert) and isinstance(
                            x.operand, ast.Name):
                        inv.add(x.operand.id)
            if inv & names:
                compl = True
            if not dd or compl:
                rep.ok(R6, cons, "every entry is written (integer / loop / "
                       "slice indices" + (", complementary index sets)"
                                          if compl else ")"),
                       sample=False)
            else:
                nm, st = dd[0]
                rep.fail(R6, fn.path, fn.short(), cons,
                         f"'{src(emp[0])[:50]}' is filled through the "
                         f"data-dependent index '{nm}' "
                         f"('{src(st)[:50]}'): where nothing matches the "
                         f"entries keep what the allocator left, and they "
                         f"are read afterwards - the result depends on what "
                         f"ran before (allocate with np.zeros / np.full, or "
                         f"raise when something is left unmatched)",
                         st.lineno)
    if nbuf < 6:
        raise AnalysisError(f"only {nbuf} np.empty buffers found")
    # ---- (b) facets_around
    mcls = model.cls("skfem.mesh.mesh", "Mesh")
    fa = mcls.methods["facets_around"]

    def structures():
        S = range(3)
        for a, b in product(S, S):
            yield 2, [(0, a, 1, b)]
        for a, b, c, d in product(S, S, S, S):
            if b == c:
                continue
            yield 3, [(0, a, 1, b), (1, c, 2, d)]
    cap = {}

    def hook(interp, name, args, kwargs, node):
        if name.endswith("OrientedBoundary"):
            cap["ob"] = (args[0], args[1])
            return ("OB", args[0], args[1])
        return nlite.hook(interp, name, args, kwargs, node)
    ncase, bad = 0, None
    for ncell, shared in structures():
        t2f = [[None] * ncell for _ in range(3)]
        nf = 0
        for (c1, s1, c2, s2) in shared:
            t2f[s1][c1] = nf
            t2f[s2][c2] = nf
            nf += 1
        for c in range(ncell):
            for k in range(3):
                if t2f[k][c] is None:
                    t2f[k][c] = nf
                    nf += 1
        f2t = [[-1] * nf, [-1] * nf]
        for c in range(ncell):
            for k in range(3):
                f = t2f[k][c]
                f2t[0 if f2t[0][f] == -1 else 1][f] = c
        for mask in range(1, 2 ** ncell):
            els = [c for c in range(ncell) if mask >> c & 1]
            for flip in (False, True):
                ncase += 1
                obj = Obj(mcls, {
                    "t2f": NArr([list(r) for r in t2f]),
                    "f2t": NArr([list(r) for r in f2t]),
                    "normalize_elements": PyFunc(lambda a, k, n: a[0])})
                try:
                    r = Interp(model, call_hook=hook).call(
                        fa, [NArr(els)], {"flip": flip}, self_obj=obj)
                except Raised:
                    continue          # refusing is fine
                except Unsupported as e:
                    raise AnalysisError(f"Mesh.facets_around outside "
                                        f"grammar: {e}")
                if not (isinstance(r, tuple) and r[0] == "OB"):
                    raise AnalysisError("Mesh.facets_around: no "
                                        "OrientedBoundary returned")
                F, O = [int(x) for x in r[1].data], \
                    [int(x) for x in r[2].data]
                for f, o in zip(F, O):
                    if o not in (0, 1) or f2t[o][f] == -1:
                        bad = bad or (f"cells {els} of {ncell} "
                                      f"(f2t = {f2t}), flip={flip}: facet "
                                      f"{f} gets ori = {o}, but "
                                      f"f2t[{o}, {f}] = -1")
    if bad:
        rep.fail(R6, fa.path, "Mesh.facets_around",
                 "Mesh.facets_around:existing-cell",
                 f"{bad}: the oriented set designates a cell that does not "
                 f"exist; FacetBasis takes -1 for the last cell, and the "
                 f"normals of that facet are read from an uninitialised "
                 f"buffer", fa.lineno)
    else:
        rep.ok(R6, "Mesh.facets_around:existing-cell",
               f"{ncase} (incidence structure, cell subset, flip) cases: "
               f"every orientation designates an existing cell")
    # ---- (b) facets_satisfying(normal=...)
    fs = mcls.methods["facets_satisfying"]
    f2t = [[0, 0, 0, 1, 1], [1, -1, -1, -1, -1]]

    class PS:
        skv_isarray = True

        def skv_getitem(self, ix):
            return self

        def skv_getattr(self, name):
            if name in ("mean", "T"):
                return self if name == "T" else PyFunc(
                    lambda a, k, n: self)
            raise Unsupported("points." + name)

        def skv_compare(self, op, other):
            return self

    def hook2(interp, name, args, kwargs, node):
        if name.endswith("OrientedBoundary"):
            return ("OB", args[0], args[1])
        if name == "numpy.argmax" and isinstance(args[0], PS):
            return "LOCAL-FACET"
        if name == "numpy.array" and args and args[0] == []:
            return PS()         # reference midpoints of the local facets
        if name == "numpy.dot":
            return NArr([-1] * 5)       # every facet 'against' the normal
        if name == "numpy.zeros" and isinstance(args[0], tuple):
            return "X0"
        return nlite.hook(interp, name, args, kwargs, node)
    obj = Obj(mcls, {
        "p": PS(), "facets": "FACETS", "f2t": NArr([list(r) for r in f2t]),
        "t2f": PS(), "dim": PyFunc(lambda a, k, n: 2),
        "elem": Obj(None, {"refdom": Obj(None, {"p": PS(), "facets": []})}),
        # the midpoints only feed the predicate, which selects everything
        "_facet_midpoints": PyFunc(lambda a, k, n: PS()),
        "boundary_facets": PyFunc(lambda a, k, n: NArr([1, 2, 3, 4])),
        "_mapping": PyFunc(lambda a, k, n: Obj(None, {
            "normals": PyFunc(lambda a2, k2, n2: PS())}))})
    test = PyFunc(lambda a, k, n: NArr([True] * 5))
    try:
        r = Interp(model, call_hook=hook2).call(
            fs, [test], {"normal": "NORMAL"}, self_obj=obj)
    except (Unsupported, Raised) as e:
        raise AnalysisError(f"Mesh.facets_satisfying(normal=...): {e}")
    if not (isinstance(r, tuple) and r[0] == "OB"):
        raise AnalysisError("Mesh.facets_satisfying(normal=...): no "
                            "OrientedBoundary returned")
    F, O = [int(x) for x in r[1].data], [int(x) for x in r[2].data]
    wrong = [(f, o) for f, o in zip(F, O) if f2t[o][f] == -1]
    if wrong:
        rep.fail(R6, fs.path, "Mesh.facets_satisfying",
                 "Mesh.facets_satisfying[normal]:existing-cell",
                 f"with the requested normal pointing into the domain the "
                 f"exterior facets {[f for f, _ in wrong]} get ori = 1 "
                 f"although they have no second cell (the reader of mesh "
                 f"files sets ori[f2t[1] == -1] = 0 in the same situation)",
                 fs.lineno)
    else:
        rep.ok(R6, "Mesh.facets_satisfying[normal]:existing-cell",
               "exterior facets keep the only possible orientation")


def run(model: Model, rep, tier: str) -> None:
    rep.rule("C15-R1", "every memoisation guard/key covers the content of "
             "all parameters the cached value depends on")
    rep.rule("C15-R2", "attributes read by parameter-free caches are stored "
             "in constructors only")
    rep.rule("C15-R3", "constructors store a cache's inputs before its "
             "first lazy read")
    rep.rule("C15-R4", "closures only read what they capture; no writes to "
             "process-global or class-level shared state")
    rep.rule("C15-R5", "no function stores into storage reachable from its "
             "parameters (documented outputs excepted, one symbol each)")
    rep.rule("C15-R6", "no result is read from uninitialised memory: "
             "np.empty buffers covered structurally; oriented facet sets "
             "designate existing cells")
    _uninitialised(model, rep)
    _cache_entries_not_handed_out(model, rep)
    _hidden_randomness(model, rep)
    an = Analyzer(model)
    sites = _memo_rules(model, an, rep)
    _ctor_order(model, an, rep, sites)
    _closures_and_globals(model, an, rep)
    n = _operands(model, an, rep, sites)
    if n < 500:
        raise AnalysisError(f"only {n} functions analysed for effects "
                            f"(543 confirmed by hand)")
    rep.require_min("C15-R1", 26)
    rep.require_min("C15-R2", 10)
    rep.require_min("C15-R4", 15)


_U = "skfem/utils.py"
_CB = "skfem/assembly/basis/composite_basis.py"
_QP = "skfem/element/element_quad/element_quadp.py"
_LP = "skfem/element/element_line/element_line_pp.py"
_GUARD = "        if self._X.shape != X.shape or (self._X != X).any():"
MUTANTS = [
    ("symmetric eigensolver starts from the constant vector",
     (_U, "        v0 = np.random.default_rng(0).standard_normal(K.shape[0])"
      "\n        return eigsh(", "        v0 = np.ones(K.shape[0])\n"
      "        return eigsh("), "C15-R4"),
    ("symmetric eigensolver hands a non-canonical mass matrix to ARPACK",
     (_U, "        if not getattr(M, 'has_canonical_format', True):\n"
      "            M = M.copy()  # regular mode factorises M through a view"
      "\n        # a fixed start vector: ARPACK draws a random one "
      "otherwise; it must\n        # be generic (a constant vector is "
      "invariant under the symmetries of\n        # the mesh and in the "
      "kernel of an unconstrained stiffness matrix)\n        v0 = "
      "np.random.default_rng(0).standard_normal(K.shape[0])\n        "
      "return eigsh(",
      "        v0 = np.random.default_rng(0).standard_normal(K.shape[0])\n"
      "        return eigsh("), "C15-R5"),
    ("direct solver hands a non-canonical operand to spsolve",
     (_U, "        if not getattr(A, 'has_canonical_format', True):\n            A = A.copy()  "
      "# spsolve sorts the indices of its operand in place\n", ""),
     "C15-R5"),
    ("symmetric eigensolver leaves the start vector to ARPACK",
     (_U, "        return eigsh(K, M=M, **{'v0': v0, **params, "
      "**solve_time_kwargs})",
      "        return eigsh(K, M=M, **{**params, **solve_time_kwargs})"),
     "C15-R4"),
    ("affine normals gathered into an uninitialised buffer",
     ("skfem/mapping/mapping_affine.py",
      "        N = np.zeros((self.dim, len(find)))",
      "        N = np.empty((self.dim, len(find)))"), "C15-R6"),
    ("facets_around keeps the orientation towards the missing neighbour",
     ("skfem/mesh/mesh.py",
      "                   .astype(np.int32))\n        # an exterior facet "
      "has one cell only: the only valid ori\n        ori[self.f2t[1, facets]"
      " == -1] = 0\n",
      "                   .astype(np.int32))\n"), "C15-R6"),
    ("facets_satisfying keeps ori = 1 on exterior facets",
     ("skfem/mesh/mesh.py",
      "            ori = 1 * (np.dot(normal, normals) < 0)\n            # an "
      "exterior facet has one cell only: the only valid ori\n            "
      "ori[self.f2t[1, facets] == -1] = 0\n",
      "            ori = 1 * (np.dot(normal, normals) < 0)\n"), "C15-R6"),
    ("Legendre tables of the quadrilateral kept unless all entries differ",
     (_QP, _GUARD,
      "        if self._X.shape != X.shape or (self._X != X).all():"),
     "C15-R1"),
    ("Legendre tables of the line kept when one entry coincides",
     (_LP, _GUARD,
      "        if self._X.shape != X.shape or not (self._X == X).any():"),
     "C15-R1"),
    ("quadrilateral finder cached in a dataclass field",
     [("skfem/mesh/mesh_quad_1.py",
       "    elem: Type[Element] = ElementQuad1\n",
       "    elem: Type[Element] = ElementQuad1\n    _finder: Optional["
       "object] = None\n"),
      ("skfem/mesh/mesh_quad_1.py",
       "        tri_finder = self.to_meshtri().element_finder()\n\n"
       "        def finder(*args):\n            return tri_finder(*args) % "
       "self.t.shape[1]\n\n        return finder",
       "        if self._finder is None:\n            tri_finder = "
       "self.to_meshtri().element_finder()\n            nelems = "
       "self.t.shape[1]\n\n            def finder(*args):\n"
       "                return tri_finder(*args) % nelems\n\n"
       "            self._finder = finder\n\n        return self._finder")],
     "C15-R2"),
    ("composite basis shifts its factors' DOF tables in place",
     (_CB, "            dofs = []\n            offset = 0\n            for "
      "basis in self.bases:\n                dofs.append(basis.element_dofs "
      "+ offset)\n                if not self.equal_dofnum:\n"
      "                    offset += basis.N\n",
      "            dofs = [basis.element_dofs for basis in self.bases]\n"
      "            if not self.equal_dofnum:\n                offsets = "
      "np.cumsum([0] + [basis.N for basis in self.bases])\n"
      "                for k in range(1, len(dofs)):\n"
      "                    dofs[k] += offsets[k]\n"), "C15-R5"),
    ("with_boundaries writes new names into the operand's table",
     ("skfem/mesh/mesh.py",
      "        return replace(\n            self,\n            _boundaries={"
      "\n                **({} if self._boundaries is None else "
      "self._boundaries),\n                **{name: self.facets_satisfying("
      "test_or_set, boundaries_only)\n                   if callable("
      "test_or_set)\n                   else self._mask_to_indices("
      "test_or_set)\n                   for name, "
      "test_or_set in boundaries.items()}\n            },\n        )",
      "        tagged = {} if self._boundaries is None else "
      "self._boundaries\n        for name, test_or_set in "
      "boundaries.items():\n            tagged[name] = test_or_set\n"
      "        return replace(self, _boundaries=tagged)"), "C15-R5"),
    ("line quadrature rule memoised with lru_cache",
     [("skfem/quadrature.py", "from typing import Tuple, Type, Union\n",
       "from functools import lru_cache\nfrom typing import Tuple, Type, "
       "Union\n"),
      ("skfem/quadrature.py", "def get_quadrature_line(norder: int)",
       "@lru_cache(maxsize=None)\ndef get_quadrature_line(norder: int)")],
     "C15-R1"),
    ("CG solver accumulates into the caller's right-hand side",
     ("skfem/utils.py", "            x = x + alpha * p\n",
      "            x += alpha * p\n"), "C15-R5"),
    ("ElementQuadP guard reduced to shapes",
     ("skfem/element/element_quad/element_quadp.py",
      "if self._X.shape != X.shape or (self._X != X).any():",
      "if self._X.shape != X.shape:"), "C15-R1"),
    ("ElementQuadP snapshot stored without a copy",
     ("skfem/element/element_quad/element_quadp.py",
      "            self._X = X.copy()", "            self._X = X"), "C15-R1"),
    ("ElementGlobal cache keyed on None only (repair reverted)",
     ("skfem/element/element_global.py",
      "if self.V is None or self._V_mesh is not mapping.mesh:",
      "if self.V is None:"), "C15-R1"),
    ("ElementLinePp compares sizes only (repair reverted)",
     ("skfem/element/element_line/element_line_pp.py",
      "if self._X.shape != X.shape or (self._X != X).any():",
      "if self._X.shape != X.shape:"), "C15-R1"),
    ("hash_args drops shape and dtype (repair reverted)",
     ("skfem/generic_utils.py",
      "hash((arg.shape, arg.dtype.str, arg.tobytes()))",
      "hash(arg.tobytes())"), "C15-R1"),
    ("Jacobian cache key omits the cell subset",
     ("skfem/mapping/mapping_isoparametric.py",
      "h = hash_args(i, j, X, tind)", "h = hash_args(i, j, X)"), "C15-R1"),
    ("new parameter-dependent cache on MappingAffine.F",
     ("skfem/mapping/mapping_affine.py",
      "        if len(X.shape) == 2:\n            return (np.einsum('ijk,jl', "
      "A, X).T + b.T).T",
      "        if len(X.shape) == 2:\n            if not hasattr(self, "
      "'_Fc'):\n                self._Fc = (np.einsum('ijk,jl', A, X).T + "
      "b.T).T\n            return self._Fc"), "C15-R1"),
    ("mesh connectivity reassigned by a method after construction",
     ("skfem/mesh/mesh.py",
      "    def remove_unused_nodes(self):\n",
      "    def _compact(self):\n        self.t = self.t.copy()\n\n"
      "    def remove_unused_nodes(self):\n"), "C15-R2"),
    ("basis cell subset reassigned in a method",
     ("skfem/assembly/basis/cell_basis.py",
      "    def default_parameters(self):\n",
      "    def _retarget(self, tind):\n        self.tind = tind\n\n"
      "    def default_parameters(self):\n"), "C15-R2"),
    ("solver closure updates the captured options again",
     (_U, "        return spl.spsolve(A, b, **{**kwargs, "
      "**solve_time_kwargs})",
      "        kwargs.update(solve_time_kwargs)\n        return "
      "spl.spsolve(A, b, **kwargs)"), "C15-R4"),
    ("preconditioner stored into the captured options",
     (_U, "        opts = {**kwargs, **solve_time_kwargs}\n        if 'M' "
      "not in opts:\n            opts['M'] = build_pc_diag(A)",
      "        opts = kwargs\n        if 'M' not in opts:\n            "
      "opts['M'] = build_pc_diag(A)"), "C15-R4"),
    ("global RNG reseeded again",
     ("skfem/mesh/mesh_tet_1.py",
      "        rng = np.random.RandomState(1337)\n        p = p - p[:, "
      "t[0, :1]]\n        p = p + 1e-10 * np.abs(p[:, t]).max() * "
      "rng.random_sample(p.shape)",
      "        np.random.seed(1337)\n        p = p - p[:, t[0, :1]]\n"
      "        p = p + 1e-10 * np.abs(p[:, t]).max() * "
      "np.random.random(p.shape)"), "C15-R4"),
    ("to_meshio merges its keys into the caller's dictionary (no copy, "
     "in-place update)",
     ("skfem/io/meshio.py",
      "    if cell_data is not None:\n        cell_data = {k: (list(v) if "
      "isinstance(v, (list, tuple)) else [v])\n                     for k, "
      "v in cell_data.items()}\n\n    if encode_cell_data:\n        "
      "cell_data = {**({} if cell_data is None else cell_data),\n"
      "                     **mesh._encode_cell_data()}",
      "    if encode_cell_data:\n        if cell_data is None:\n"
      "            cell_data = {}\n        cell_data.update("
      "mesh._encode_cell_data())"), "C15-R5"),
    ("from_dict works on its argument again",
     ("skfem/mesh/mesh.py", "        data = dict(data)  # do not modify the "
      "argument\n", ""), "C15-R5"),
    ("enforce: copy of the matrix dropped",
     (_U, "    Aout = A if overwrite else A.copy()\n\n    # set rows on lhs "
      "to zero", "    Aout = A\n\n    # set rows on lhs to zero"), "C15-R5"),
    ("penalize: right-hand side modified in place",
     (_U, "    bout = b if overwrite else b.astype(np.result_type(b, x, "
      "np.float32))\n    bout[D] = x[D] / epsilon", "    bout = b\n    "
      "bout[D] = x[D] / epsilon"), "C15-R5"),
    ("mesh transformation writes into the operand's points",
     ("skfem/mesh/mesh.py", "    def remove_unused_nodes(self):\n",
      "    def _shifted(self, d):\n        p = self.doflocs\n        "
      "p[0] += d\n        return replace(self, doflocs=p)\n\n"
      "    def remove_unused_nodes(self):\n"), "C15-R5"),
    ("helper sorts the caller's index array in place",
     (_U, "def _flatten_dofs(S: Optional[DofsCollection]) -> "
      "Optional[ndarray]:\n",
      "def _sorted_inplace(S):\n    S.sort()\n    return S\n\n\n"
      "def _flatten_dofs(S: Optional[DofsCollection]) -> "
      "Optional[ndarray]:\n"), "C15-R5"),
]
TWINS = [
    ("eigensolver start vector: a generic deterministic vector without a "
     "generator",
     (_U, "        v0 = np.random.default_rng(0).standard_normal(K.shape[0])"
      "\n        return eigsh(",
      "        v0 = np.sin(1. + np.arange(K.shape[0]) ** 2)\n"
      "        return eigsh(")),
    ("eigensolver start vector set into the parameter dictionary",
     (_U, "        return eigsh(K, M=M, **{'v0': v0, **params, "
      "**solve_time_kwargs})",
      "        opts = {**params, **solve_time_kwargs}\n"
      "        opts.setdefault('v0', v0)\n"
      "        return eigsh(K, M=M, **opts)")),
    ("direct solver always copies its operand",
     (_U, "        if not getattr(A, 'has_canonical_format', True):\n            A = A.copy()  "
      "# spsolve sorts the indices of its operand in place\n",
      "        A = A.copy()\n")),
    ("exterior facets re-oriented with np.where",
     ("skfem/mesh/mesh.py",
      "            ori[self.f2t[1, facets] == -1] = 0\n            return "
      "OrientedBoundary(facets, ori)",
      "            ori = np.where(self.f2t[1, facets] == -1, 0, ori)\n"
      "            return OrientedBoundary(facets, ori)")),
    ("thread workers collect their failures in a list of the call",
     ("skfem/assembly/form/bilinear_form.py",
      "                    errors.append(e)",
      "                    errors.extend([e])")),
    ("Legendre guard spelled 'not all equal'",
     (_QP, _GUARD,
      "        if self._X.shape != X.shape or not (self._X == X).all():")),
    ("Legendre guard spelled with np.any",
     (_LP, _GUARD,
      "        if self._X.shape != X.shape or np.any(self._X != X):")),
    ("composite basis shifts copies of its factors' DOF tables",
     (_CB, "            dofs = []\n            offset = 0\n            for "
      "basis in self.bases:\n                dofs.append(basis.element_dofs "
      "+ offset)\n                if not self.equal_dofnum:\n"
      "                    offset += basis.N\n",
      "            dofs = [basis.element_dofs.copy() for basis in "
      "self.bases]\n            if not self.equal_dofnum:\n"
      "                offsets = np.cumsum([0] + [basis.N for basis in "
      "self.bases])\n                for k in range(1, len(dofs)):\n"
      "                    dofs[k] += offsets[k]\n")),
    ("with_boundaries builds the merged table in a copy",
     ("skfem/mesh/mesh.py",
      "                **({} if self._boundaries is None else "
      "self._boundaries),",
      "                **({} if self._boundaries is None else "
      "dict(self._boundaries)),")),
    ("CG solver accumulates into its own copy of the right-hand side",
     [("skfem/utils.py", "            x = x + alpha * p\n",
       "            x += alpha * p\n"),
      ("skfem/utils.py", "        x = b\n        r = b - A.dot(x)\n",
       "        x = b.copy()\n        r = b - A.dot(x)\n")], None),
    ("cache key extended by an extra component",
     ("skfem/mapping/mapping_isoparametric.py",
      "h = hash_args(i, j, X, tind)", "h = hash_args(i, j, X, tind, "
      "self.dim)")),
    ("solver merges options with dict()",
     (_U, "        return spl.spsolve(A, b, **{**kwargs, "
      "**solve_time_kwargs})",
      "        opts = dict(kwargs)\n        opts.update(solve_time_kwargs)\n"
      "        return spl.spsolve(A, b, **opts)")),
    ("enforce works on an explicit copy",
     (_U, "    Aout = A if overwrite else A.copy()\n\n    # set rows on lhs "
      "to zero", "    Aout = A if overwrite else A.copy()\n    Aout = "
      "Aout.copy()\n\n    # set rows on lhs to zero")),
    ("from_dict copies with a comprehension",
     ("skfem/mesh/mesh.py", "        data = dict(data)  # do not modify the "
      "argument\n", "        data = {k: v for k, v in data.items()}\n")),
]
