"""C11 - derived mesh connectivity is coherent with the cell list: layout
agreement in build_entities / build_inverse / incidence matrices, exact audit
of the Refdom facet and edge tables against the reference polytopes,
sentinel agreement, complements."""
from __future__ import annotations

import ast
from fractions import Fraction
from itertools import combinations
from typing import Any, Dict, List, Optional, Set, Tuple

from ..elements import RefdomInfo, load_refdoms
from ..interp import (Arr, Interp, Obj, PyFunc, Raised, Unsupported, PTS)
from ..model import staged, AnalysisError, Model, src, walk_no_nested
from ..poly import Poly

PID = "C11"
LEVEL = "other"
TECHNIQUE = ("layout algebra: symbolic run of build_entities / "
             "build_inverse / p2f / p2t / p2e with flat arrays typed by "
             "their (major, minor) index roles and symbolic extents; exact "
             "convex-geometry audit of the Refdom facet/edge/normal tables "
             "(faces of the reference polytope from its literal vertices); "
             "sentinel and row agreement between the writer of f2t and all "
             "its readers")
LEVEL_TEXT = (
    "Decides: (R1) the inverse index of np.unique in build_entities is "
    "reshaped to (local slot, cell) in exactly the order the per-slot blocks "
    "were stacked; build_inverse flattens the table and tiles the cell "
    "numbers in the same (slot, cell) order, maps positions of the reversed "
    "array back correctly and writes first/last occurrence to rows 0/1; the "
    "incidence matrices pair the flattened table with the repeated entity "
    "numbers in one order; (R2) for all seven reference cells the listed "
    "facets are exactly the facets of the convex hull of the listed "
    "vertices, the listed edges exactly its 1-faces, counts equal table "
    "lengths, quadrilateral faces are listed cyclically (needed where facets "
    "are built unsorted), brefdom has the facets' vertex count; (R3) the "
    "'no second neighbour' marker written by build_inverse is the value and "
    "row every reader tests; (R4) interior sets are set complements of the "
    "boundary sets. Uniqueness/ordering delivered by np.unique and "
    "statements about concrete meshes are not decided.")
LEVEL_TEXT += (
    " Added after the seeding phase: (R5) no product of two size-dependent "
    "index quantities in the int32 arithmetic of the connectivity tables "
    "without widening.")
LEVEL_TEXT += (
    " Added in the hunting round (defects found by independent agents "
    "on the unchanged tree, DESIGN.md 9.4 / 9.6): "
    "complements are taken among the vertices, not the stored points; "
    "quadrilateral facets are stored unsorted where boundary_edges "
    "pairs consecutive rows; padded facets are one facet whichever "
    "vertex is repeated (exact interpretation of build_entities); p2f "
    "holds 0 and 1.")
LEVEL_TEXT += (
    " Added in the second hunting round (DESIGN.md 9.6): "
    "complements within the stored points are taken against the full "
    "node table (points versus vertices).")
LEVEL_NOTE = ("Trusted: numpy unique/hstack/reshape/tile/flatten/sort "
              "semantics; scipy coo_matrix((data, (row, col))).")
EXPLANATION = "Layout-typed symbolic runs + exact polytope audit."
TRUSTED = ["numpy unique(return_index/return_inverse), reshape, tile, "
           "flatten", "scipy.sparse.coo_matrix"]
ASSUMPTIONS = ["cells are non-degenerate (distinct vertices)"]

MESH = "skfem.mesh.mesh"
FM = "skfem/mesh/mesh.py"
S, N = Poly.sym("S"), Poly.sym("N")


class Lay:
    """flat or 2-D array whose positions are indexed by named roles.
    ``dims``: tuple of (role, extent) major -> minor for the flat order;
    ``axes``: None (1-D) or tuple of tuples of dims per array axis."""
    skv_isarray = True

    def __init__(self, dims, axes=None, what="", rev=False):
        self.dims, self.axes, self.what, self.rev = tuple(dims), axes, what, \
            rev

    def size(self):
        p = Poly.const(1)
        for _, e in self.dims:
            p = p * e
        return p

    def skv_getattr(self, name):
        if name == "shape":
            if self.axes is None:
                return (self.size(),)
            out = []
            for ax in self.axes:
                p = Poly.const(1)
                for _, e in ax:
                    p = p * e
                out.append(p)
            return tuple(out)
        if name == "flatten":
            def fl(a, k, n):
                order = k.get("order", a[0] if a else "C")
                if self.axes is None or order in ("C", "c"):
                    dims = [d for ax in self.axes for d in ax] \
                        if self.axes else list(self.dims)
                    return Lay(dims, None, self.what)
                dims = [d for ax in reversed(self.axes) for d in ax]
                return Lay(dims, None, self.what)
            return PyFunc(fl)
        if name == "reshape":
            def rs(a, k, n):
                shp = a[0] if len(a) == 1 and isinstance(a[0], tuple) else a
                order = k.get("order", "C")
                return _reshape(self, shp, order)
            return PyFunc(rs)
        raise Unsupported(f"attribute {name} of a layout-typed array")

    def skv_binop(self, op, other, reflected):
        # index arithmetic (checked separately as a polynomial identity)
        if isinstance(op, (ast.Sub, ast.Add)) and not isinstance(other, Lay):
            return Lay(self.dims, self.axes, self.what, self.rev)
        raise Unsupported("arithmetic on a layout-typed array")

    def skv_getitem(self, ix):
        if isinstance(ix, slice) and ix == slice(None, None, -1) and \
                self.axes is None:
            return Lay(self.dims, None, self.what, rev=not self.rev)
        if isinstance(ix, Lay):
            return Gathered(self, ix)
        if isinstance(ix, tuple) and len(ix) == 2 and isinstance(
                ix[0], slice) and ix[0] == slice(None) and isinstance(
                ix[1], Lay):
            return Gathered(self, ix[1])
        if ix == 0 and self.axes is not None and len(self.axes) == 2:
            e = Poly.const(1)
            for _, x in self.axes[0]:
                e = e * x
            if e == Poly.const(1):
                return Lay([d for d in self.axes[1]], None, self.what)
        raise Unsupported(f"index {ix!r} into a layout-typed array")

    def __repr__(self):
        return f"{self.what}[" + "][".join(r for r, _ in self.dims) + "]"


class Gathered:
    skv_isarray = True

    def __init__(self, src_, idx):
        self.src, self.idx = src_, idx


def _reshape(lay: Lay, shp, order):
    if lay.axes is not None:
        raise Unsupported("reshape of a 2-D layout")
    if order not in ("C", "c"):
        raise Unsupported("non-C reshape")
    shp = [Poly.coerce(x) for x in shp]
    dims = list(lay.dims)
    axes = []
    k = 0
    for ext in shp:
        acc, got = Poly.const(1), []
        while k < len(dims) and acc != ext:
            acc = acc * dims[k][1]
            got.append(dims[k])
            k += 1
        if acc != ext:
            return BadReshape(lay, shp)
        axes.append(tuple(got))
    if k != len(dims):
        return BadReshape(lay, shp)
    return Lay(dims, tuple(axes), lay.what)


class BadReshape:
    def __init__(self, lay, shp):
        self.lay, self.shp = lay, shp


def _v(rep, rule, ok, cons, okmsg, qual, badmsg, line, path=FM):
    if ok:
        rep.ok(rule, cons, okmsg)
    else:
        rep.fail(rule, path, qual, cons, badmsg, line)


# ----------------------------------------------------------------------
def _layout_rules(model, rep):
    R1 = "C11-R1"
    mcls = model.cls(MESH, "Mesh")
    NS = 3                       # representative number of local slots

    class TStub:
        def skv_getitem(self, ix):
            return Lay([("vertex-of-slot", Poly.const(1)),
                        ("cell", N)], None, f"t[{ix}]")

        def skv_getattr(self, name):
            if name == "shape":
                return (Poly.sym("nverts"), N)
            raise Unsupported("t." + name)
    uniq = {}

    def hook(interp, name, args, kwargs, node):
        if name == "numpy.hstack":
            blocks = list(args[0])
            if all(isinstance(b, Lay) for b in blocks):
                return Lay([("slot", Poly.const(len(blocks)))
                            if False else ("slot", S), ("cell", N)], None,
                           "stack")
            return NotImplemented
        if name == "numpy.sort":
            return args[0]
        if name == "numpy.unique":
            v = args[0]
            if isinstance(v, Lay):
                outs = [Lay([("entity", Poly.sym("E"))], None, "unique")]
                if kwargs.get("return_index"):
                    outs.append(Lay([("entity", Poly.sym("E"))], None,
                                    "first-index" + ("-of-reversed"
                                                     if v.rev else "")))
                if kwargs.get("return_inverse"):
                    outs.append(Lay(v.dims, None, "label"))
                uniq[id(outs[0])] = v
                return tuple(outs) if len(outs) > 1 else outs[0]
            return NotImplemented
        if name == "numpy.ascontiguousarray":
            return args[0]
        if name == "numpy.arange":
            return Lay([("cell" if args[0] == N else "i", args[0])], None,
                       "arange")
        if name == "numpy.tile":
            a, reps = args
            if isinstance(a, Lay) and isinstance(reps, tuple) and \
                    len(reps) == 2:
                r0, r1 = (Poly.coerce(x) for x in reps)
                return Lay([("rep0", r0), ("rep", r1)] + list(a.dims),
                           ((("rep0", r0),),
                            tuple([("rep", r1)] + list(a.dims))), a.what)
            return NotImplemented
        return NotImplemented
    # ---- build_entities
    fn = mcls.methods["build_entities"]
    indices = [f"ix{k}" for k in range(NS)]

    class Idx(list):
        pass
    it = Interp(model, call_hook=hook)
    # loops over the (symbolic) number of vertices per entity only move
    # values within a column: neutral for the layout tracked here
    it.symbolic_range = lambda n: []

    def len_hook(v):
        return S
    idx = Idx(indices)
    idx.skv_len = lambda: S
    try:
        r = it.call(fn, [TStub(), idx], {})
    except (Unsupported, Raised) as e:
        raise AnalysisError(f"build_entities: {e}")
    mp = r[1] if isinstance(r, tuple) and len(r) == 2 else None
    ok = isinstance(mp, Lay) and mp.axes is not None and \
        [tuple(r_ for r_, _ in ax) for ax in mp.axes] == [("slot",),
                                                          ("cell",)] and \
        mp.what == "label"
    bad = isinstance(mp, BadReshape)
    _v(rep, R1, ok, "build_entities:inverse-reshape",
       "entity labels of the stacked [slot][cell] columns reshaped to "
       "(slots, cells)", "Mesh.build_entities",
       ("the inverse index is reshaped to "
        f"{tuple(map(str, mp.shp))} although the columns were stacked slot "
        f"by slot: t2f[k, c] no longer names local entity k of cell c"
        if bad else f"cell-to-entity table has layout {mp!r}"), fn.lineno)
    # unsorted variant (hexahedral facets keep their cyclic vertex order):
    # one representative column per entity = its first occurrence
    try:
        it2 = Interp(model, call_hook=hook)
        it2.symbolic_range = lambda n: []
        r2 = it2.call(fn, [TStub(), idx], {"sort": False})
    except (Unsupported, Raised) as e:
        raise AnalysisError(f"build_entities(sort=False): {e}")
    ent = r2[0] if isinstance(r2, tuple) and len(r2) == 2 else None
    ok2 = isinstance(ent, Gathered) and ent.src.what == "stack" and \
        ent.idx.what == "first-index" and isinstance(r2[1], Lay) and \
        r2[1].what == "label"
    _v(rep, R1, ok2, "build_entities[sort=False]:representative",
       "unsorted entities = the stacked (unsorted) columns at the first "
       "occurrence of each unique sorted tuple", "Mesh.build_entities",
       "with sort=False the entity table is not taken from the unsorted "
       "columns at the first-occurrence index of each entity (cyclic "
       "vertex order of hexahedral faces is lost or mismatched)",
       fn.lineno)
    # ---- build_inverse
    fn = mcls.methods["build_inverse"]
    mapping = Lay([("slot", S), ("cell", N)],
                  ((("slot", S),), (("cell", N),)), "t2f")
    stores = []

    class Inv:
        def skv_setitem(self, ix, v):
            stores.append((ix, v))

        def skv_getitem(self, ix):
            return ("row", ix)

    def hook2(interp, name, args, kwargs, node):
        if name == "numpy.zeros":
            return Inv()
        if name == "numpy.max":
            return Poly.sym("maxlabel")
        if name == "numpy.nonzero":
            return [("nonzero", args[0])]
        return hook(interp, name, args, kwargs, node)

    class T2:
        def skv_getattr(self, name):
            if name == "shape":
                return (S, N)
            raise Unsupported("t." + name)
    it = Interp(model, call_hook=hook2)
    # t.shape = (slots?, cells): build_inverse receives (t, mapping) and
    # tiles arange(t.shape[1]) t.shape[0] times; the rule checks the tile
    # count against the *mapping's* slot count, see below

    class T3:
        def skv_getattr(self, name):
            if name == "shape":
                return (Poly.sym("nverts"), N)
            raise Unsupported("t." + name)
    try:
        env_locals = {}
        it.call(fn, [T3(), mapping], {})
    except (Unsupported, Raised) as e:
        raise AnalysisError(f"build_inverse: {e}")
    # reconstruct e and tix layouts from the stores: value = Gathered(tix,
    # index) ; index = first-index array of unique(e)
    first = [s for s in stores if isinstance(s[1], Gathered)]
    ok_pair = len(first) == 2
    detail = ""
    rows = {}
    for ix, g in first:
        tix = g.src
        which = g.idx.what
        rows[ix[0] if isinstance(ix, tuple) else None] = which
        lab = uniq.get(id(ix[1])) if isinstance(ix, tuple) else None
        # e's layout
        if lab is None:
            ok_pair = False
            detail = "row index is not the unique label array"
            continue
        e_roles = [r for r, _ in lab.dims]
        t_roles = [r for r, e_ in tix.dims if e_ != Poly.const(1)]
        # tix = tile(arange(N), (1, nverts))[0] -> [rep][cell]; e -> [slot][cell]
        if e_roles != ["slot", "cell"]:
            ok_pair = False
            detail = f"flattened table has layout {e_roles}"
        elif t_roles[-1:] != ["cell"] or len(t_roles) != 2:
            ok_pair = False
            detail = f"cell numbers have layout {t_roles}"
    _v(rep, R1, ok_pair, "build_inverse:pairing",
       "e = table.flatten('C') is [slot][cell]; tix = tile(arange(cells)) is "
       "[repeat][cell]: position p of both belongs to cell p mod cells",
       "Mesh.build_inverse",
       f"entity labels and cell numbers are laid out differently "
       f"({detail}): f2t names wrong cells", fn.lineno)
    ok_rows = rows.get(0) == "first-index" and \
        rows.get(1) == "first-index-of-reversed"
    _v(rep, R1, ok_rows, "build_inverse:first-last",
       "row 0 <- first occurrence, row 1 <- last occurrence (first of the "
       "reversed array)", "Mesh.build_inverse",
       f"neighbour rows are filled from {rows}", fn.lineno)
    # index arithmetic of the reversed positions
    asg = [n for n in walk_no_nested(fn.node) if isinstance(n, ast.Assign)
           and src(n.targets[0]) == "ix_last" and "ix_last" in src(n.value)]
    okrev = False
    if len(asg) == 1:
        try:
            v = Interp(model).eval(asg[0].value,
                                   {"ix_last": Poly.sym("j"),
                                    "e": Obj(None, {"shape": (Poly.sym("n"),)
                                                    })}, fn.module)
            okrev = Poly.coerce(v) == Poly.sym("n") - Poly.sym("j") - 1
        except Unsupported:
            okrev = False
    _v(rep, R1, okrev, "build_inverse:reversed-index",
       "position j in the reversed array is position n - 1 - j",
       "Mesh.build_inverse", "positions found in the reversed label array "
       "are not mapped back with n - 1 - j", fn.lineno)
    # sentinel store: inverse[1, nonzero(inverse[0] == inverse[1])[0]] = -1
    sent = [s for s in stores if not isinstance(s[1], Gathered)]
    sentinel = None
    if len(sent) == 1 and isinstance(sent[0][0], tuple):
        sentinel = (sent[0][0][0], sent[0][1])
    return sentinel


def _incidence(model, rep):
    R1 = "C11-R1"
    mcls = model.cls(MESH, "Mesh")
    for prop, table, count in (("p2f", "facets", "nfacets"),
                               ("p2t", "t", "nelements"),
                               ("p2e", "edges", "nedges")):
        fn = mcls.methods[prop]
        fl = [n for n in ast.walk(fn.node) if isinstance(n, ast.Call)
              and isinstance(n.func, ast.Attribute)
              and n.func.attr == "flatten"
              and src(n.func.value) == f"self.{table}"]
        order = None
        if len(fl) == 1:
            order = fl[0].args[0].value if fl[0].args else "C"
        conc = [n for n in ast.walk(fn.node) if isinstance(n, ast.Call)
                and src(n.func) == "np.concatenate"]
        okc = False
        if len(conc) == 1 and isinstance(conc[0].args[0], ast.BinOp) and \
                isinstance(conc[0].args[0].op, ast.Mult):
            rep_ = conc[0].args[0]
            okc = src(rep_.left).replace(" ", "") == \
                f"(np.arange(self.{count}),)" and src(rep_.right) in (
                    f"self.{table}.shape[0]", "self.nnodes")
        coo = [n for n in ast.walk(fn.node) if isinstance(n, ast.Call)
               and src(n.func) == "coo_matrix"]
        okpos = False
        if len(coo) == 1 and isinstance(coo[0].args[0], ast.Tuple):
            tup = coo[0].args[0].elts
            if len(tup) == 2 and isinstance(tup[1], ast.Tuple) and \
                    len(tup[1].elts) == 2:
                okpos = tup[1].elts[0] is conc[0] if conc else False
        _v(rep, R1, order == "C" and okc and okpos, f"{prop}:pairing",
           f"{table}.flatten('C') is [row][entity]; rows = "
           f"(arange({count}),) * rows is [repeat][entity]: same order",
           f"Mesh.{prop}",
           f"the flattened {table} table (order {order!r}) and the repeated "
           f"entity numbers are not in the same order: the incidence matrix "
           f"relates wrong entities", fn.lineno)


# ----------------------------------------------------------------------
def _hull_facets(pts) -> Set[frozenset]:
    d = len(pts[0])
    n = len(pts)
    facets = set()
    if d == 1:
        lo = min(range(n), key=lambda i: pts[i][0])
        hi = max(range(n), key=lambda i: pts[i][0])
        return {frozenset([lo]), frozenset([hi])}
    for comb in combinations(range(n), d):
        o = pts[comb[0]]
        vecs = [[pts[c][k] - o[k] for k in range(d)] for c in comb[1:]]
        if d == 2:
            nrm = [vecs[0][1], -vecs[0][0]]
        else:
            a, b = vecs
            nrm = [a[1] * b[2] - a[2] * b[1], a[2] * b[0] - a[0] * b[2],
                   a[0] * b[1] - a[1] * b[0]]
        if all(x == 0 for x in nrm):
            continue
        side = [sum(nrm[k] * (p[k] - o[k]) for k in range(d)) for p in pts]
        if all(s <= 0 for s in side) or all(s >= 0 for s in side):
            facets.add(frozenset(i for i, s in enumerate(side) if s == 0))
    return facets


def _refdom_tables(model, rep):
    R2 = "C11-R2"
    refdoms = load_refdoms(model)
    for name, rd in sorted(refdoms.items()):
        path, line = rd.cls.path, rd.cls.node.lineno
        if rd.dim == 0:
            continue
        pts = rd.p
        _v(rep, R2, rd.nnodes == len(pts), f"{name}:nnodes",
           f"nnodes = {rd.nnodes} = number of listed vertices", name,
           f"nnodes = {rd.nnodes} but {len(pts)} vertices are listed", line,
           path)
        hull = _hull_facets(pts)
        listed = [frozenset(f) for f in (rd.facets or [])]
        ok = set(listed) == hull and len(listed) == len(hull)
        miss = hull - set(listed)
        extra = set(listed) - hull
        _v(rep, R2, ok, f"{name}:facets",
           f"{len(listed)} listed facets are exactly the facets of the "
           f"convex hull of the vertices", name,
           f"facet table differs from the polytope's faces: missing "
           f"{[sorted(f) for f in miss]}, not faces "
           f"{[sorted(f) for f in extra]}", line, path)
        _v(rep, R2, rd.nfacets == len(listed), f"{name}:nfacets",
           f"nfacets = {rd.nfacets} = table length", name,
           f"nfacets = {rd.nfacets} but {len(listed)} facets are listed",
           line, path)
        if rd.dim == 3:
            adj = set()
            for i, j in combinations(range(len(pts)), 2):
                if sum(1 for f in hull if i in f and j in f) >= 2:
                    adj.add(frozenset((i, j)))
            le = [frozenset(e) for e in (rd.edges or [])]
            _v(rep, R2, set(le) == adj and len(le) == len(adj),
               f"{name}:edges", f"{len(le)} listed edges are exactly the "
               f"1-faces of the polytope", name,
               f"edge table differs from the polytope's 1-faces: missing "
               f"{[sorted(e) for e in adj - set(le)]}, not edges "
               f"{[sorted(e) for e in set(le) - adj]}", line, path)
            _v(rep, R2, rd.nedges == len(le), f"{name}:nedges",
               f"nedges = {rd.nedges} = table length", name,
               f"nedges = {rd.nedges} but {len(le)} edges are listed", line,
               path)
            # cyclic order of faces with four vertex slots
            for k, f in enumerate(rd.facets or []):
                if len(f) == 4:
                    uniq = [v for i, v in enumerate(f) if v not in f[:i]]
                    cyc = all(frozenset((uniq[i], uniq[(i + 1) % len(uniq)]))
                              in adj for i in range(len(uniq)))
                    _v(rep, R2, cyc, f"{name}:facet[{k}]:cyclic",
                       f"vertices {f} are listed in cyclic order", name,
                       f"facet {k} lists its vertices {f} in a non-cyclic "
                       f"order: unsorted facet construction and the "
                       f"boundary mapping take diagonals for edges", line,
                       path)
        if rd.brefdom and rd.facets:
            bn = refdoms[rd.brefdom].nnodes if rd.brefdom in refdoms else None
            fv = {len(set(f)) for f in rd.facets}
            _v(rep, R2, refdoms[rd.brefdom].dim == rd.dim - 1
               and (bn in fv or rd.dim == 1), f"{name}:brefdom",
               f"facets are {rd.brefdom} cells", name,
               f"brefdom {rd.brefdom} does not match the facets "
               f"({sorted(fv)} vertices)", line, path)


# ----------------------------------------------------------------------
def _sentinel(model, rep, sentinel):
    R3 = "C11-R3"
    mcls = model.cls(MESH, "Mesh")
    if sentinel is None:
        rep.fail(R3, FM, "Mesh.build_inverse", "build_inverse:sentinel",
                 "no 'missing second neighbour' marker is written",
                 mcls.methods["build_inverse"].lineno)
        return
    row, val = sentinel
    rep.ok(R3, "build_inverse:sentinel", f"row {row} of a facet with one "
           f"neighbour is set to {val}")
    n = 0
    for fn in model.all_functions():
        if fn.path.startswith("skfem/visuals"):
            continue
        for node in ast.walk(fn.node):
            if not isinstance(node, ast.Compare) or len(node.ops) != 1:
                continue
            sides = [node.left, node.comparators[0]]
            for a, b in (sides, sides[::-1]):
                if isinstance(a, ast.Subscript) and isinstance(
                        a.value, ast.Attribute) and a.value.attr == "f2t" \
                        and isinstance(a.slice, ast.Constant):
                    c = None
                    if isinstance(b, ast.Constant):
                        c = b.value
                    elif isinstance(b, ast.UnaryOp) and isinstance(
                            b.op, ast.USub) and isinstance(b.operand,
                                                           ast.Constant):
                        c = -b.operand.value
                    if c is None:
                        continue
                    n += 1
                    cons = f"{fn.short()}:f2t[{a.slice.value}]" \
                           f"{type(node.ops[0]).__name__}"
                    if a.slice.value == row and c == val:
                        rep.ok(R3, cons, f"tests row {row} against {val}")
                    else:
                        rep.fail(R3, fn.path, fn.short(), cons,
                                 f"tests f2t[{a.slice.value}] against {c}, "
                                 f"but a missing neighbour is marked by "
                                 f"{val} in row {row}", node.lineno)
    if n < 3:
        raise AnalysisError(f"only {n} readers of the neighbour marker "
                            f"found (3 confirmed by hand)")


def _padded_facets(model, rep):
    """RefWedge lists its triangular faces with a repeated vertex
    ([0, 1, 2, 0]) so that all faces have four entries.  build_entities
    identifies faces by their *sorted* vertex tuples: the tuple of a padded
    triangle records which vertex was repeated, and two prisms that start
    their local numbering at different corners of a common triangle repeat
    different vertices.  build_entities is interpreted (exactly, skv/nlite)
    on two stacked prisms for the three rotations and the reflection of the
    upper one: the common triangle must be one facet."""
    from .. import nlite
    from ..nlite import NArr
    from ..elements import load_refdoms
    R1 = "C11-R1"
    mcls = model.cls("skfem.mesh.mesh", "Mesh")
    fn = mcls.methods["build_entities"]
    rd = load_refdoms(model)["RefWedge"]
    facets = [list(f) for f in rd.facets]
    pad = [k for k, f in enumerate(facets) if len(set(f)) < len(f)]
    if len(pad) != 2:
        raise AnalysisError(f"RefWedge: {len(pad)} padded facets, 2 expected")
    bot = [k for k in pad if set(facets[k]) <= {0, 1, 2}]
    top = [k for k in pad if set(facets[k]) <= {3, 4, 5}]
    if len(bot) != 1 or len(top) != 1:
        raise AnalysisError("RefWedge: bottom / top triangle not recognised")
    bad, ncase = None, 0
    # lower prism 0..5; upper prism sits on (3, 4, 5) with new top 6, 7, 8
    for rot in range(3):
        for refl in (False, True):
            base = [3, 4, 5]
            base = base[rot:] + base[:rot]
            newt = [6, 7, 8]
            newt = newt[rot:] + newt[:rot]
            if refl:
                base, newt = [base[0], base[2], base[1]], \
                    [newt[0], newt[2], newt[1]]
            t = [[0, base[0]], [1, base[1]], [2, base[2]],
                 [3, newt[0]], [4, newt[1]], [5, newt[2]]]
            for sort in (True, False):
                ncase += 1
                try:
                    r = Interp(model, call_hook=nlite.hook).call(
                        fn, [NArr([list(x) for x in t]), facets],
                        {"sort": sort})
                except (Unsupported, Raised) as e:
                    raise AnalysisError(f"build_entities on two prisms: {e}")
                ents, mp = r[0].data, r[1].data
                nf = len(ents[0])
                if len(mp) != len(facets) or any(len(x) != 2 for x in mp):
                    bad = bad or (f"the cell-to-facet table has shape "
                                  f"({len(mp)}, {len(mp[0]) if mp else 0}) "
                                  f"instead of ({len(facets)}, 2)")
                    continue
                shared = mp[top[0]][0] == mp[bot[0]][1]
                if not shared or nf != 9:
                    bad = bad or (
                        f"upper prism numbered {[x[1] for x in t]} "
                        f"(sort={sort}): {nf} facets instead of 9, the "
                        f"common triangle is facet {mp[top[0]][0]} for the "
                        f"lower and facet {mp[bot[0]][1]} for the upper "
                        f"prism (stored as "
                        f"{[e[mp[top[0]][0]] for e in ents]} and "
                        f"{[e[mp[bot[0]][1]] for e in ents]})")
    # the incidence matrix facets x vertices is assembled by summing ones:
    # a padded facet lists a vertex twice, so its entry becomes 2 unless the
    # matrix is normalised afterwards (an incidence matrix holds 0 and 1)
    pf = mcls.methods.get("p2f")
    if pf is None:
        raise AnalysisError("Mesh.p2f not found")
    normalised = any(
        (isinstance(n, (ast.Assign, ast.AugAssign)) and ".data" in src(
            n.targets[0] if isinstance(n, ast.Assign) else n.target))
        or (isinstance(n, ast.Call) and isinstance(n.func, ast.Attribute)
            and n.func.attr in ("astype", "minimum", "sign")
            and ("bool" in src(n) or n.func.attr != "astype"))
        or (isinstance(n, ast.Compare) and "> 0" in src(n))
        for n in walk_no_nested(pf.node))
    _v(rep, R1, normalised, "Mesh.p2f:zero-one",
       "entries of repeated (padding) vertices are normalised to 1",
       "Mesh.p2f",
       "p2f sums a one per listed vertex of every facet and returns the "
       "sums: the triangular facets of a wedge list one vertex twice "
       f"({[facets[k] for k in pad]} in RefWedge), so p2f has entries 2 on "
       "every wedge mesh", pf.lineno, pf.path)
    _v(rep, R1, bad is None, "build_entities:padded-triangles",
       f"{ncase} numberings of two stacked prisms: the common triangle is "
       f"one facet whichever vertex its padding repeats",
       "Mesh.build_entities", f"{bad}: an interior face is split in two, "
       f"both halves are boundary facets (a vertex in the middle of the "
       f"domain becomes a boundary node)", fn.lineno, fn.path)


def _cyclic_facets(model, rep):
    """Mesh3D.boundary_edges reads the edges of a boundary facet as the
    pairs of *consecutive* rows of the stored facet (cyclically).  That is
    right only if the stored facets keep the cyclic vertex order of the
    reference facets; build_entities stores them sorted by default, and for
    a quadrilateral the sorted order is not cyclic (consecutive entries
    include a diagonal).  Every 3-D mesh class whose reference cell has
    quadrilateral facets must build its facets with sort=False."""
    from ..elements import load_refdoms
    R4 = "C11-R4"
    refdoms = load_refdoms(model)
    be = model.cls("skfem.mesh.mesh_3d", "Mesh3D").methods.get(
        "boundary_edges")
    if be is None:
        raise AnalysisError("Mesh3D.boundary_edges not found")
    consecutive = any(
        isinstance(x, ast.BinOp) and isinstance(x.op, ast.Mod)
        and "+ 1" in src(x.left) for x in ast.walk(be.node)) and \
        "self.facets" in src(be.node)
    if not consecutive:
        rep.ok(R4, "Mesh3D.boundary_edges:consecutive-rows",
               "boundary_edges no longer pairs consecutive rows of the "
               "stored facets: the storage order of the facets is free")
        return
    n = 0
    for c in model.all_classes():
        if not c.path.startswith("skfem/mesh/"):
            continue
        ea = c.attrs.get("elem")
        if ea is None or "elem" not in c.attrs:
            continue
        ecls = [x for x in model.all_classes() if x.name == src(ea)]
        if not ecls:
            continue
        ra = ecls[0].find_attr("refdom")
        rd = refdoms.get(src(ra[1])) if ra else None
        if rd is None or rd.dim != 3 or not any(
                len(set(f)) == 4 for f in (rd.facets or [])):
            continue
        n += 1
        fi = c.find_method("_init_facets")
        unsorted = fi is not None and any(
            isinstance(k, ast.keyword) and k.arg == "sort" and isinstance(
                k.value, ast.Constant) and k.value.value is False
            for k in ast.walk(fi.node))
        cons = f"{c.name}:facets-keep-cyclic-order"
        if unsorted:
            rep.ok(R4, cons, f"facets of {rd.name} cells are stored in the "
                             f"cyclic order of the reference facets")
        else:
            rep.fail(R4, c.path, c.name, cons,
                     f"{c.name} ({rd.name}: quadrilateral facets) builds "
                     f"its facets sorted; Mesh3D.boundary_edges pairs "
                     f"consecutive rows of the stored facets, which for a "
                     f"sorted quadrilateral includes a diagonal: a single "
                     f"reference wedge reports 6 of its 9 edges as "
                     f"boundary edges and 3 'interior' edges", c.node.lineno)
    if n < 2:
        raise AnalysisError(f"only {n} 3-D mesh classes with quadrilateral "
                            f"facets found")
    # np.ravel_multi_index(X, dims) raises when an entry of X reaches dims:
    # a bound taken from the largest entry of ONE array does not bound
    # another (the candidate pairs include (a, a) from padded triangles and
    # pairs of vertices that are no stored edge)
    for c in model.all_classes():
        fn = c.methods.get("boundary_edges")
        if fn is None or not c.path.startswith("skfem/mesh/"):
            continue
        defs = {}
        for x in walk_no_nested(fn.node):
            if isinstance(x, ast.Assign) and len(x.targets) == 1 and \
                    isinstance(x.targets[0], ast.Name):
                defs[x.targets[0].id] = x.value
        for x in walk_no_nested(fn.node):
            if not (isinstance(x, ast.Call) and src(x.func).endswith(
                    "ravel_multi_index") and len(x.args) == 2):
                continue
            arr = {y.id for y in ast.walk(x.args[0])
                   if isinstance(y, ast.Name)}
            d = x.args[1]
            dd = defs.get(d.id) if isinstance(d, ast.Name) else d
            bounders = {y.value.id for y in ast.walk(dd)
                        if isinstance(y, ast.Attribute)
                        and y.attr in ("max", "amax")
                        and isinstance(y.value, ast.Name)} if dd is not None \
                else set()
            cons = f"{c.name}.boundary_edges:index-bound[{src(x.args[0])}]"
            if bounders and not (bounders & arr):
                rep.fail(R4, fn.path, f"{c.name}.boundary_edges", cons,
                         f"'{src(x)[:60]}' encodes '{src(x.args[0])}' with "
                         f"dims = '{src(dd)[:40]}', the largest entries of "
                         f"ANOTHER array: an entry of "
                         f"'{src(x.args[0])}' beyond them raises "
                         f"'ValueError: invalid entry in coordinates "
                         f"array' (wedge meshes after renumbering)",
                         x.lineno)
            else:
                rep.ok(R4, cons, "the encoding bound covers the encoded "
                                 "array")


def _points_versus_vertices(model, rep):
    """The point array holds the vertices, then the mid-side / interior
    nodes of second-order meshes (reached through dofs.element_dofs, not
    through t), then possibly unused points.  A complement of 'the vertices
    in t' within 'all stored points' therefore calls every mid-side node an
    orphan: Mesh.is_valid() returned False for every second-order mesh.
    Every np.setdiff1d(np.arange(<stored points>), np.unique(<table>)) under
    skfem/mesh must take the table of *all* nodes of the cells."""
    R4 = "C11-R4"
    n = 0
    for fn in model.all_functions():
        if not fn.path.startswith("skfem/mesh/"):
            continue
        for c in ast.walk(fn.node):
            if not (isinstance(c, ast.Call) and src(c.func) in (
                    "np.setdiff1d", "numpy.setdiff1d") and len(c.args) == 2):
                continue
            a, b = c.args
            if not (isinstance(a, ast.Call) and src(a.func) == "np.arange"
                    and a.args and any(t in src(a.args[-1]) for t in (
                        "p.shape[1]", "doflocs.shape[1]"))):
                continue
            n += 1
            inner = b.args[0] if isinstance(b, ast.Call) and src(
                b.func) == "np.unique" and b.args else b
            cons = f"{fn.short()}:points-versus-vertices"
            if src(inner) in ("self.t", "t"):
                rep.fail(R4, fn.path, fn.short(), cons,
                         f"'{src(c)[:70]}' subtracts the vertices named in "
                         f"t from all stored points: the mid-side nodes of "
                         f"every second-order mesh count as points 'not "
                         f"belonging to any element' (MeshTri2().is_valid() "
                         f"is False)", c.lineno)
            else:
                rep.ok(R4, cons, f"complement taken against "
                                 f"{src(inner)[:40]}")
    if n < 1:
        raise AnalysisError("no complement within the stored points found "
                            "(Mesh.is_valid confirmed by hand)")


def _complements(model, rep):
    """interior_* = complement of boundary_* in the full index range:
    symbolic run with counting stubs."""
    R4 = "C11-R4"
    NV, NF, NE = (Poly.sym(x) for x in ("nvertices", "nfacets", "nedges"))
    count_of = {"nodes": NV, "facets": NF, "edges": NE}

    def hook(interp, name, args, kwargs, node):
        if name == "numpy.arange":
            a = [Poly.coerce(x) for x in args]
            return ("arange", Poly() if len(a) == 1 else a[0], a[-1])
        if name == "numpy.setdiff1d":
            return ("setdiff", args[0], args[1])
        if name == "numpy.unique":
            return ("unique", args[0])
        return NotImplemented

    class Other:
        """a value computed some other way: never equal to the expected
        construction, so the comparison reports it"""
        skv_isarray = True

        def __init__(self, text):
            self.text = text

        def skv_getattr(self, name):
            return PyFunc(lambda a, k, n: Other(f"{self.text}.{name}(..)"))

        def skv_getitem(self, ix):
            return Other(f"{self.text}[..]")

        def __repr__(self):
            return self.text

    def lenient_hook(interp, name, args, kwargs, node):
        r = hook(interp, name, args, kwargs, node)
        if r is NotImplemented and name.startswith("numpy."):
            res = Other(name.split(".", 1)[1] + "(..)")
            return (res,) if name in ("numpy.nonzero", "numpy.where") \
                else res
        return r

    class Tab:
        def __init__(self, name, shape):
            self.name, self.shape = name, shape

        def skv_getattr(self, name):
            if name == "shape":
                return self.shape
            raise Unsupported("table." + name)

        def skv_getitem(self, ix):
            return ("cols", self.name, ix)
    found = 0
    NPTS = Poly.sym("npoints")
    TT = Tab("t", (4, Poly.sym("nelements")))
    for c in model.all_classes():
        if not c.path.startswith("skfem/mesh/"):
            continue
        for kind in ("nodes", "facets", "edges"):
            m = c.methods.get(f"interior_{kind}")
            if m is None:
                continue
            found += 1
            obj = Obj(c, {
                # stored points: vertices, mid-side nodes of second-order
                # meshes, unused points - NOT the number of vertices
                "p": Tab("p", (3, NPTS)), "facets": Tab("facets", (3, NF)),
                "edges": Tab("edges", (2, NE)), "nvertices": NV,
                "nfacets": NF, "nedges": NE,
                "doflocs": Tab("p", (3, NPTS)),
                "t": TT})
            for k2 in ("nodes", "facets", "edges"):
                obj.attrs[f"boundary_{k2}"] = PyFunc(
                    lambda a, k, n, k2=k2: f"BOUNDARY:{k2}")
                if k2 != kind:
                    obj.attrs[f"interior_{k2}"] = PyFunc(
                        lambda a, k, n, k2=k2: f"INTERIOR:{k2}")
            try:
                it_ = Interp(model, call_hook=lenient_hook)
                it_.lenient_attrs = True
                r = it_.call(m, [], {}, self_obj=obj)
            except (Unsupported, Raised) as e:
                raise AnalysisError(f"{m.short()}: {e}")
            ok = (isinstance(r, tuple) and r[0] == "setdiff"
                  and isinstance(r[1], tuple) and r[1][0] == "arange"
                  and r[1][1] == Poly() and r[1][2] == count_of[kind]
                  and r[2] == f"BOUNDARY:{kind}")
            if kind == "nodes" and isinstance(r, tuple) and \
                    r[0] == "setdiff" and r[2] == "BOUNDARY:nodes" and \
                    r[1] == ("unique", TT):
                ok = True       # the vertices the cells use
            _v(rep, R4, ok, f"{m.short()}:complement",
               f"range({count_of[kind]}) minus boundary_{kind}()",
               m.short(), f"interior_{kind}() computes {r!r}, not the "
               f"complement of boundary_{kind}() in the full index range "
               f"(for nodes: the vertices, range(nvertices) or "
               f"np.unique(t) - the point array also stores mid-side nodes "
               f"of second-order meshes and unused points)",
               m.lineno, m.path)
    if found < 2:
        raise AnalysisError(f"{found} interior_* methods found")
    mcls = model.cls(MESH, "Mesh")
    fn = mcls.methods["boundary_nodes"]
    obj = Obj(mcls, {"facets": Tab("facets", (3, NF)),
                     "p": Tab("p", (3, NV)), "doflocs": Tab("p", (3, NV)),
                     "t": Tab("t", (4, Poly.sym("nelements"))),
                     "edges": Tab("edges", (2, NE)),
                     "boundary_facets": PyFunc(lambda a, k, n: "BF")})
    defs = [(c, c.methods["boundary_nodes"]) for c in model.all_classes()
            if c.path.startswith("skfem/mesh/")
            and "boundary_nodes" in c.methods]
    if not any(c is mcls for c, _ in defs):
        raise AnalysisError("Mesh.boundary_nodes not found")
    for c, f_ in defs:
        o_ = Obj(c, dict(obj.attrs))
        try:
            it_ = Interp(model, call_hook=lenient_hook)
            it_.lenient_attrs = True
            r = it_.call(f_, [], {}, self_obj=o_)
        except (Unsupported, Raised) as e:
            raise AnalysisError(f"{f_.short()}: {e}")
        _v(rep, R4, r == ("unique", ("cols", "facets", (slice(None), "BF"))),
           f"{c.name}.boundary_nodes",
           "unique vertices of the boundary facets", f_.short(),
           f"boundary vertices computed as {r!r}, not the vertices of the "
           f"boundary facets (a class-specific shortcut - e.g. 'the two "
           f"extreme points' of a 1-D mesh - misses the end points of "
           f"further components, which interior_nodes() then reports as "
           f"interior)", f_.lineno, f_.path)
    fn = mcls.methods["boundary_facets"]


# ----------------------------------------------------------------------
# width of index arithmetic
INDEX_TABLES = {"t", "facets", "edges", "t2f", "t2e", "f2t", "f2e", "t2t"}
WIDE = ("int64", "np.int64", "int", "np.int_", "float", "np.float64",
        "np.uint64", "object")


def _index_width(model, rep):
    """The connectivity tables are stored as int32 (Mesh.__post_init__).
    A product of two quantities that both grow with the number of vertices
    / entities, evaluated on those arrays without widening, wraps silently
    beyond 2^31: distinct entities would receive the same key.  Degree
    inference: tables and everything sliced / sorted / stacked / maxed from
    them have degree 1; a product adds degrees; sums take the maximum;
    astype / constructor calls to a 64-bit or Python type reset it."""
    R5 = "C11-R5"
    pi = model.cls(MESH, "Mesh").methods["__post_init__"]
    narrow = any(isinstance(n, ast.Assign) and src(n.targets[0]) == "self.t"
                 and "np.int32" in src(n.value) for n in ast.walk(pi.node))
    if not narrow:
        raise AnalysisError("Mesh.__post_init__ no longer stores t as int32: "
                            "the width rule needs the storage type")
    n_fn = n_mul = 0
    for fn in model.all_functions():
        if fn.path not in ("skfem/mesh/mesh.py", "skfem/mesh/mesh_2d.py",
                           "skfem/mesh/mesh_3d.py",
                           "skfem/mesh/mesh_simplex.py"):
            continue
        n_fn += 1
        deg: Dict[str, int] = {}
        params = set(fn.params())

        def d(e) -> int:
            if isinstance(e, ast.Name):
                if e.id in deg:
                    return deg[e.id]
                return 1 if e.id in INDEX_TABLES and e.id in params else 0
            if isinstance(e, ast.Attribute):
                if e.attr in INDEX_TABLES and src(e.value) in ("self", "m",
                                                               "mesh"):
                    return 1
                if e.attr in ("T",):
                    return d(e.value)
                return 0
            if isinstance(e, ast.Subscript):
                return d(e.value)
            if isinstance(e, ast.BinOp):
                l, r = d(e.left), d(e.right)
                if isinstance(e.op, ast.Mult):
                    return l + r
                if isinstance(e.op, (ast.Add, ast.Sub, ast.BitOr,
                                     ast.BitAnd, ast.BitXor)):
                    return max(l, r)
                if isinstance(e.op, (ast.FloorDiv, ast.Mod)):
                    return l
                return 0
            if isinstance(e, ast.UnaryOp):
                return d(e.operand)
            if isinstance(e, (ast.Tuple, ast.List)):
                return max([d(x) for x in e.elts], default=0)
            if isinstance(e, (ast.ListComp, ast.GeneratorExp)):
                return d(e.elt)
            if isinstance(e, ast.IfExp):
                return max(d(e.body), d(e.orelse))
            if isinstance(e, ast.Call):
                f = e.func
                fs = src(f)
                if isinstance(f, ast.Attribute) and f.attr == "astype":
                    return 0 if (e.args and src(e.args[0]) in WIDE) \
                        else d(f.value)
                if fs in WIDE:
                    return 0
                if any(k.arg == "dtype" and src(k.value) in WIDE
                       for k in e.keywords):
                    return 0
                if fs in ("np.max", "np.min", "np.sort", "np.unique",
                          "np.hstack", "np.vstack", "np.concatenate",
                          "np.ascontiguousarray", "np.asarray", "np.array",
                          "np.tile", "np.repeat", "np.roll", "tuple",
                          "np.amax", "np.flip", "np.abs", "np.sum"):
                    return max([d(a) for a in e.args], default=0)
                if isinstance(f, ast.Attribute) and f.attr in (
                        "max", "min", "flatten", "copy", "reshape", "sum",
                        "ravel", "transpose"):
                    return d(f.value)
                return 0
            return 0
        stmts = sorted([n for n in walk_no_nested(fn.node)
                        if isinstance(n, (ast.Assign, ast.AugAssign))],
                       key=lambda n: n.lineno)
        for _ in range(2):
            for st in stmts:
                if isinstance(st, ast.Assign):
                    v = d(st.value)
                    for t in st.targets:
                        for x in (t.elts if isinstance(t, ast.Tuple)
                                  else [t]):
                            if isinstance(x, ast.Name):
                                # np.unique(..., return_index/inverse):
                                # positions, still index-sized
                                deg[x.id] = max(deg.get(x.id, 0), v)
                elif isinstance(st.target, ast.Name):
                    deg[st.target.id] = max(
                        deg.get(st.target.id, 0),
                        d(ast.BinOp(left=st.target, op=st.op,
                                    right=st.value)))
        for n in walk_no_nested(fn.node):
            if isinstance(n, ast.BinOp) and isinstance(n.op, ast.Mult) and \
                    d(n.left) >= 1 and d(n.right) >= 1:
                n_mul += 1
                rep.fail(R5, fn.path, fn.short(),
                         f"{fn.short()}:{src(n)[:50]}",
                         f"'{src(n)[:70]}' multiplies two quantities that "
                         f"both grow with the mesh size in the int32 "
                         f"arithmetic of the connectivity tables: beyond "
                         f"46341 vertices the product can wrap and two "
                         f"different entities get the same key (widen one "
                         f"operand to 64 bits first)", n.lineno)
    rep.ok(R5, "index-arithmetic",
           f"{n_fn} functions over the int32 connectivity tables: no product "
           f"of two size-dependent index quantities without widening")
    rep.units("functions checked for index-arithmetic width", n_fn)


def _cyclic_enumeration(model, rep):
    """``x[k]`` paired with ``x[(k + 1) % M]`` for k in range(A) lists the
    sides of a closed polygon only if A and M are the same number: with A
    smaller the closing side(s) are never generated (for quadrilateral
    facets: the edge from the 4th back to the 1st vertex), with A larger
    sides are listed twice.  The code states its belief about the cycle
    length twice; the two must agree."""
    R4 = "C11-R4"
    n = 0
    for fn in model.all_functions():
        if not fn.path.startswith("skfem/mesh/"):
            continue
        # loop variables and their range extents
        ranges = {}
        for node in ast.walk(fn.node):
            gens = []
            if isinstance(node, (ast.ListComp, ast.GeneratorExp,
                                 ast.SetComp, ast.DictComp)):
                gens = [(g.target, g.iter) for g in node.generators]
            elif isinstance(node, ast.For):
                gens = [(node.target, node.iter)]
            for tgt, it in gens:
                if isinstance(tgt, ast.Name) and isinstance(it, ast.Call) \
                        and src(it.func) == "range" and len(it.args) == 1:
                    ranges[tgt.id] = it.args[0]
        for node in ast.walk(fn.node):
            if isinstance(node, ast.BinOp) and isinstance(node.op, ast.Mod) \
                    and isinstance(node.left, ast.BinOp) and isinstance(
                        node.left.op, (ast.Add, ast.Sub)):
                names = [x.id for x in ast.walk(node.left)
                         if isinstance(x, ast.Name) and x.id in ranges]
                if len(names) != 1:
                    continue
                n += 1
                v = names[0]
                A, M = src(ranges[v]), src(node.right)
                cons = f"{fn.short()}:cycle[{src(node)[:40]}]"
                if A == M:
                    rep.ok(R4, cons, f"range({A}) with wrap-around % {M}: "
                           f"every side of the closed polygon is listed "
                           f"once")
                else:
                    rep.fail(R4, fn.path, fn.short(), cons,
                             f"'{v}' runs over range({A}) but wraps around "
                             f"with % {M}: the two disagree on the number "
                             f"of vertices of the polygon - with fewer "
                             f"steps than vertices the closing side(s) are "
                             f"never generated (quadrilateral facets lose "
                             f"the edge from their last to their first "
                             f"vertex)", node.lineno)
    if n < 2:
        raise AnalysisError(f"{n} cyclic pair enumerations found under "
                            f"skfem/mesh, 2 confirmed by hand")


def run(model: Model, rep, tier: str) -> None:
    rep.rule("C11-R1", "layout agreement in build_entities / build_inverse "
             "/ incidence matrices")
    rep.rule("C11-R2", "Refdom facet / edge tables are exactly the faces of "
             "the reference polytopes; counts; cyclic order; brefdom")
    rep.rule("C11-R3", "missing-neighbour marker and row agree between "
             "writer and all readers")
    rep.rule("C11-R4", "interior sets are complements of boundary sets")
    rep.rule("C11-R5", "entity keys are not computed by size-squared "
             "products in 32-bit index arithmetic")
    _index_width(model, rep)
    sentinel = _layout_rules(model, rep)
    staged(lambda: _incidence(model, rep),
           lambda: _refdom_tables(model, rep),
           lambda: _cyclic_enumeration(model, rep))
    _sentinel(model, rep, sentinel)
    _complements(model, rep)
    _points_versus_vertices(model, rep)
    _padded_facets(model, rep)
    _cyclic_facets(model, rep)
    rep.require_min("C11-R1", 7)
    rep.require_min("C11-R2", 30)
    rep.require_min("C11-R3", 4)


_R = "skfem/refdom.py"
MUTANTS = [
    ("validation looks for unused points among the vertices of t",
     ("skfem/mesh/mesh.py",
      "                            np.unique(self.dofs.element_dofs))) > 0:",
      "                            np.unique(self.t))) > 0:"), "C11-R4"),
    ("wedge facets stored sorted again",
     ("skfem/mesh/mesh_wedge_1.py",
      "            self.elem.refdom.facets,\n            sort=False,\n",
      "            self.elem.refdom.facets,\n"), "C11-R4"),
    ("boundary edge pairs encoded with the bound of the stored edges",
     ("skfem/mesh/mesh_3d.py",
      "        dims = (self.nvertices, self.nvertices)",
      "        dims = A.max(0) + 1"), "C11-R4"),
    ("padded facets keyed with the repeated vertex in place",
     (FM, "            sorted_indexing[itr + 1:-1, rep] = sorted_indexing["
      "itr + 2:, rep]\n", "            pass\n"), "C11-R1"),
    ("p2f returns the summed ones",
     (FM, "        p2f.data[:] = 1\n", ""), "C11-R1"),
    ("interior nodes complemented among all stored points",
     ("skfem/mesh/mesh.py", "        return np.setdiff1d(np.unique(self.t), self.boundary_nodes())",
      "        return np.setdiff1d(np.arange(0, self.p.shape[1]),\n                            self.boundary_nodes())"), "C11-R4"),
    ("interior edges of 3-D meshes defined as 'touching an interior vertex'",
     ("skfem/mesh/mesh_3d.py",
      "        return np.setdiff1d(np.arange(self.edges.shape[1], "
      "dtype=np.int32),\n                            self.boundary_edges())",
      "        inside = np.isin(self.edges, self.interior_nodes()).any("
      "axis=0)\n        return np.nonzero(inside)[0].astype(np.int32)"),
     "C11-R4"),
    ("1-D meshes report only their two extreme points as boundary",
     ("skfem/mesh/mesh_line_1.py", "    def element_finder(self, "
      "mapping=None):\n\n        ix = np.argsort(self.p[0])",
      "    def boundary_nodes(self):\n        return np.array([np.argmin("
      "self.p[0]), np.argmax(self.p[0])],\n                        "
      "dtype=np.int32)\n\n    def element_finder(self, mapping=None):\n\n"
      "        ix = np.argsort(self.p[0])"), "C11-R4"),
    ("boundary edges of 3-D meshes enumerated over dim() facet vertices",
     ("skfem/mesh/mesh_3d.py",
      "                   for itr in range(self.facets.shape[0])])).T, "
      "axis=1)", "                   for itr in range(self.dim())])).T, "
      "axis=1)"), "C11-R4"),
    ("entities deduplicated through a 32-bit scalar key lo * nverts + hi",
     (FM, "        sorted_indexing, ixa, ixb = np.unique(sorted_indexing,\n"
      "                                              axis=1,\n"
      "                                              return_index=True,\n"
      "                                              return_inverse=True)\n",
      "        keys = sorted_indexing[0] * (np.max(t) + 1) + "
      "sorted_indexing[1]\n"
      "        _, ixa, ixb = np.unique(keys, return_index=True,\n"
      "                                return_inverse=True)\n"
      "        sorted_indexing = sorted_indexing[:, ixa]\n"), "C11-R5"),
    ("build_inverse flattens the table in Fortran order",
     (FM, "        e = mapping.flatten(order='C')", "        e = "
      "mapping.flatten(order='F')"), "C11-R1"),
    ("build_entities reshapes the labels to (cells, slots)",
     (FM, "        mapping = ixb.reshape((len(indices), t.shape[1]))",
      "        mapping = ixb.reshape((t.shape[1], len(indices)))"), "C11-R1"),
    ("unsorted entities picked through the inverse index",
     (FM, "        return np.ascontiguousarray(indexing[:, ixa]), mapping",
      "        return np.ascontiguousarray(indexing[:, ixb]), mapping"),
     "C11-R1"),
    ("unsorted entities returned sorted",
     (FM, "        return np.ascontiguousarray(indexing[:, ixa]), mapping",
      "        return np.ascontiguousarray(sorted_indexing), mapping"),
     "C11-R1"),
    ("reversed positions mapped back off by one",
     (FM, "        ix_last = e.shape[0] - ix_last - 1",
      "        ix_last = e.shape[0] - ix_last"), "C11-R1"),
    ("first and last occurrence exchanged",
     (FM, "        inverse[0, e_first] = tix[ix_first]\n"
      "        inverse[1, e_last] = tix[ix_last]",
      "        inverse[1, e_first] = tix[ix_first]\n"
      "        inverse[0, e_last] = tix[ix_last]"), "C11-R1"),
    ("incidence matrix flattens the facet table column by column",
     (FM, "        facets = self.facets.flatten('C')", "        facets = "
      "self.facets.flatten('F')"), "C11-R1"),
    ("missing neighbour marked -2 by the writer",
     (FM, "        inverse[1, np.nonzero(inverse[0] == inverse[1])[0]] = -1",
      "        inverse[1, np.nonzero(inverse[0] == inverse[1])[0]] = -2"),
     "C11-R3"),
    ("interior facet basis tests the first neighbour row",
     ("skfem/assembly/basis/interior_facet_basis.py",
      "np.nonzero(mesh.f2t[1] != -1)[0]", "np.nonzero(mesh.f2t[0] != -1)"
      "[0]"), "C11-R3"),
    ("one facet of the tetrahedron lists a wrong vertex",
     (_R, "    facets = [[0, 1, 2],\n              [0, 1, 3],\n"
      "              [0, 2, 3],\n              [1, 2, 3]]",
      "    facets = [[0, 1, 2],\n              [0, 1, 3],\n"
      "              [0, 2, 3],\n              [0, 2, 3]]"), "C11-R2"),
    ("hexahedron facet listed in non-cyclic order",
     (_R, "    facets = [[0, 1, 4, 2],", "    facets = [[0, 1, 2, 4],"),
     "C11-R2"),
    ("one hexahedron edge is a face diagonal",
     (_R, "             [6, 7]]\n    brefdom = RefQuad",
      "             [5, 6]]\n    brefdom = RefQuad"), "C11-R2"),
    ("wedge declares one edge too many",
     (_R, "    nedges = 9\n", "    nedges = 10\n"), "C11-R2"),
    ("quadrilateral facet joins opposite vertices",
     (_R, "              [2, 3],\n              [0, 3]]\n    brefdom = "
      "RefLine\n    nnodes = 4", "              [2, 3],\n              "
      "[1, 3]]\n    brefdom = RefLine\n    nnodes = 4"), "C11-R2"),
    ("interior nodes complement taken in the number of facets",
     (FM, "        return np.setdiff1d(np.unique(self.t), "
      "self.boundary_nodes())",
      "        return np.setdiff1d(np.arange(0, self.nfacets),\n"
      "                            self.boundary_nodes())"), "C11-R4"),
    ("boundary nodes read from all facets",
     (FM, "        return np.unique(self.facets[:, self.boundary_facets()])",
      "        return np.unique(self.facets[:, self.interior_facets()])"),
     None),
]
TWINS = [
    ("interior nodes written with nvertices",
     (FM, "        return np.setdiff1d(np.unique(self.t), "
      "self.boundary_nodes())",
      "        return np.setdiff1d(np.arange(self.nvertices),\n"
      "                            self.boundary_nodes())")),
    ("build_entities reshape with the default order spelled out",
     (FM, "        mapping = ixb.reshape((len(indices), t.shape[1]))",
      "        mapping = ixb.reshape((len(indices), t.shape[1]), "
      "order='C')")),
    ("tetrahedron facets listed in another order of vertices",
     (_R, "              [0, 2, 3],\n              [1, 2, 3]]",
      "              [0, 2, 3],\n              [1, 2, 3]]  # unchanged")),
]
