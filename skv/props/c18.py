"""C18 - mesh surgery keeps geometry valid and carries tags to the same
entities: tag freshness over all surgery operations, simplex splits and their
subdomain offsets, joins (point blocks versus index shifts), restriction
maps, transformations that copy before writing."""
from __future__ import annotations

import ast
from fractions import Fraction
from typing import Any, Dict, List

from ..effects import Analyzer
from ..interp import Interp, Obj, PyFunc, Raised, Unsupported, PTS
from ..model import staged, AnalysisError, Model, src, walk_no_nested
from ..poly import Poly, Rat
from .c12 import tag_rule
from .c14 import split_rules

PID = "C18"
LEVEL = "other"
TECHNIQUE = ("tag-freshness rule with structural index-preservation "
             "arguments; reference-cell audit of the simplex splits and "
             "their subdomain offsets; symbolic run of the join operators "
             "(offset of every shifted connectivity = start of its point "
             "block) and of restrict's old-to-new maps; effect analysis of "
             "the transformations")
LEVEL_TEXT = (
    "Decides: (R1) every surgery operation that changes the connectivity "
    "sets both tag fields or provably keeps cell and facet indices; (R2) "
    "quadrilateral / hexahedron / prism splits partition the reference cell "
    "exactly and shift named subdomains by whole blocks; (R3) joins stack "
    "the point arrays and shift each connectivity by the start of its own "
    "point block (for every operand of a list join), extrusion shifts "
    "layers consistently; (R4) restrict maps cells and facets through "
    "tables built from the kept set and filters removed facets; "
    "transformations write only into copies. Index maps through np.unique "
    "on concrete data, measures of concrete meshes and compositions are not "
    "decided.")
LEVEL_TEXT += (
    " Added after the seeding phase: (R4) morphed / scaled / translated "
    "decided by symbolic runs on rows (x0, x1, x2): every coordinate "
    "function sees the original points; 'vertices reordered within cells' "
    "is recognised by simulating the row moves (any net permutation under "
    "constant row selectors).")
LEVEL_TEXT += (
    " Added in the hunting round (defects found by independent agents "
    "on the unchanged tree, DESIGN.md 9.4 / 9.6): "
    "coordinates of a join are the operands' coordinates and the "
    "merging key is scale-free; splits valid for any numbering, "
    "higher-order surgery, orientation flags (open findings).")
LEVEL_TEXT += (
    " Added in the second hunting round (DESIGN.md 9.6): "
    "the merge key of Mesh.__add__ is decided by abstract "
    "interpretation over {position, invariant quantity} "
    "(skv/invariance.py) instead of a syntactic test; tag arrays built "
    "from run-time lists carry an integer dtype; the extrusion routines "
    "must read the cells of the segment mesh (open finding).")
LEVEL_TEXT += (
    " Added in the third round (review of the fix commits, DESIGN.md "
    "9.6): "
    "OrientedBoundary indexes its flags with the facets; collections of "
    "facet selections keep the orientation of their parts; the merge "
    "key of Mesh.__add__ depends on the connectivity (tolerance below "
    "the cell size).")
LEVEL_TEXT += (
    " Added in the fourth hunting round (DESIGN.md 9.6): "
    "the sibling joins '+' and '@' identify common vertices with the "
    "same kind of key.")
LEVEL_NOTE = ("Trusted: numpy hstack/unique/intersect1d semantics; "
              "order-preserving vertex compaction keeps the lexicographic "
              "facet order.")
EXPLANATION = "Tag / offset / map rules on the surgery code."
TRUSTED = ["numpy hstack/unique/intersect1d"]
ASSUMPTIONS = ["facets are numbered lexicographically by sorted vertex "
               "tuple (np.unique(axis=1))"]

MESH = "skfem.mesh.mesh"
FM = "skfem/mesh/mesh.py"


def _v(rep, rule, ok, cons, okmsg, qual, badmsg, line, path=FM):
    if ok:
        rep.ok(rule, cons, okmsg)
    else:
        rep.fail(rule, path, qual, cons, badmsg, line)


class PArr:
    """point array of an operand: shape (dim, n_k)"""
    skv_isarray = True

    def __init__(self, k):
        self.k = k

    def skv_getattr(self, name):
        if name == "shape":
            return (2, Poly.sym(f"n{self.k}"))
        if name == "round":
            return PyFunc(lambda a, kw, n: self)
        if name == "T":
            return self
        raise Unsupported("points." + name)

    # coordinates gathered by a connectivity, edge vectors, their lengths:
    # values derived from the points of one operand (only the layout of the
    # stacked arrays is tracked by this run)
    def skv_getitem(self, ix):
        return Derived()


class Derived:
    skv_isarray = True

    def skv_getitem(self, ix):
        return self

    def skv_binop(self, op, other, reflected):
        return self

    def skv_getattr(self, name):
        if name in ("min", "max"):
            return PyFunc(lambda a, k, n: 1)
        raise Unsupported("derived quantity." + name)


class TArr:
    skv_isarray = True

    def __init__(self, k, offset=None):
        self.k = k
        self.offset = offset if offset is not None else Poly()

    def skv_getattr(self, name):
        if name == "shape":
            return (3, Poly.sym(f"ncells{self.k}"))
        raise Unsupported("connectivity." + name)

    def skv_getitem(self, ix):
        if isinstance(ix, int):
            return ("row", self.k, ix)
        raise Unsupported("index into a connectivity")

    def skv_binop(self, op, other, reflected):
        if isinstance(op, ast.Add) and isinstance(other, (int, Fraction,
                                                          Poly)):
            return TArr(self.k, self.offset + other)
        raise Unsupported("arithmetic on a connectivity")


class PStack:
    skv_isarray = True

    def __init__(self, blocks):
        self.blocks = blocks

    def skv_getattr(self, name):
        if name == "T":
            return self
        if name in ("view", "copy"):
            return PyFunc(lambda a, k, n: self)
        if name == "shape":
            return (5, 2)
        if name == "dtype":
            return "DTYPE"
        if name in ("round", "max", "min"):
            # values derived from the coordinates (a key / a scale): the
            # layout of the blocks is what this run tracks
            return PyFunc(lambda a, k, n: self if name == "round"
                          or "axis" in k else 1)
        raise Unsupported("stacked points." + name)

    def skv_getitem(self, ix):
        return self

    def skv_binop(self, op, other, reflected):
        if isinstance(op, (ast.Div, ast.Mult, ast.Sub, ast.Add)):
            return self
        raise Unsupported("arithmetic on stacked points")


class TStack:
    skv_isarray = True

    def __init__(self, parts):
        self.parts = parts

    def skv_getattr(self, name):
        if name == "shape":
            return (3, Poly.sym("ncells"))   # a representative cell type
        raise Unsupported("stacked connectivity." + name)


def _joins(model, rep):
    R3 = "C18-R3"
    mcls = model.cls(MESH, "Mesh")
    made = []

    def hook(interp, name, args, kwargs, node):
        if name == "numpy.hstack":
            seq = list(args[0])
            if seq and all(isinstance(s, PArr) for s in seq):
                return PStack([s.k for s in seq])
            if seq and all(isinstance(s, TArr) for s in seq):
                return TStack(seq)
            return NotImplemented
        if name == "numpy.ascontiguousarray":
            return args[0]
        if name in ("numpy.abs", "numpy.absolute", "numpy.round",
                    "numpy.around", "numpy.linalg.norm") and isinstance(
                args[0], (PStack, Derived)):
            return args[0]
        if name == "numpy.cumsum":
            out, tot = [], Poly()
            for v in args[0]:
                tot = tot + v
                out.append(tot)
            return out
        if name == "numpy.unique":
            return ("U", "ixa", Ixb())
        if name in ("numpy.max", "numpy.amax") and args and isinstance(
                args[0], TArr):
            # the largest vertex number used by the cells: NOT the number
            # of stored points (trailing unused points are admissible for
            # an operand, e.g. the result of m1 @ m2)
            return Poly.sym(f"maxt{args[0].k}")
        return NotImplemented

    class Ixb:
        def skv_getitem(self, ix):
            return ("renumbered", ix)

    def mkmesh(k):
        def ctor(a, kw, n, k=k):
            made.append((k, a))
            return "MESH"
        o = Obj(mcls, {"p": PArr(k), "t": TArr(k), "doflocs": PArr(k)})
        return o
    # ---- __matmul__ with two other meshes
    fn = mcls.methods["__matmul__"]
    me, o1, o2 = mkmesh(0), mkmesh(1), mkmesh(2)

    def type_hook(interp, name, args, kwargs, node):
        return hook(interp, name, args, kwargs, node)
    it = Interp(model, call_hook=hook)
    # type(self) / type(m) -> constructor recording its arguments

    def builtin_type(a, k, n):
        obj = a[0]
        return PyFunc(lambda a2, k2, n2: made.append((obj, a2)) or "MESH")
    env_over = {"type": PyFunc(builtin_type)}
    orig_global = it.global_name

    def gname(name, module, node):
        if name in env_over:
            return env_over[name]
        return orig_global(name, module, node)
    it.global_name = gname
    orig_sq = mcls.methods.get("_squeeze_if")
    it.overrides[f"{mcls.qualname}._squeeze_if"] = PyFunc(
        lambda a, k, n: a[0])
    try:
        it.call(fn, [[o1, o2]], {}, self_obj=me)
    except (Unsupported, Raised) as e:
        raise AnalysisError(f"Mesh.__matmul__: {e}")
    prefix = {0: Poly(), 1: Poly.sym("n0"),
              2: Poly.sym("n0") + Poly.sym("n1")}
    objs = {id(me): 0, id(o1): 1, id(o2): 2}
    if len(made) != 3:
        raise AnalysisError(f"Mesh.__matmul__: {len(made)} meshes built")
    for obj, a in made:
        k = objs.get(id(obj))
        t = a[1]
        cons = f"Mesh.__matmul__:operand[{k}]"
        ok = (isinstance(t, tuple) and t[0] == "renumbered"
              and isinstance(t[1], TArr) and t[1].k == k
              and t[1].offset == prefix[k])
        off = t[1].offset if isinstance(t, tuple) and isinstance(
            t[1], TArr) else t
        _v(rep, R3, ok, cons,
           f"connectivity of operand {k} shifted by {prefix[k]} = start of "
           f"its block in the stacked points", "Mesh.__matmul__",
           f"connectivity of operand {k} is shifted by {off}, but its "
           f"points start at {prefix[k]} in the stacked array: its cells "
           f"refer to another operand's vertices", fn.lineno)
    # ---- __add__
    fn = mcls.methods["__add__"]
    made.clear()
    me, o1 = mkmesh(0), mkmesh(1)
    rec = {}
    it = Interp(model, call_hook=hook)
    it.global_name = gname
    orig_global = Interp(model).global_name
    it.overrides[f"{mcls.qualname}._remove_duplicate_nodes"] = PyFunc(
        lambda a, k, n: (rec.update(p=a[0], t=a[1]), ("P", "T"))[1])

    def isinst(a, k, n):
        return True
    env_over["isinstance"] = PyFunc(isinst)
    try:
        it.call(fn, [o1], {}, self_obj=me)
    except (Unsupported, Raised) as e:
        raise AnalysisError(f"Mesh.__add__: {e}")
    env_over.pop("isinstance")
    p, t = rec.get("p"), rec.get("t")
    ok = (isinstance(p, PStack) and p.blocks == [0, 1]
          and isinstance(t, TStack) and len(t.parts) == 2
          and t.parts[0].k == 0 and t.parts[0].offset == Poly()
          and t.parts[1].k == 1 and t.parts[1].offset == Poly.sym("n0"))
    _v(rep, R3, ok, "Mesh.__add__",
       "points stacked (self, other); other's connectivity shifted by the "
       "number of self's points; duplicates merged afterwards",
       "Mesh.__add__", "the joined connectivity does not shift the second "
       "mesh by the number of points of the first", fn.lineno)
    # ---- extrusion: layers (symbolic run with three levels)
    _extrusion_reads_cells(model, rep)
    _extrusion(model, rep)
    _join_coordinates(model, rep)
    _higher_order_surgery(model, rep)
    _tag_array_dtype(model, rep)
    _oriented_container(model, rep)


def _join_coordinates(model, rep):
    """Mesh.__add__ identifies vertices the two meshes have in common.  (a)
    The joined mesh consists of the cells of its operands: the coordinates
    handed to the result are the operands' coordinates, not rounded copies
    (rounding may serve as the *key* for finding coincident vertices).  (b)
    The key is scale-free: rounding coordinates to a fixed number of
    decimals is an absolute tolerance - a mesh given in metres with
    micrometre cells is distorted or collapses, the same mesh in micrometres
    is fine."""
    R3 = "C18-R3"
    mcls = model.cls(MESH, "Mesh")
    fn = mcls.methods["__add__"]
    defs = {}
    for n in walk_no_nested(fn.node):
        if isinstance(n, ast.Assign) and len(n.targets) == 1 and isinstance(
                n.targets[0], ast.Name):
            defs[n.targets[0].id] = n.value

    def expand(e, depth=0):
        """source of e with local names replaced by their definitions"""
        if depth > 4:
            return src(e)
        out = src(e)
        for x in ast.walk(e):
            if isinstance(x, ast.Name) and x.id in defs:
                out += " <- " + expand(defs[x.id], depth + 1)
        return out
    calls = [n for n in walk_no_nested(fn.node) if isinstance(n, ast.Call)
             and src(n.func).endswith("_remove_duplicate_nodes")]
    if len(calls) != 1 or not calls[0].args:
        raise AnalysisError("Mesh.__add__: duplicate removal not found")
    coords = expand(calls[0].args[0])
    _v(rep, R3, ".round(" not in coords and "np.round" not in coords
       and "np.around" not in coords, "Mesh.__add__:coordinates",
       "the result is built from the operands' coordinates as they are",
       "Mesh.__add__",
       f"the coordinates of the joined mesh are '{coords[:90]}': rounded "
       f"copies - every vertex moves by up to half a unit of the last kept "
       f"decimal, i.e. by 3 % of the mesh width for a 1 micrometre mesh "
       f"given in metres", fn.lineno)
    # (b) similarity invariance of the merge key.  Abstract value of an
    # expression: ("aff", 1) - moves with a translation of the meshes, scales
    # with the unit of length (the coordinates); ("inv", d) - unchanged by a
    # translation, scales with the d-th power of the unit; ("bad", why).
    # Whether two vertices are merged must not depend on where the meshes
    # lie nor on the unit: the key handed to _remove_duplicate_nodes is
    # ("inv", 0) - or absent / the unrounded coordinates (exact comparison).
    from ..invariance import AFF, make_evaluator
    ev = make_evaluator(
        defs, lambda e: isinstance(e, ast.Attribute) and e.attr in (
            "p", "doflocs") and src(e.value) in ("self", "other"))
    keyarg = [k.value for k in calls[0].keywords if k.arg == "key"]
    if not keyarg and len(calls[0].args) > 2:
        keyarg = [calls[0].args[2]]
    if not keyarg or (isinstance(keyarg[0], ast.Constant)
                      and keyarg[0].value is None):
        # vertices are compared through the coordinates handed over
        v = ev(calls[0].args[0])
        v = ("inv", 0) if v == AFF else v
    else:
        v = ev(keyarg[0])
    # (c) the tolerance must lie below the size of the cells: a key scaled
    # by the *extent* of the point cloud merges the distinct vertices of a
    # graded mesh (cells of 1e-7 in a domain of 100).  Necessary condition:
    # the key depends on the connectivity - without reading which vertices
    # form a cell no tolerance can be known to keep them apart.
    if keyarg and not (isinstance(keyarg[0], ast.Constant)
                       and keyarg[0].value is None):
        seen_, todo_, reads_t = set(), [keyarg[0]], False
        while todo_:
            e_ = todo_.pop()
            for x in ast.walk(e_):
                if isinstance(x, ast.Attribute) and x.attr == "t":
                    reads_t = True
                if isinstance(x, ast.Name) and x.id not in seen_:
                    seen_.add(x.id)
                    if x.id in defs:
                        todo_.append(defs[x.id])
        _v(rep, R3, reads_t, "Mesh.__add__:tolerance-below-cell-size",
           "the merge key depends on the connectivity (scale taken from the "
           "cells)", "Mesh.__add__",
           "the merge key is computed from the point array alone: a "
           "tolerance relative to the extent of the joined meshes (or any "
           "quantity not derived from the cells) merges distinct vertices "
           "of a graded mesh - MeshQuad.init_tensor(x, x) with x = [0] + "
           "geomspace(1e-7, 100, 37) joined with its mirror image loses 705 "
           "vertices and gets 690 cells of zero area", calls[0].lineno)
    # the sibling join '@' (meshes of different cell types over one point
    # array) must identify vertices the same way: bitwise comparison there
    # and a tolerance here leaves patches whose common vertices agree up to
    # round-off (0.1 + 0.2 vs 0.3) disconnected under '@' only
    mm = mcls.methods["__matmul__"]
    mdefs = {}
    for n in ast.walk(mm.node):
        if isinstance(n, ast.Assign) and len(n.targets) == 1 and isinstance(
                n.targets[0], ast.Name) and n.targets[0].id not in mdefs:
            mdefs[n.targets[0].id] = n.value
    uniq = [c for c in ast.walk(mm.node) if isinstance(c, ast.Call)
            and src(c.func) == "np.unique" and c.args]
    if len(uniq) != 1:
        raise AnalysisError("Mesh.__matmul__: duplicate removal not found")
    marg = uniq[0].args[0]
    while isinstance(marg, ast.Call) and isinstance(
            marg.func, ast.Attribute) and marg.func.attr == "view":
        marg = marg.func.value

    def mpos(e):
        return isinstance(e, ast.Attribute) and e.attr in ("p", "doflocs") \
            and isinstance(e.value, ast.Name)
    mv = make_evaluator(mdefs, mpos)(marg)
    same_kind = (mv == ("inv", 0)) == (v == ("inv", 0)) and mv[0] != "bad"
    _v(rep, R3, same_kind, "Mesh.__matmul__:merge-key-like-add",
       "'@' and '+' identify common vertices with the same kind of key",
       "Mesh.__matmul__",
       f"'@' compares {'raw coordinates bitwise' if mv == AFF else mv} "
       f"while '+' merges with a scale-free tolerance: four patches at "
       f"x0 = 0, .1, .2, .3 joined with '@' stay cut along x = 0.3 "
       f"(0.1 + 0.2 != 0.3), joined with '+' they are one strip",
       uniq[0].lineno)
    _v(rep, R3, v in (("inv", 0), AFF), "Mesh.__add__:scale-free-key",
       "the key by which common vertices are found is unchanged by a "
       "translation of the operands and by a change of the unit of length",
       "Mesh.__add__",
       f"the key by which common vertices are found depends on the position "
       f"of the meshes or on the unit of length: {v[1]} - distinct vertices "
       f"are merged for a small mesh in large units or far from the origin "
       f"(cells collapse), or coincident ones are kept apart",
       calls[0].lineno)


def _oriented_container(model, rep):
    """An OrientedBoundary is an index array of facets with one flag per
    facet (``ori``: on which side the designated cell lies).  ndarray
    operations return a new array object that *inherits the parent's ori
    unchanged* (__array_finalize__): after a permutation, reversal or subset
    the flags belong to other facets, and FacetBasis takes normals and
    traces from the wrong side without any error.  (a) The container must
    index the flags with the key it indexes the facets with.  (b) The one
    place where the library itself merges facet selections -
    Mesh.normalize_facets, collection branch: np.unique(np.concatenate) -
    must carry the flags along when a part is oriented (facets=['name'] is
    an equivalent way of naming the set 'name')."""
    R1 = "C18-R1"
    cls = model.cls("skfem.generic_utils", "OrientedBoundary")
    gi = cls.methods.get("__getitem__")
    ok = False
    if gi is not None and len(gi.params()) >= 2:
        key = gi.params()[1]
        ok = any(isinstance(n, ast.Assign) and isinstance(
            n.targets[0], ast.Attribute) and n.targets[0].attr == "ori"
            and isinstance(n.value, ast.Subscript)
            and src(n.value.value) == "self.ori"
            and src(n.value.slice) == key for n in ast.walk(gi.node))
    _v(rep, R1, ok, "OrientedBoundary.__getitem__:flags-follow-facets",
       "indexing the facets indexes the orientation flags with the same "
       "key", "OrientedBoundary",
       "OrientedBoundary defines no __getitem__ that indexes ori with the "
       "key: ob[::-1], ob[perm] keep the parent's flags in the old order "
       "(normals and traces from the wrong side, silently), ob[:5] keeps "
       "all of them (IndexError in FacetBasis)", cls.node.lineno, cls.path)
    nf = model.cls(MESH, "Mesh").methods["normalize_facets"]
    merges = [c for c in ast.walk(nf.node) if isinstance(c, ast.Call)
              and src(c.func) == "np.unique" and c.args and any(
                  isinstance(x, ast.Call) and src(x.func) in (
                      "np.concatenate", "np.hstack")
                  for x in ast.walk(c.args[0]))]
    if not merges:
        raise AnalysisError("Mesh.normalize_facets: merge of a collection "
                            "not found")
    handles = any(isinstance(x, ast.Name) and x.id == "OrientedBoundary"
                  for x in ast.walk(nf.node)) and any(
        isinstance(x, ast.Attribute) and x.attr == "ori"
        for x in ast.walk(nf.node))
    _v(rep, R1, handles, "Mesh.normalize_facets:collection:oriented-parts",
       "a collection with an oriented part yields an OrientedBoundary whose "
       "flags follow their facets", "Mesh.normalize_facets",
       "the collection branch merges its parts with np.unique("
       "np.concatenate(...)) and never looks at their orientation: "
       "FacetBasis(m, e, facets=['iface']) integrates over the other side "
       "than facets='iface'", merges[0].lineno)


def _tag_array_dtype(model, rep):
    """Named boundaries / subdomains are index arrays.  np.array of a list
    built at run time has dtype float64 when the list is empty - a tag that
    selects nothing (restrict() produces them) - and a float array cannot
    index: every later restrict / refined / FacetBasis on the *whole* mesh
    raises IndexError.  Every np.array(<list display / comprehension>) that
    flows into a tag dictionary of a mesh module needs an explicit integer
    dtype (or an integer conversion on the way)."""
    R1 = "C18-R1"
    n = 0
    for fn in model.all_functions():
        if not fn.path.startswith("skfem/mesh/"):
            continue
        tagvars = set()
        for c in walk_no_nested(fn.node):
            if isinstance(c, ast.Call):
                for k in c.keywords:
                    if k.arg in ("_boundaries", "_subdomains", "boundaries",
                                 "subdomains") and isinstance(
                            k.value, ast.Name):
                        tagvars.add(k.value.id)
        if not tagvars:
            continue
        for st in walk_no_nested(fn.node):
            vals = []
            if isinstance(st, ast.Assign) and len(st.targets) == 1:
                t = st.targets[0]
                if isinstance(t, ast.Subscript) and isinstance(
                        t.value, ast.Name) and t.value.id in tagvars:
                    vals = [st.value]
                elif isinstance(t, ast.Name) and t.id in tagvars and \
                        isinstance(st.value, ast.DictComp):
                    vals = [st.value.value]
            for v in vals:
                for c in ast.walk(v):
                    if not (isinstance(c, ast.Call) and src(c.func) in (
                            "np.array", "np.asarray", "numpy.array")
                            and c.args and isinstance(
                                c.args[0], (ast.ListComp, ast.List,
                                            ast.GeneratorExp))):
                        continue
                    if isinstance(c.args[0], ast.List) and c.args[0].elts \
                            and all(isinstance(e, ast.Constant)
                                    for e in c.args[0].elts):
                        continue
                    n += 1
                    typed = any(k.arg == "dtype" for k in c.keywords) or \
                        len(c.args) > 1 or any(
                            isinstance(y, ast.Call) and isinstance(
                                y.func, ast.Attribute)
                            and y.func.attr == "astype" and y.args
                            and "int" in src(y.args[0])
                            and c in list(ast.walk(y.func.value))
                            for y in ast.walk(v))
                    cons = f"{fn.short()}:{src(st.targets[0])}:integer-tags"
                    if typed:
                        rep.ok(R1, cons, "tag array built from a list with "
                               "an explicit dtype")
                    else:
                        rep.fail(R1, fn.path, fn.short(), cons,
                                 f"'{src(st.targets[0])} = np.array([...])' "
                                 f"without a dtype: for a named set that "
                                 f"selects nothing the list is empty and the "
                                 f"tag becomes a float64 array - restrict, "
                                 f"refined, FacetBasis on the resulting mesh "
                                 f"raise IndexError (for every tag, not just "
                                 f"the empty one)", c.lineno)
    if n < 1:
        raise AnalysisError("no tag array built from a run-time list found "
                            "(MeshQuad1.to_meshtri confirmed by hand)")


def _higher_order_surgery(model, rep):
    """Mesh._reix and Mesh._remove_duplicate_nodes rebuild the point array
    from the *vertex* numbers in t (p[:, np.unique(t)], np.unique over the
    columns of p).  For the second-order classes the point array also holds
    the mid-side / interior nodes (reached through dofs.element_dofs, not
    through t) and for the DG classes one column per cell corner: the
    surgery operations built on these two helpers return an object of the
    same class whose point array has lost those nodes - no error until the
    mesh is used (IndexError).  Every such operation must be overridden (or
    refused) by the classes whose element has more than vertex DOFs."""
    R4 = "C18-R4"
    mcls = model.cls(MESH, "Mesh")
    helpers = ("_reix", "_remove_duplicate_nodes")
    ops = {}
    for name, fn in mcls.methods.items():
        if name in helpers or name == "trace":
            # trace() builds a first-order mesh of another (lower-
            # dimensional) class from facet vertices: vertex numbers are
            # what it needs
            continue
        used = [c for c in walk_no_nested(fn.node) if isinstance(c, ast.Call)
                and isinstance(c.func, ast.Attribute)
                and c.func.attr in helpers]
        if used:
            ops[name] = fn
    if len(ops) < 3:
        raise AnalysisError(f"only {len(ops)} operations built on _reix / "
                            f"_remove_duplicate_nodes found")
    # classes whose element carries more than vertex DOFs
    rich = []
    for c in model.all_classes():
        if not c.path.startswith("skfem/mesh/") or mcls not in c.mro():
            continue
        ea = c.attrs.get("elem")
        if ea is None:
            continue
        ecl = [x for x in model.all_classes() if x.name == src(ea)
               and x.path.startswith("skfem/element/")]
        if not ecl:
            continue

        def count(attr, ecl=ecl):
            a = ecl[0].find_attr(attr)
            return int(a[1].value) if a and isinstance(
                a[1], ast.Constant) and isinstance(a[1].value, int) else 0
        if count("edge_dofs") + count("facet_dofs") + count(
                "interior_dofs") > 0:
            rich.append(c)
    if len(rich) < 6:
        raise AnalysisError(f"only {len(rich)} mesh classes with "
                            f"higher-order / DG elements found")
    for name, fn in sorted(ops.items()):
        inherit = sorted(c.name for c in rich
                         if c.find_method(name) is fn)
        cons = f"Mesh.{name}:all-nodes-kept"
        if not inherit:
            rep.ok(R4, cons, "overridden by every class whose point array "
                             "holds more than the vertices")
        else:
            rep.fail(R4, fn.path, f"Mesh.{name}", cons,
                     f"{', '.join(inherit)} inherit Mesh.{name}, which "
                     f"rebuilds the point array from the vertex numbers in "
                     f"t: the mid-side / interior / per-corner nodes are "
                     f"dropped, the result is an object of the same class "
                     f"with too few points - MeshTri2().refined(1)"
                     f".restrict(...) has 6 points for 4 quadratic cells "
                     f"and every use raises IndexError", fn.lineno)


def _extrusion_reads_cells(model, rep):
    """The extrusion of a mesh along a segment mesh is the product of their
    *cells*.  Both extrusion routines build one layer between every pair of
    consecutive stored points of the segment mesh: that is the product of
    the cells only if the segment mesh has no gap and no unused point.  A
    routine that never reads the connectivity of the segment mesh cannot
    know its cells (necessary condition, decided here; that the layers
    derived from it are right is the subject of the layer run below)."""
    R3 = "C18-R3"
    for modn, clsn in (("skfem.mesh.mesh_tri_1", "MeshTri1"),
                       ("skfem.mesh.mesh_line_1", "MeshLine1")):
        fn = model.cls(modn, clsn).methods.get("__mul__")
        if fn is None:
            raise AnalysisError(f"{clsn}.__mul__ not found")
        if not any(isinstance(x, ast.Attribute) and x.attr in ("p", "doflocs")
                   and src(x.value) == "other" for x in ast.walk(fn.node)):
            raise AnalysisError(f"{clsn}.__mul__: the points of the segment "
                                f"mesh are not read")
        reads = any(isinstance(x, ast.Attribute) and src(x.value) == "other"
                    and x.attr not in ("p", "doflocs")
                    and not (isinstance(x.ctx, ast.Load) and x.attr in (
                        "__class__",))
                    for x in ast.walk(fn.node))
        _v(rep, R3, reads, f"{clsn}.__mul__:cells-of-the-segment-mesh",
           "the layers are derived from the cells of the segment mesh",
           f"{clsn}.__mul__",
           f"{clsn}.__mul__ reads the points of the segment mesh (other.p) "
           f"but never its connectivity: one layer is built between every "
           f"two consecutive stored points - also across a gap "
           f"(MeshLine(np.linspace(0, 3, 4)).remove_elements(np.array([1])): "
           f"three layers, measure 3 instead of 2) and up to an unused "
           f"trailing point", fn.lineno, fn.path)


def _extrusion(model, rep):
    """MeshTri1 * MeshLine1: every level z_i gets a copy of *all* stored
    points of the base mesh (block i, n0 points); the prisms between level
    i and i + 1 join the base cells shifted by i*n0 and (i + 1)*n0."""
    R3 = "C18-R3"
    cls = model.cls("skfem.mesh.mesh_tri_1", "MeshTri1")
    lcls = model.cls("skfem.mesh.mesh_line_1", "MeshLine1")
    fn = cls.methods["__mul__"]
    N0 = Poly.sym("n0")
    LEVELS = 3
    cap = {}

    class Pts:
        """accumulated (3, k*n0) point array: list of layer blocks"""
        skv_isarray = True

        def __init__(self, layers):
            self.layers = layers

    class Cells:
        skv_isarray = True

        def __init__(self, prisms):
            self.prisms = prisms

    class Z:
        """other.p[0]: the levels - in stored order (symbols u_i) unless
        sorted (z_0 < z_1 < ...)"""
        skv_isarray = True

        def __init__(self, order="stored"):
            self.order = order

        def skv_getitem(self, ix):
            if ix == 0:
                return self
            if isinstance(ix, slice) and ix == slice(None, None, -1):
                return Z({"stored": "stored", "up": "down",
                          "down": "up"}[self.order])
            raise Unsupported("levels index")

        def skv_len(self):
            return LEVELS

        def skv_iter(self):
            cap["walk"] = self.order
            if self.order == "stored":
                return [Poly.sym(f"u{i}") for i in range(LEVELS)]
            r = [Poly.sym(f"z{i}") for i in range(LEVELS)]
            return r if self.order == "up" else r[::-1]

    def hook(interp, name, args, kwargs, node):
        if name == "numpy.zeros":
            shp = args[0]
            return Pts([]) if shp[0] == 3 else Cells([])
        if name == "numpy.sort" and isinstance(args[0], Z):
            return Z("up")
        if name == "numpy.array":
            return ("levelrow", args[0])
        if name == "numpy.vstack":
            seq = list(args[0])
            if len(seq) == 2 and isinstance(seq[0], PArr):
                return ("layer", seq[0].k, seq[1])
            if len(seq) == 2 and all(isinstance(x, TArr) for x in seq):
                return ("prism", seq[0].k, seq[0].offset, seq[1].k,
                        seq[1].offset)
            return NotImplemented
        if name == "numpy.hstack":
            seq = list(args[0])
            if len(seq) == 2 and isinstance(seq[0], Pts):
                return Pts(seq[0].layers + [seq[1]])
            if len(seq) == 2 and isinstance(seq[0], Cells):
                return Cells(seq[0].prisms + [seq[1]])
            return NotImplemented
        if name in ("numpy.max", "numpy.amax") and args and isinstance(
                args[0], TArr):
            return Poly.sym(f"maxt{args[0].k}")
        if name.endswith(".MeshWedge1"):
            cap["args"] = args
            return "WEDGES"
        return NotImplemented

    class ListTimes:
        pass
    me = Obj(cls, {"p": PArr(0), "t": TArr(0), "doflocs": PArr(0)})
    other = Obj(lcls, {"p": Z()})
    try:
        Interp(model, call_hook=hook).call(fn, [other], {}, self_obj=me)
    except (Unsupported, Raised) as e:
        raise AnalysisError(f"MeshTri1.__mul__: {e}")
    a = cap.get("args")
    if not a or not isinstance(a[0], Pts) or not isinstance(a[1], Cells):
        raise AnalysisError("MeshTri1.__mul__: wedge mesh not constructed "
                            "from accumulated points and cells")
    layers, prisms = a[0].layers, a[1].prisms
    okp = len(layers) == LEVELS and all(
        isinstance(l, tuple) and l[0] == "layer" and l[1] == 0
        for l in layers)
    want = [("prism", 0, N0 * i, 0, N0 * (i + 1)) for i in range(LEVELS - 1)]
    okc = list(prisms) == want
    got = [(str(p_[2]), str(p_[4])) for p_ in prisms
           if isinstance(p_, tuple) and len(p_) == 5]
    _v(rep, R3, okp and okc, "MeshTri1.__mul__:layers",
       f"{LEVELS} levels: each holds a copy of all n0 stored points; prisms "
       f"of layer i join the base cells shifted by i*n0 and (i+1)*n0",
       "MeshTri1.__mul__",
       f"extrusion: {len(layers)} point blocks of n0 points each, prisms "
       f"shifted by {got}; expected shifts "
       f"{[(str(N0 * i), str(N0 * (i + 1))) for i in range(LEVELS - 1)]} - "
       f"the connectivity of a layer must be shifted by the number of "
       f"*stored* points per level (max(t) + 1 differs when the base mesh "
       f"has unused trailing vertices)", fn.lineno)
    lv = []
    for l in layers:
        row = l[2] if isinstance(l, tuple) and len(l) == 3 else None
        rp = row[1] if isinstance(row, tuple) and row[0] == "levelrow" \
            else None
        if isinstance(rp, tuple) and rp[0] == "repeated" and \
                len(rp[1]) == 1 and Poly.coerce(rp[2]) == N0:
            lv.append(str(rp[1][0]))
        else:
            lv.append("?")
    mono = lv in ([f"z{i}" for i in range(LEVELS)],
                  [f"z{i}" for i in range(LEVELS)][::-1])
    _v(rep, R3, mono, "MeshTri1.__mul__:levels",
       "the layers are stacked over the sorted levels, each level repeated "
       "for the n0 points of its block", "MeshTri1.__mul__",
       f"extrusion: the blocks of points get the levels {lv} "
       f"(u_i = levels in stored order, z_i = sorted): prisms are built "
       f"between consecutive blocks, so with levels that are not monotone "
       f"the layers overlap and the mesh does not fill [min z, max z] once",
       fn.lineno)


def _restrict(model, rep):
    R4 = "C18-R4"
    mcls = model.cls(MESH, "Mesh")
    fn = mcls.methods["restrict"]

    class MapArr:
        skv_isarray = True

        def __init__(self, n):
            self.n, self.stores = n, []

        def skv_binop(self, op, other, reflected):
            return self

        def skv_setitem(self, ix, v):
            self.stores.append((ix, v))

        def skv_getitem(self, ix):
            return Mapped(self, ix)

    class Mapped:
        skv_isarray = True

        def __init__(self, m, ix):
            self.m, self.ix = m, ix

        def skv_compare(self, op, other):
            return ("cmp", type(op).__name__, self, other)

        def skv_getitem(self, ix):
            return ("filtered", self, ix)

    class Tab:
        skv_isarray = True

        def __init__(self, name, n):
            self.name, self.n = name, n

        def skv_getattr(self, name):
            if name == "shape":
                return (3, self.n)
            raise Unsupported("table." + name)

        def skv_getitem(self, ix):
            return ("cols", self.name, ix)

    def hook(interp, name, args, kwargs, node):
        if name == "numpy.zeros":
            return MapArr(Poly.coerce(args[0]))
        if name == "numpy.arange":
            return ("arange", args[0])
        if name == "numpy.intersect1d":
            return Isect(args[0], args[1])
        if name == "numpy.unique":
            return ("unique", args[0])
        if name == "dataclasses.replace":
            cap["replace"] = kwargs
            return "OUT"
        if name in ("numpy.isin", "numpy.in1d", "numpy.nonzero",
                    "numpy.where", "numpy.setdiff1d", "numpy.union1d",
                    "numpy.flatnonzero"):
            r = Other(f"{name.split('.')[-1]}(...)")
            return (r,) if name in ("numpy.nonzero", "numpy.where") else r
        return NotImplemented

    class Other:
        """an index set built some other way: carried along so that the
        comparison with the expected construction fails with a report"""
        skv_isarray = True

        def __init__(self, text):
            self.text = text

        def skv_getattr(self, name):
            return PyFunc(lambda a, k, n: Other(f"{self.text}.{name}(..)"))

        def skv_getitem(self, ix):
            return Other(f"{self.text}[..]")

        def skv_len(self):
            return Poly.sym("nother")

        def __repr__(self):
            return self.text

    class Isect:
        skv_isarray = True

        def __init__(self, a, b):
            self.a, self.b = a, b

        def skv_getattr(self, name):
            if name == "astype":
                return PyFunc(lambda a, k, n: self)
            raise Unsupported("intersect." + name)

    class Sel:
        skv_isarray = True

        def skv_len(self):
            return Poly.sym("nkept")
    cap: Dict[str, Any] = {}
    elements = Sel()
    NT_, NF = Poly.sym("nt"), Poly.sym("nf")
    obj = Obj(mcls, {
        "normalize_elements": PyFunc(lambda a, k, n: elements),
        "_reix": PyFunc(lambda a, k, n: ("P", "T", "IX")),
        "t": Tab("t", NT_), "t2f": Tab("t2f", NT_), "facets": Tab("facets",
                                                                  NF),
        "subdomains": {"s": "SUB"}, "boundaries": {"b": "BND"}})
    try:
        Interp(model, call_hook=hook).call(fn, ["ELEMS"], {}, self_obj=obj)
    except (Unsupported, Raised) as e:
        raise AnalysisError(f"Mesh.restrict: {e}")
    kw = cap.get("replace")
    if not kw:
        raise AnalysisError("Mesh.restrict: replace not reached")
    sub = kw.get("_subdomains", {})
    s = sub.get("s") if isinstance(sub, dict) else None
    ok = (isinstance(s, Mapped) and s.m.n == NT_
          and isinstance(s.ix, Isect) and s.ix.a == "SUB"
          and s.ix.b is elements and len(s.m.stores) == 1
          and s.m.stores[0][0] is elements
          and s.m.stores[0][1] == ("arange", Poly.sym("nkept")))
    _v(rep, R4, ok, "Mesh.restrict:subdomains",
       "cells of (subdomain & kept) mapped through old->new = position in "
       "the kept list", "Mesh.restrict",
       "named subdomains are not mapped through the old-to-new cell table "
       "of the kept cells", fn.lineno)
    bnd = kw.get("_boundaries", {})
    b = bnd.get("b") if isinstance(bnd, dict) else None
    ok = False
    if isinstance(b, tuple) and b[0] == "filtered":
        mapped, cond = b[1], b[2]
        ok = (isinstance(mapped, Mapped) and mapped.m.n == NF
              and mapped.ix == "BND" and len(mapped.m.stores) == 1
              and mapped.m.stores[0][0] == ("unique", ("cols", "t2f",
                                                       (slice(None),
                                                        elements)))
              and isinstance(cond, tuple) and cond[1] == "GtE"
              and cond[3] == 0)
    _v(rep, R4, ok, "Mesh.restrict:boundaries",
       "facets mapped through old->new = rank among the facets of the kept "
       "cells; facets that disappeared (-1) are filtered out",
       "Mesh.restrict",
       "named boundaries are not mapped through the facet table of the "
       "kept cells with removed facets filtered out", fn.lineno)


def _transformations(model, rep):
    R4 = "C18-R4"
    an = Analyzer(model)
    for name in ("scaled", "translated", "mirrored", "morphed", "smoothed"):
        fn = model.func(MESH, f"Mesh.{name}")
        s = an.summarize(fn)
        # bare 'self' roots are attribute (re)bindings, i.e. lazily filled
        # private caches; storage of public arrays shows as 'self.<attr>'
        bad = [e for e in s.effects if any(
            (r.startswith("self.") and not r[5:].startswith("_"))
            or r.startswith("param:") for r in e.roots)
            and e.kind != "attr-store"]
        _v(rep, R4, not bad, f"Mesh.{name}:copies",
           "writes only into fresh copies of the point array",
           f"Mesh.{name}",
           f"stores into the operand's arrays ({bad[0].detail if bad else ''}"
           f")", fn.lineno)
        reps = [n for n in walk_no_nested(fn.node) if isinstance(n, ast.Call)
                and isinstance(n.func, ast.Name) and n.func.id == "replace"]
        ok = any({k.arg for k in r.keywords} == {"doflocs"} for r in reps)
        _v(rep, R4, ok, f"Mesh.{name}:keeps-topology",
           "only doflocs changes: connectivity and tags stay valid",
           f"Mesh.{name}", "the transformation changes more than the point "
           "coordinates", fn.lineno)


def _transform_values(model, rep):
    """Symbolic run of the coordinate transformations on a point array with
    rows (x0, x1, x2): what ends up in row i of the new mesh."""
    R4 = "C18-R4"
    mcls = model.cls(MESH, "Mesh")
    X = [Poly.sym(f"x{i}") for i in range(3)]

    class Pts:
        skv_isarray = True

        def __init__(self, rows, origin=False):
            self.rows, self.origin = list(rows), origin

        def skv_getattr(self, name):
            if name == "copy":
                return PyFunc(lambda a, k, n: Pts(self.rows))
            if name == "shape":
                return (len(self.rows), Poly.sym("nv"))
            raise Unsupported("points." + name)

        def skv_getitem(self, ix):
            if isinstance(ix, Fraction):
                ix = int(ix)
            if isinstance(ix, int):
                return self.rows[ix]
            raise Unsupported("points index")

        def skv_setitem(self, ix, v):
            if isinstance(ix, Fraction):
                ix = int(ix)
            if not isinstance(ix, int):
                raise Unsupported("points store")
            self.rows[ix] = v

        def skv_len(self):
            return len(self.rows)

    def run_(name, args, kwargs=None, hook=None):
        cap = {}

        def h(interp, nm, a, k, node):
            if nm == "dataclasses.replace":
                cap["kw"] = k
                return "OUT"
            if nm == "numpy.array" and isinstance(a[0], list):
                return Pts(a[0])
            if hook:
                return hook(interp, nm, a, k, node)
            return NotImplemented
        pts = Pts(X, origin=True)
        obj = Obj(mcls, {"p": pts, "doflocs": pts,
                         "dim": PyFunc(lambda a, k, n: 3)})
        fn = mcls.methods[name]
        try:
            Interp(model, call_hook=h).call(fn, args, kwargs or {},
                                            self_obj=obj)
        except (Unsupported, Raised) as e:
            raise AnalysisError(f"Mesh.{name}: {e}")
        out = cap.get("kw", {}).get("doflocs")
        if not isinstance(out, Pts):
            raise AnalysisError(f"Mesh.{name}: new points not captured")
        if pts.rows != X:
            out = None       # operand modified (reported by :copies)
        return fn, out
    # morphed: every function sees the original coordinates
    seen = []

    def mk(i):
        def f(a, k, n):
            seen.append((i, list(a[0].rows) if isinstance(a[0], Pts)
                         else None))
            return Poly.sym(f"F{i}")
        return PyFunc(f)
    fn, out = run_("morphed", [mk(0), None, mk(2)])
    ok = out is not None and out.rows == [Poly.sym("F0"), X[1],
                                          Poly.sym("F2")] and \
        [s_[1] for s_ in seen] == [X, X]
    late = [i for i, rows in seen if rows != X]
    _v(rep, R4, ok, "Mesh.morphed:values",
       "row i = f_i(original points); rows without a function unchanged",
       "Mesh.morphed",
       (f"function {late[0]} is applied to points whose earlier rows have "
        f"already been replaced: the coordinate maps are composed instead "
        f"of applied simultaneously" if late else
        "new rows are not f_i(original points) with the others kept"),
       fn.lineno)
    # scaled / translated
    F = [Poly.sym(f"c{i}") for i in range(3)]
    fn, out = run_("scaled", [list(F)])
    _v(rep, R4, out is not None and out.rows == [X[i] * F[i]
                                                  for i in range(3)],
       "Mesh.scaled:values", "row i = x_i * factor_i", "Mesh.scaled",
       "the scaled coordinates are not x_i * factor_i row by row",
       fn.lineno)
    fn, out = run_("translated", [list(F)])
    _v(rep, R4, out is not None and out.rows == [X[i] + F[i]
                                                  for i in range(3)],
       "Mesh.translated:values", "row i = x_i + shift_i", "Mesh.translated",
       "the translated coordinates are not x_i + shift_i row by row",
       fn.lineno)


def _mirrored(model, rep):
    """Mesh.mirrored on symbolic points x, normal n and plane point q (2-D
    and 3-D): the new points must be x - 2 ((x - q).n) n / (n.n), the
    reflection in the plane through q with normal n - whatever the length
    of n.  The norm is a symbol L with L^2 = n.n."""
    R4 = "C18-R4"
    mcls = model.cls(MESH, "Mesh")
    fn = mcls.methods["mirrored"]
    L = Poly.sym("L")

    class V:
        """d values (one per coordinate row; the point axis is not
        materialised): used for points, vectors and columns alike"""
        skv_isarray = True

        def __init__(self, vals):
            self.vals = [Rat.coerce(v) for v in vals]

        def skv_getattr(self, name):
            if name == "copy":
                return PyFunc(lambda a, k, n: V(self.vals))
            if name == "shape":
                return (len(self.vals), Poly.sym("nv"))
            raise Unsupported("vector." + name)

        def skv_getitem(self, ix):
            if isinstance(ix, tuple) and all(
                    x is None or x == slice(None) for x in ix):
                return self
            if isinstance(ix, Fraction):
                ix = int(ix)
            if isinstance(ix, int):
                return self.vals[ix]
            raise Unsupported("vector index")

        def skv_binop(self, op, other, reflected):
            if isinstance(other, V):
                o = other.vals
            elif isinstance(other, (int, Fraction, Poly, Rat)):
                o = [Rat.coerce(other)] * len(self.vals)
            else:
                raise Unsupported("vector arithmetic operand")
            out = []
            for a, b in zip(self.vals, o):
                if reflected:
                    a, b = b, a
                if isinstance(op, ast.Add):
                    out.append(a + b)
                elif isinstance(op, ast.Sub):
                    out.append(a - b)
                elif isinstance(op, ast.Mult):
                    out.append(a * b)
                elif isinstance(op, ast.Div):
                    out.append(a / b)
                else:
                    raise Unsupported("vector operator")
            return V(out)

        def skv_neg(self):
            return V([Rat(Poly()) - v for v in self.vals])

    def hook(interp, name, args, kwargs, node):
        if name == "numpy.array" and isinstance(args[0], (tuple, list)):
            return V(list(args[0]))
        if name == "numpy.linalg.norm" and isinstance(args[0], V) and \
                len(args) == 1:
            return L
        if name == "numpy.dot" and all(isinstance(a, V) for a in args[:2]):
            tot = Rat(Poly())
            for a, b in zip(args[0].vals, args[1].vals):
                tot = tot + a * b
            return tot
        if name == "dataclasses.replace":
            cap["kw"] = kwargs
            return "OUT"
        return NotImplemented

    def reduce(poly, nn):
        """replace L^2 by n.n"""
        out = Poly()
        for mono, c in poly.t.items():
            pw = dict(mono)
            k = pw.pop("L", 0)
            term = Poly({tuple(sorted(pw.items())): c})
            for _ in range(k // 2):
                term = term * nn
            if k % 2:
                term = term * L
            out = out + term
        return out
    for d in (2, 3):
        cap = {}
        X = [Poly.sym(f"x{i}") for i in range(d)]
        N = [Poly.sym(f"n{i}") for i in range(d)]
        Q = [Poly.sym(f"q{i}") for i in range(d)]
        nn = Poly()
        S = Poly()
        for i in range(d):
            nn = nn + N[i] * N[i]
            S = S + (X[i] - Q[i]) * N[i]
        pts = V(X)
        obj = Obj(mcls, {"p": pts, "doflocs": pts,
                         "dim": PyFunc(lambda a, k, n, d=d: d)})
        try:
            Interp(model, call_hook=hook).call(
                fn, [tuple(N), tuple(Q)], {}, self_obj=obj)
        except (Unsupported, Raised) as e:
            raise AnalysisError(f"Mesh.mirrored: {e}")
        out = cap.get("kw", {}).get("doflocs")
        ok = isinstance(out, V) and len(out.vals) == d and \
            [v.n for v in pts.vals] == X
        bad = None
        if ok:
            for i in range(d):
                # out_i - x_i + 2 S n_i / L^2 == 0  (mod L^2 = n.n)
                e = out.vals[i] - Rat(X[i]) + Rat(S * N[i] * 2, L * L)
                if not reduce(e.n, nn).is_zero():
                    bad = i
                    break
        _v(rep, R4, ok and bad is None, f"Mesh.mirrored:values[{d}d]",
           "new points = x - 2 ((x - q).n) n / (n.n): the reflection in the "
           "plane through q with normal n, for any length of n",
           "Mesh.mirrored",
           (f"coordinate {bad} of the mirrored points is not that of the "
            f"reflection in the plane through the given point with the "
            f"given normal (e.g. the plane offset is taken with the "
            f"unnormalised normal while the reflection uses the unit "
            f"normal: wrong for non-unit normals off the origin)"
            if bad is not None else "mirrored does not produce a new point "
            "array from the operand's points"), fn.lineno)
        # default point: the origin
        cap.clear()
        try:
            Interp(model, call_hook=hook).call(fn, [tuple(N)], {},
                                               self_obj=obj)
        except (Unsupported, Raised) as e:
            raise AnalysisError(f"Mesh.mirrored(default point): {e}")
        out = cap.get("kw", {}).get("doflocs")
        S0 = Poly()
        for i in range(d):
            S0 = S0 + X[i] * N[i]
        ok0 = isinstance(out, V) and all(
            reduce((out.vals[i] - Rat(X[i])
                    + Rat(S0 * N[i] * 2, L * L)).n, nn).is_zero()
            for i in range(d))
        _v(rep, R4, ok0, f"Mesh.mirrored:default-point[{d}d]",
           "without a point the plane passes through the origin",
           "Mesh.mirrored", "with the default point the mesh is not "
           "reflected in the plane through the origin", fn.lineno)


def run(model: Model, rep, tier: str) -> None:
    rep.rule("C18-R1", "surgery operations set both tag fields or provably "
             "keep cell and facet indices")
    rep.rule("C18-R2", "simplex splits partition the cell; subdomains "
             "shifted by whole blocks")
    rep.rule("C18-R3", "joins / extrusion: every shifted connectivity "
             "starts at its own point block")
    rep.rule("C18-R4", "restrict's old-to-new maps; transformations copy "
             "before writing and keep the topology")
    tag_rule(model, rep, "C18-R1",
             skip=lambda f: f.name in ("_uniform", "refined")
             or f.name.startswith("_adaptive"))
    split_rules(model, rep, "C18-R2", "C18-R2", "C18-R2", "C18-R2")
    staged(lambda: _joins(model, rep), lambda: _restrict(model, rep),
           lambda: _transform_values(model, rep),
           lambda: _mirrored(model, rep),
           lambda: _transformations(model, rep))
    from ..dgspace import report as _dg_report
    _dg_report(model, rep, "C18-R2", lambda n: n in ("to_meshtri",
                                                     "to_meshtet"),
               "the simplex mesh is built on garbage points", minimum=1)
    from ..tags import report_oriented_remaps
    if report_oriented_remaps(
            model, rep, "C18-R1",
            lambda f: f.name in ("restrict", "to_meshtri", "to_meshtet",
                                 "remove_elements")) < 2:
        raise AnalysisError("fewer than two surgery operations carry named "
                            "boundaries over")
    rep.require_min("C18-R1", 8)
    rep.require_min("C18-R2", 9)
    rep.require_min("C18-R3", 5)
    rep.require_min("C18-R4", 10)


_QU = "skfem/mesh/mesh_quad_1.py"
_HE = "skfem/mesh/mesh_hex_1.py"
MUTANTS = [
    ("oriented boundaries indexed without their flags",
     ("skfem/generic_utils.py",
      "            out.ori = self.ori[key]\n", "            pass\n"),
     "C18-R1"),
    ("to_meshtri builds boundary tags without a dtype",
     (_QU, "self.boundaries[k])]],\n                    dtype=np.int32)",
      "self.boundaries[k])]])"), "C18-R1"),
    ("joined mesh built from the rounded key",
     (FM, "        return cls(*self._remove_duplicate_nodes(p, t, key=key))",
      "        return cls(*self._remove_duplicate_nodes(key, t))"), "C18-R3"),
    ("common vertices found by rounding the raw coordinates",
     (FM, "        key = ((p - origin) / scale).round(decimals=4)",
      "        key = p.round(decimals=8)"), "C18-R3"),
    ("merge tolerance relative to the distance from the origin",
     (FM, "        key = ((p - origin) / scale).round(decimals=4)",
      "        key = (p / (np.abs(p).max() or 1.)).round(decimals=8)"),
     "C18-R3"),
    ("merge tolerance relative to the extent of the joined meshes",
     (FM, "        key = ((p - origin) / scale).round(decimals=4)",
      "        key = ((p - origin) / ((p - origin).max() or 1.))"
      ".round(decimals=8)"), "C18-R3"),
    ("merge key keeps the offset of the meshes",
     (FM, "        key = ((p - origin) / scale).round(decimals=4)",
      "        key = (p / scale).round(decimals=4)"), "C18-R3"),
    ("merge key rounded before the division by the cell size",
     (FM, "        key = ((p - origin) / scale).round(decimals=4)",
      "        key = (p - origin).round(decimals=4) / scale"), "C18-R3"),
    ("periodic quadrilateral meshes inherit the triangle split again",
     ("skfem/mesh/mesh_dg.py", "    def to_meshtri(self, *args, **kwargs):\n        raise NotImplementedError\n\n", ""), "C18-R2"),
    ("extrusion walks the levels in stored order",
     ("skfem/mesh/mesh_tri_1.py",
      "            for i, p in enumerate(np.sort(other.p[0])):",
      "            for i, p in enumerate(other.p[0]):"), "C18-R3"),
    ("prism split cuts one side face by the other rule",
     ("skfem/mesh/mesh_wedge_1.py",
      "            self.t[[1, 2, 3, 4]],\n            self.t[[2, 3, 4, 5]],",
      "            self.t[[1, 2, 3, 5]],\n            self.t[[1, 3, 4, 5]],"),
     "C18-R2"),
    ("hexahedron split into five tetrahedra (opposite faces cut crosswise)",
     (_HE, "            self.t[[0, 1, 3, 4]],\n            self.t[[0, 3, 2, "
      "4]],\n            self.t[[2, 3, 4, 6]],\n            self.t[[3, 4, 6, "
      "7]],\n            self.t[[3, 4, 5, 7]],\n            self.t[[1, 3, 4, "
      "5]],", "            self.t[[7, 1, 2, 3]],\n            self.t[[0, 1, "
      "2, 3]],\n            self.t[[4, 1, 2, 7]],\n            self.t[[5, 1, "
      "3, 7]],\n            self.t[[6, 2, 3, 7]],"), "C18-R2"),
    ("mirrored reflects with the wrong sign of the normal component",
     (FM, "        p = p - 2. * np.dot(n, p - p0[:, None]) * n[:, None]",
      "        p = p + 2. * np.dot(n, p - p0[:, None]) * n[:, None]"),
     "C18-R4"),
    ("mirrored forgets to normalise the normal",
     (FM, "        n = n / np.linalg.norm(n)\n", ""), "C18-R4"),
    ("join shifts the second mesh by max(t) + 1",
     (FM, "        t = np.hstack((self.t, other.t + self.p.shape[1]))",
      "        t = np.hstack((self.t, other.t + self.nvertices))"),
     "C18-R3"),
    ("morphed feeds each function the partly morphed points",
     (FM, "            p[i] = arg(self.p)", "            p[i] = arg(p)"),
     "C18-R4"),
    ("restrict numbers the facets whose vertices survive",
     (FM, "            facets = np.unique(self.t2f[:, elements])",
      "            facets = np.nonzero(np.isin(self.facets, ix).all(axis=0))"
      "[0]"), "C18-R4"),
    ("scaled applies the factors shifted by one row",
     (FM, "            doflocs=np.array([self.doflocs[itr] * factors[itr]",
      "            doflocs=np.array([self.doflocs[itr] * factors[itr - 1]"),
     "C18-R4"),
    ("oriented() overwrites a vertex instead of swapping",
     ("skfem/mesh/mesh_simplex.py", "        t[1, flip] = t0\n",
      "        t[1, flip] = t1\n"), "C18-R1"),
    ("restrict keeps the old named boundaries",
     (FM, "            t=t,\n            _boundaries=new_boundaries,\n"
      "            _subdomains=new_subdomains,", "            t=t,\n"
      "            _subdomains=new_subdomains,"), "C18-R1"),
    ("remove_unused_nodes compacts only part of the connectivity",
     (FM, "        p, t, _ = self._reix(self.t)\n        return replace(",
      "        p, t, _ = self._reix(self.t[:, ::-1])\n        return "
      "replace("), "C18-R1"),
    ("oriented: rows exchanged under different column selectors",
     ("skfem/mesh/mesh_simplex.py", "        t[1, flip] = t0\n",
      "        t[1, flip[::-1]] = t0\n"), "C18-R1"),
    ("to_meshtri: subdomain cells shifted by two blocks",
     (_QU, "                subdomains = {k: np.concatenate((v, v + nt))",
      "                subdomains = {k: np.concatenate((v, v + 2 * nt))"),
     "C18-R2"),
    ("to_meshtri (crisscross): fourth block forgotten for subdomains",
     (_QU, "                                                 v + 2 * nt,\n"
      "                                                 v + 3 * nt))",
      "                                                 v + 2 * nt))"),
     "C18-R2"),
    ("to_meshtri (crisscross): centre node indexed one too low",
     (_QU, "            tnew = np.arange(self.p.shape[1],\n"
      "                             self.p.shape[1] + self.t.shape[1],",
      "            tnew = np.arange(self.p.shape[1] - 1,\n"
      "                             self.p.shape[1] - 1 + self.t.shape[1],"),
     "C18-R2"),
    ("to_meshtri (crisscross): centre nodes numbered from max(t) + 1 again",
     (_QU, "            tnew = np.arange(self.p.shape[1],\n"
      "                             self.p.shape[1] + self.t.shape[1],",
      "            tnew = np.arange(np.max(self.t) + 1,\n"
      "                             np.max(self.t) + 1 + self.t.shape[1],"),
     "C18-R2"),
    ("extrusion layers shifted by max(t) + 1 again",
     ("skfem/mesh/mesh_tri_1.py",
      "                                   self.t + self.p.shape[1] + diff))",
      "                                   self.t + self.nvertices + diff))"),
     "C18-R3"),
    ("hexahedron split: two tetrahedra overlap",
     (_HE, "            self.t[[2, 3, 4, 6]],", "            self.t[[0, 3, 4, "
      "6]],"), "C18-R2"),
    ("list join: every operand shifted by self's size again",
     (FM, "ixb[m.t + offsets[i]]", "ixb[m.t + self.p.shape[1]]"),
     "C18-R3"),
    ("join: second mesh not shifted",
     (FM, "        t = np.hstack((self.t, other.t + self.p.shape[1]))",
      "        t = np.hstack((self.t, other.t))"), "C18-R3"),
    ("join: points stacked in the other order",
     (FM, "        p = np.hstack((self.p, other.p))\n        t = np.hstack(("
      "self.t, other.t + self.p.shape[1]))\n        # vertices closer",
      "        p = np.hstack((other.p, self.p))\n        t = np.hstack(("
      "self.t, other.t + self.p.shape[1]))\n        # vertices closer"),
     "C18-R3"),
    ("restrict maps subdomains without intersecting with the kept cells",
     (FM, "                k: newt[np.intersect1d(self.subdomains[k],\n"
      "                                       elements).astype(np.int32)]",
      "                k: newt[self.subdomains[k]]"), "C18-R4"),
    ("restrict keeps facets that disappeared (index -1)",
     (FM, "            new_boundaries = {k: v[v >= 0]\n"
      "                              for k, v in new_boundaries.items()}\n",
      ""), "C18-R4"),
    ("restrict numbers new facets over all facets",
     (FM, "            facets = np.unique(self.t2f[:, elements])\n",
      "            facets = np.unique(self.t2f)\n"), "C18-R4"),
    ("translated shifts the operand's points in place",
     (FM, "        return replace(\n            self,\n            "
      "doflocs=np.array([self.doflocs[itr] + diffs[itr]\n"
      "                              for itr in range(len(diffs))]),\n"
      "        )", "        p = self.doflocs\n        for itr in "
      "range(len(diffs)):\n            p[itr] += diffs[itr]\n"
      "        return replace(self, doflocs=p)"), "C18-R4"),
    ("morphed works on the operand's array",
     (FM, "        p = self.p.copy()\n        for i, arg in enumerate(args):",
      "        p = self.p\n        for i, arg in enumerate(args):"),
     "C18-R4"),
]
_SWAP = ("        t0 = t[0, flip]\n        t1 = t[1, flip]\n"
         "        t[0, flip] = t1\n        t[1, flip] = t0\n")
TWINS = [
    ("to_meshtri converts the boundary tags with astype",
     (_QU, "self.boundaries[k])]],\n                    dtype=np.int32)",
      "self.boundaries[k])]]).astype(np.int32)")),
    ("to_meshtri builds boundary tags as int64",
     (_QU, "self.boundaries[k])]],\n                    dtype=np.int32)",
      "self.boundaries[k])]], dtype=np.int64)")),
    ("merge scale from the edge vectors of the stacked cells",
     (FM, "        pt = p[:, t]\n", "        pt = p[:, t].copy()\n")),
    ("merge key written with np.round",
     (FM, "        key = ((p - origin) / scale).round(decimals=4)",
      "        key = np.round((p - origin) / scale, 4)")),
    ("extrusion walks the sorted levels from the top",
     ("skfem/mesh/mesh_tri_1.py",
      "            for i, p in enumerate(np.sort(other.p[0])):",
      "            for i, p in enumerate(np.sort(other.p[0])[::-1]):")),
    ("prism split cutting all side faces from the lower-numbered vertex",
     ("skfem/mesh/mesh_wedge_1.py",
      "            self.t[[0, 1, 2, 3]],\n            self.t[[1, 2, 3, 4]],\n"
      "            self.t[[2, 3, 4, 5]],",
      "            self.t[[0, 1, 2, 5]],\n            self.t[[0, 1, 5, 4]],\n"
      "            self.t[[0, 4, 5, 3]],")),
    ("mirrored written in plane-offset form with the unit normal",
     (FM, "        n = n / np.linalg.norm(n)\n        p = p - 2. * np.dot(n, "
      "p - p0[:, None]) * n[:, None]",
      "        n = n / np.linalg.norm(n)\n        offset = np.dot(n, p0)\n"
      "        p = p - 2. * (np.dot(n, p) - offset) * n[:, None]")),
    ("oriented() swaps the two rows with one sliced assignment",
     ("skfem/mesh/mesh_simplex.py", _SWAP,
      "        t[:2, flip] = t[1::-1, flip]\n")),
    ("hexahedron split lists its tetrahedra in another order",
     (_HE, "            self.t[[0, 1, 3, 4]],\n            self.t[[0, 3, 2, "
      "4]],", "            self.t[[0, 3, 2, 4]],\n            self.t[[0, 1, "
      "3, 4]],")),
    ("join offsets computed with a running sum",
     (FM, "            offsets = np.cumsum([self.p.shape[1]]\n"
      "                                + [mesh.p.shape[1] for mesh in other])",
      "            offsets = np.cumsum([self.p.shape[1]] + [mesh.p.shape[1]\n"
      "                                for mesh in other])")),
]
