"""C17 - saving and loading a mesh round-trips geometry, connectivity and
tags: writer/reader symmetry, hexahedron permutation, co-indexed arrays,
variant exhaustiveness for oriented boundaries, no effects on operands."""
from __future__ import annotations

import ast
from fractions import Fraction
from typing import Any, Dict, List, Optional, Set

from ..effects import Analyzer
from ..interp import PyFunc, Obj, ClassRef, Arr, Interp, Unsupported, Raised
from ..model import staged, AnalysisError, Model, src, walk_no_nested, \
    nested_functions

PID = "C17"
LEVEL = "other"
TECHNIQUE = ("writer/reader symmetry rules over key prefixes, type tables "
             "and bit weights (evaluated from the source); exact audit of "
             "the hexahedron node permutation and its inverse; index-space "
             "(mask, permutation) typing of co-indexed arrays in the "
             "decoder; variant-exhaustiveness rule for the two boundary "
             "representations; effect analysis of the I/O functions")
LEVEL_TEXT = (
    "Decides: (R1) every tag key the writers produce is parsed back by the "
    "readers into the same kind and name (cell-data prefixes, npz prefixes, "
    "dictionary keys), the type table used for writing is the inverse of "
    "the one used for reading, both sides use the same bit weight per facet "
    "slot, and the hexahedron permutation applied on write is undone on "
    "read for the matching type strings; (R2) HEX_MAPPING is a permutation "
    "of 0..26 whose prefixes of length 8 / 20 / 26 permute the vertex / "
    "edge / facet ranges; (R3) arrays derived from one mask and later "
    "combined element-wise carry the same permutation; (R4) every writer of "
    "named boundaries handles both representations (plain index array and "
    "oriented boundary); (R5) exporting stores neither into the mesh nor "
    "into the caller's dictionaries. meshio's own formats and numerical "
    "equality after I/O are not decided.")
LEVEL_TEXT += (
    " Added after the seeding phase: (R3) the co-indexing types carry the "
    "traversal order (C order of the mask or of its transpose) and the "
    "meaning of each nonzero() component; the encoder finds the slot of "
    "tagged facet j by comparing column j with b[j] (not by membership) "
    "in the owner f2t[ori, b] and scatters to (slot, owner); type tables "
    "and node permutations are decided by evaluating the module "
    "constants.")
LEVEL_TEXT += (
    " Added in the hunting round (defects found by independent agents "
    "on the unchanged tree, DESIGN.md 9.4 / 9.6): "
    "tag names containing the separator, empty tags, and the "
    "connectivity of unsorted triangle meshes through every loader "
    "(open findings).")
LEVEL_TEXT += (
    " Added in the second hunting round (DESIGN.md 9.6): "
    "both cell-set parsers skip the gmsh namespace; legacy names are "
    "resolved by number and dimension, unnamed groups never become the "
    "key None; point data has one value per stored point.")
LEVEL_TEXT += (
    " Added in the fourth hunting round (DESIGN.md 9.6): "
    "to_meshio re-binds the user's point_data / cell_data to new "
    "containers before meshio sees them.")
LEVEL_NOTE = ("Trusted: meshio reads what it writes; numpy savez/load, "
              "nonzero/sort/argsort semantics.")
EXPLANATION = "Symmetry / typing / effect rules on the I/O code."
TRUSTED = ["meshio round trip of points, cells and cell_data",
           "numpy savez/load"]
ASSUMPTIONS = ["a boundary is either an index array or an OrientedBoundary "
               "(generic_utils)"]

MESH = "skfem.mesh.mesh"
FM = "skfem/mesh/mesh.py"
IO = "skfem.io.meshio"
FIO = "skfem/io/meshio.py"


def _v(rep, rule, ok, cons, okmsg, qual, badmsg, line, path=FM):
    if ok:
        rep.ok(rule, cons, okmsg)
    else:
        rep.fail(rule, path, qual, cons, badmsg, line)


def _fstring_prefixes(fn) -> Set[str]:
    out = set()
    for n in ast.walk(fn.node):
        if isinstance(n, ast.JoinedStr) and n.values and isinstance(
                n.values[0], ast.Constant) and isinstance(
                n.values[0].value, str):
            out.add(n.values[0].value)
    return out


def _r1(model, rep):
    R1 = "C17-R1"
    mcls = model.cls(MESH, "Mesh")
    enc = mcls.methods["_encode_cell_data"]
    dec = mcls.methods["_decode_cell_data"]
    # ---- cell-data prefixes
    pref = {p for p in _fstring_prefixes(enc) if ":" in p}
    sep_calls = [n for n in ast.walk(dec.node) if isinstance(n, ast.Call)
                 and isinstance(n.func, ast.Attribute)
                 and n.func.attr == "split" and n.args
                 and isinstance(n.args[0], ast.Constant)]
    if len(sep_calls) != 1:
        raise AnalysisError("_decode_cell_data: key split not found")
    sep = sep_calls[0].args[0].value
    cmps: Dict[int, Set[str]] = {}
    for n in ast.walk(dec.node):
        if isinstance(n, ast.Compare) and isinstance(n.left, ast.Subscript) \
                and src(n.left.value) == "subnames" and isinstance(
                    n.left.slice, ast.Constant) and isinstance(
                    n.comparators[0], ast.Constant):
            cmps.setdefault(n.left.slice.value, set()).add(
                n.comparators[0].value)
    name_ix = {n.slice.value for n in ast.walk(dec.node)
               if isinstance(n, ast.Subscript)
               and src(n.value) == "subnames"
               and isinstance(n.slice, ast.Constant)} - set(cmps)
    for p in sorted(pref):
        parts = p.split(sep)
        ok = (len(parts) == 3 and parts[2] == ""
              and parts[0] in cmps.get(0, set())
              and parts[1] in cmps.get(1, set()) and name_ix == {2})
        _v(rep, R1, ok, f"cell-data-key[{p}]",
           f"writer key '{p}<name>' splits at '{sep}' into the tag, kind "
           f"and name the reader tests", "Mesh._decode_cell_data",
           f"writer key '{p}<name>' is not parsed back: reader splits at "
           f"'{sep}', compares field 0 with {sorted(cmps.get(0, []))}, field "
           f"1 with {sorted(cmps.get(1, []))} and takes the name from field "
           f"{sorted(name_ix)}", dec.lineno)
    kinds_w = {p.split(sep)[1] for p in pref if len(p.split(sep)) == 3}
    _v(rep, R1, kinds_w == cmps.get(1, set()) and len(pref) >= 2,
       "cell-data-kinds", f"kinds written {sorted(kinds_w)} = kinds read",
       "Mesh._decode_cell_data",
       f"kinds written {sorted(kinds_w)} differ from kinds read "
       f"{sorted(cmps.get(1, set()))}", dec.lineno)
    # ---- names survive the key round trip: the reader is interpreted on
    # the writer's keys for names that contain the separator themselves
    class Any_:
        """opaque array data: every operation yields opaque data"""
        skv_isarray = True

        def skv_getattr(self, nm):
            if nm == "any":
                return PyFunc(lambda a, k, n: False)
            if nm in ("shape",):
                raise Unsupported("opaque." + nm)
            return self          # an attribute array, or a method (callable)

        def skv_call(self, a, k, n):
            return self

        def skv_getitem(self, ix):
            return self

        def skv_binop(self, op, other, reflected):
            return self

        def skv_compare(self, op, other, reflected=False):
            return self
    ANY = Any_()

    def khook(interp, name, args, kwargs, node):
        if name.startswith("numpy."):
            return ANY
        return NotImplemented
    names_in = ["plain", "inlet:upper", "inlet:lower", "a:b:c", "x y"]
    wpref = sorted(p for p in pref if len(p.split(sep)) == 3)
    if len(wpref) == 2:
        kinds = {p.split(sep)[1]: p for p in wpref}
        cd = {}
        for nm_ in names_in:
            for p in wpref:
                cd[p + nm_] = [ANY]
        mo = Obj(mcls, {"refdom": Obj(None, {"nfacets": 3}), "t2f": ANY,
                        "f2t": ANY})
        try:
            it_ = Interp(model, call_hook=khook)
            res = it_.call(dec, [cd], {}, self_obj=mo)
        except (Unsupported, Raised) as e:
            raise AnalysisError(f"_decode_cell_data on the writer's keys: "
                                f"{e}")
        gotb, gots = (set(res[0]), set(res[1])) if isinstance(
            res, tuple) and len(res) == 2 else (None, None)
        okn = gotb == set(names_in) and gots == set(names_in)
        _v(rep, R1, okn, "cell-data-names",
           f"names {names_in} (some containing '{sep}') come back "
           f"unchanged from the writer's keys", "Mesh._decode_cell_data",
           f"the reader turns the writer's keys for the names {names_in} "
           f"into boundaries {sorted(gotb) if gotb is not None else res!r} "
           f"and subdomains {sorted(gots) if gots is not None else ''}: a "
           f"name containing '{sep}' is cut at it, and tags whose names "
           f"share the part before it are merged", dec.lineno)
    # ---- bit weights on both sides
    def weights(fn):
        cands = []
        for n in ast.walk(fn.node):
            if isinstance(n, ast.BinOp) and isinstance(
                    n.op, (ast.LShift, ast.Pow)) and "nfacets" in src(n):
                cands.append(n)
        return cands
    we, wd = weights(enc), weights(dec)
    if len(we) != 1 or len(wd) != 1:
        raise AnalysisError("bit-weight expressions not found on both sides")

    def ev(node, fn):
        def hook(interp, name, args, kwargs, n_):
            return NotImplemented
        class RD:
            def skv_getattr(self, name):
                if name == "nfacets":
                    return 4
                raise Unsupported(name)
        class S:
            def skv_getattr(self, name):
                if name == "refdom":
                    return RD()
                raise Unsupported(name)
        v = Interp(model).eval(node, {"self": S()}, fn.module)
        return [int(x) for x in v.flat()] if isinstance(v, Arr) else v
    try:
        a, b = ev(we[0], enc), ev(wd[0], dec)
    except Unsupported as e:
        raise AnalysisError(f"bit weights outside grammar: {e}")
    _v(rep, R1, a == b and len(set(a)) == len(a) and all(
        x & (x - 1) == 0 for x in a), "bit-weights",
       f"facet slot k carries weight {a} on both sides",
       "Mesh._decode_cell_data",
       f"encoder weights {a} and decoder weights {b} differ (or are not "
       f"distinct powers of two): facet slots are decoded as other slots",
       dec.lineno)
    # ---- npz: names survive a save / load round trip (interpreted on
    # names chosen to collide with the prefixes and with each other)
    sv, ld = mcls.methods["save_npz"], mcls.methods["load_npz"]
    bnames = ["left", "slab_lower", "b_", "b_b_x", "s_wall", "ab_c"]
    snames = ["core", "glass_pane", "s_", "s_s_y", "b_zone", "xs_y"]
    saved = {}

    class NpzFile:
        def __init__(self, d):
            self.d = d

        def skv_getattr(self, name):
            if name == "files":
                return list(self.d)
            raise Unsupported("npz." + name)

        def skv_getitem(self, k):
            if k in self.d:
                return self.d[k]
            raise Raised("KeyError")

    def hook(interp, name, args, kwargs, node):
        if name == "numpy.savez":
            saved.clear()
            saved.update(kwargs)
            return None
        if name == "numpy.load":
            return NpzFile(dict(saved))
        return NotImplemented
    mobj = Obj(mcls, {"doflocs": "P", "t": "T",
                      "boundaries": {n: f"B:{n}" for n in bnames},
                      "subdomains": {n: f"S:{n}" for n in snames},
                      "_boundaries": {n: f"B:{n}" for n in bnames},
                      "_subdomains": {n: f"S:{n}" for n in snames}})
    built = {}

    def ctor(a, k, n):
        built["args"], built["kw"] = a, k
        return "MESH"
    try:
        Interp(model, call_hook=hook).call(sv, ["file"], {}, self_obj=mobj)
        it = Interp(model, call_hook=hook)
        it.call(ld, ["file"], {}, self_obj=PyFunc(ctor))
    except (Unsupported, Raised) as e:
        raise AnalysisError(f"save_npz/load_npz: {e}")
    kw = built.get("kw", {})
    gb, gs = kw.get("_boundaries"), kw.get("_subdomains")
    ok = (gb == {n: f"B:{n}" for n in bnames}
          and gs == {n: f"S:{n}" for n in snames}
          and list(built.get("args", [])[:2]) == ["P", "T"])
    lostb = sorted(set(bnames) - set(gb or {}))
    losts = sorted(set(snames) - set(gs or {}))
    _v(rep, R1, ok, "npz-roundtrip",
       f"{len(bnames)} boundary and {len(snames)} subdomain names (some "
       f"containing the key prefixes) come back under the same names with "
       f"their own arrays", "Mesh.load_npz",
       f"npz round trip changes the tag names: boundaries "
       f"{sorted(gb) if isinstance(gb, dict) else gb} (lost {lostb}), "
       f"subdomains {sorted(gs) if isinstance(gs, dict) else gs} (lost "
       f"{losts})", ld.lineno)
    # ---- dictionary keys
    td, fd = mcls.methods["to_dict"], mcls.methods["from_dict"]
    rets = [n for n in walk_no_nested(td.node) if isinstance(n, ast.Return)]
    wkeys = {k.value for k in rets[0].value.keys} if rets and isinstance(
        rets[0].value, ast.Dict) else set()
    consumed = set()
    for n in ast.walk(fd.node):
        if isinstance(n, ast.Call) and isinstance(n.func, ast.Attribute) \
                and n.func.attr == "pop" and n.args and isinstance(
                    n.args[0], ast.Constant):
            consumed.add(n.args[0].value)
    fields = {f for c in mcls.mro() for f in list(c.attrs) + list(c.ann_only)}
    left = wkeys - consumed
    _v(rep, R1, bool(wkeys) and left <= fields and
       {"p", "subdomains", "boundaries"} <= consumed, "dict-keys",
       f"keys written {sorted(wkeys)}: renamed on load {sorted(consumed)}, "
       f"the rest are constructor fields", "Mesh.from_dict",
       f"dictionary keys written {sorted(wkeys)} are not all consumed by "
       f"from_dict (popped {sorted(consumed)})", fd.lineno)
    # ---- dictionary round trip, interpreted for the four tag configurations
    class DA:
        """array / nested list with a name, a form and a transposition"""
        skv_isarray = True

        def __init__(self, name, form="array", tr=False):
            self.name, self.form, self.tr = name, form, tr

        def key(self):
            return (self.name, self.form, self.tr)

        def skv_getattr(self, name):
            if name == "T" and self.form == "array":
                return DA(self.name, "array", not self.tr)
            if name == "tolist" and self.form == "array":
                return PyFunc(lambda a, k, n: DA(self.name, "list", self.tr))
            raise Unsupported(f"{self.form}.{name}")

    untyped = []

    def dhook(interp, name, args, kwargs, node):
        if name in ("numpy.array", "numpy.asarray") and args and \
                isinstance(args[0], DA):
            if args[0].name.startswith(("B:", "S:")) and \
                    kwargs.get("dtype") is None and len(args) < 2:
                untyped.append((args[0].name, node))
            return DA(args[0].name, "array", args[0].tr)
        if name == "numpy.ascontiguousarray" and isinstance(args[0], DA) \
                and args[0].form == "array":
            return args[0]
        return NotImplemented

    def show(v):
        if isinstance(v, dict):
            return {k: show(x) for k, x in v.items()}
        return v.key() if isinstance(v, DA) else v
    for hasb in (False, True):
        for hass in (False, True):
            cfg = f"boundaries={'yes' if hasb else 'None'}," \
                  f"subdomains={'yes' if hass else 'None'}"
            b = {n: DA("B:" + n) for n in bnames[:2]} if hasb else None
            s_ = {n: DA("S:" + n) for n in snames[:2]} if hass else None
            mo = Obj(mcls, {"p": DA("p"), "t": DA("t"), "doflocs": DA("p"),
                            "boundaries": b, "subdomains": s_,
                            "_boundaries": b, "_subdomains": s_})
            got = {}

            def ctor2(a, k, n):
                got["a"], got["k"] = a, k
                return "MESH"
            err = None
            try:
                d = Interp(model, call_hook=dhook).call(td, [], {},
                                                        self_obj=mo)
                Interp(model, call_hook=dhook).call(
                    fd, [d], {}, self_obj=PyFunc(ctor2))
            except Raised as e:
                err = f"raises {e.what}"
            except Unsupported as e:
                raise AnalysisError(f"to_dict/from_dict [{cfg}]: {e}")
            k = got.get("k", {})
            want = {"doflocs": ("p", "array", False),
                    "t": ("t", "array", False),
                    "_boundaries": show(b), "_subdomains": show(s_)}
            have = {x: show(k.get(x)) for x in want}
            ok = err is None and have == want and set(k) == set(want) \
                and not got.get("a")
            _v(rep, R1, ok, f"dict-roundtrip[{cfg}]",
               "to_dict then from_dict hands the constructor the same "
               "points, cells and tag arrays (as arrays, same names)",
               "Mesh.from_dict",
               f"dictionary round trip with {cfg}: " + (err or (
                   f"the constructor receives {have} (form 'list' = not "
                   f"converted back to an array), expected {want}")),
               fd.lineno)
    # an index list may be empty (a tag that selects nothing): np.array([])
    # is a float64 array, which cannot index - the tag arrays must be
    # rebuilt with an integer dtype
    _v(rep, R1, not untyped, "dict-roundtrip:index-dtype",
       "tag lists are converted back with an explicit integer dtype",
       "Mesh.from_dict",
       f"'{src(untyped[0][1])[:40] if untyped else ''}' rebuilds the index "
       f"array of a tag without a dtype: an empty tag comes back as "
       f"array([], dtype=float64) and every later use of it as an index "
       f"(facets[:, tag], FacetBasis, save) raises",
       untyped[0][1].lineno if untyped else fd.lineno)
    # ---- type tables and hexahedron permutation
    m = model.module(IO)
    it = Interp(model)
    try:
        hexm = it.eval(m.assigns["HEX_MAPPING"], {}, m)
    except (Unsupported, KeyError) as e:
        raise AnalysisError(f"HEX_MAPPING: {e}")
    def const(name):
        if name not in m.assigns:
            raise AnalysisError(f"module constant {name} not found")
        try:
            return Interp(model).eval(m.assigns[name], {}, m)
        except Raised as e:
            return ("raises", e.what)
        except Unsupported as e:
            raise AnalysisError(f"{name}: {e}")
    hexl = [int(x) for x in hexm]
    inv = const("INV_HEX_MAPPING")
    if isinstance(inv, tuple) and inv and inv[0] == "raises":
        invl = []
    else:
        invl = [int(x) for x in (inv.flat() if isinstance(inv, Arr)
                                 else inv)]
    _v(rep, R1, len(invl) == len(hexl) and sorted(hexl) == list(
        range(len(hexl))) and all(
        invl[hexl[i]] == i for i in range(len(hexl))),
       "INV_HEX_MAPPING", "INV_HEX_MAPPING[HEX_MAPPING[i]] == i for all i",
       "INV_HEX_MAPPING", "INV_HEX_MAPPING is not the inverse permutation "
       "of HEX_MAPPING", 1, FIO)
    rd_tab = const("MESH_TYPE_MAPPING")
    wr_tab = const("TYPE_MESH_MAPPING")
    if not isinstance(rd_tab, dict) or not isinstance(wr_tab, dict):
        raise AnalysisError("type tables are not dictionaries")

    def cname(v):
        return v.cls.name if isinstance(v, ClassRef) else repr(v)
    bad = [(cname(c), t) for c, t in wr_tab.items()
           if cname(rd_tab.get(t)) != cname(c)]
    missing = sorted({cname(c) for c in rd_tab.values()}
                     - {cname(c) for c in wr_tab})
    _v(rep, R1, not bad and not missing and len(wr_tab) >= 8,
       "TYPE_MESH_MAPPING", f"each of the {len(wr_tab)} mesh classes is "
       f"written under a type name that reads back as the same class",
       "TYPE_MESH_MAPPING",
       f"writer/reader type tables disagree: {bad[:3]} read back as "
       f"another class; classes without a name: {missing}", 1, FIO)
    fm, tmf = model.func(IO, "from_meshio"), model.func(IO, "to_meshio")

    def perm_branches(fn, key_of_test):
        """test key -> evaluated index list of 't = t[<expr>]' whose index
        mentions a HEX table"""
        out = {}
        for n in ast.walk(fn.node):
            if not isinstance(n, ast.If):
                continue
            k = key_of_test(n.test)
            if k is None:
                continue
            for s_ in n.body:
                if isinstance(s_, ast.Assign) and isinstance(
                        s_.value, ast.Subscript) and "HEX_MAPPING" in src(
                            s_.value.slice):
                    try:
                        v = Interp(model).eval(s_.value.slice, {}, m)
                    except (Unsupported, Raised) as e:
                        raise AnalysisError(f"{fn.name}: node permutation "
                                            f"'{src(s_.value)}': {e}")
                    out[k] = [int(x) for x in (
                        v.flat() if isinstance(v, Arr) else v)]
        return out

    def wkey(t):
        if isinstance(t, ast.Call) and src(t.func) == "isinstance" and \
                len(t.args) == 2 and isinstance(t.args[1], ast.Name):
            return t.args[1].id
        return None

    def rkey(t):
        if isinstance(t, ast.Compare) and len(t.ops) == 1 and isinstance(
                t.ops[0], ast.Eq) and isinstance(t.comparators[0],
                                                 ast.Constant):
            c = rd_tab.get(t.comparators[0].value)
            return cname(c) if c is not None else None
        return None
    wsel, rsel = perm_branches(tmf, wkey), perm_branches(fm, rkey)
    # ---- legacy (MSH 2.2) tag parser: names come from m.field_data, which
    # the writer never produces - so for files written by to_meshio it must
    # be unreachable: every use of m.field_data sits under a test of it
    marg = fm.params()[0]
    wr_fd = [n for n in ast.walk(tmf.node) if isinstance(n, ast.keyword)
             and n.arg == "field_data"]
    parent = {}
    for p_ in ast.walk(fm.node):
        for c in ast.iter_child_nodes(p_):
            parent[id(c)] = p_

    def is_fd(e):
        return isinstance(e, ast.Attribute) and e.attr == "field_data" \
            and isinstance(e.value, ast.Name) and e.value.id == marg

    def tests_fd(t):
        if isinstance(t, ast.BoolOp) and isinstance(t.op, ast.And):
            return any(tests_fd(v) for v in t.values)
        if is_fd(t):
            return True
        if isinstance(t, ast.Compare) and len(t.ops) == 1 and isinstance(
                t.left, ast.Call) and src(t.left.func) == "len" and \
                t.left.args and is_fd(t.left.args[0]) and isinstance(
                    t.comparators[0], ast.Constant):
            c = t.comparators[0].value
            return (isinstance(t.ops[0], (ast.Gt, ast.NotEq)) and c == 0) \
                or (isinstance(t.ops[0], ast.GtE) and c == 1)
        return False
    uses = [n for n in ast.walk(fm.node) if is_fd(n)]
    unguarded = []
    for u in uses:
        c, p_ = u, parent.get(id(u))
        ok_ = False
        in_test = False
        while p_ is not None:
            if isinstance(p_, ast.If):
                if c is p_.test:
                    in_test = tests_fd(p_.test)
                elif c in p_.body and tests_fd(p_.test):
                    ok_ = True
            c, p_ = p_, parent.get(id(p_))
        if not ok_ and not in_test:
            unguarded.append(u)
    # ... or, when it is reached, it must leave such files alone: a group
    # number without a name (every number, the table being empty) creates no
    # tag.  (Seed C17-6 removes the guard; since the repair of F89 that no
    # longer changes what is loaded, and demanding the guard regardless was
    # a false alarm in waiting.)
    finders_ = [n for n in ast.walk(fm.node) if isinstance(
        n, ast.FunctionDef) and n is not fm.node and any(
        "field_data" in src(x) for x in ast.walk(n))]
    harmless = False
    if len(finders_) == 1:
        fd_ = finders_[0]
        none_ = any(isinstance(r, ast.Return) and (r.value is None or (
            isinstance(r.value, ast.Constant) and r.value.value is None))
            for r in ast.walk(fd_))
        keyed_ = [n for n in ast.walk(fm.node) if isinstance(n, ast.Assign)
                  and isinstance(n.targets[0], ast.Subscript)
                  and isinstance(n.targets[0].slice, ast.Call)
                  and src(n.targets[0].slice.func) == fd_.name]
        harmless = none_ and not keyed_
    _v(rep, R1, (not unguarded or harmless) and not wr_fd,
       "legacy-tag-parser",
       f"the writer passes no field_data and the {len(uses)} uses of "
       f"{marg}.field_data (names of MSH 2.2 physical groups) sit under a "
       f"test that the table is present: files written by to_meshio never "
       f"enter the legacy parser", "from_meshio",
       (f"to_meshio now writes field_data: the legacy parser would run on "
        f"skfem's own files" if wr_fd else
        f"line {unguarded[0].lineno if unguarded else 0}: "
        f"{marg}.field_data names the tags of the legacy MSH 2.2 parser but "
        f"is used without a test that the table is present; the writer "
        f"produces no such table, so on a file written by to_meshio every "
        f"tag value found in the cell data becomes a tag named None"),
       fm.lineno, FIO)
    for cls_name, nn in (("MeshHex1", 8), ("MeshHex2", 27)):
        w, r = wsel.get(cls_name), rsel.get(cls_name)
        ok = w is not None and r is not None and len(w) == len(r) == nn \
            and all(0 <= r[i] < nn and w[r[i]] == i for i in range(nn))
        _v(rep, R1, ok, f"hex-permutation[{cls_name}]",
           f"{cls_name}: the node permutation applied on writing is undone "
           f"on reading ({nn} nodes)", "from_meshio/to_meshio",
           f"{cls_name}: writer permutes the nodes with {w}, the reader "
           f"with {r}: the composition is not the identity on {nn} nodes",
           fm.lineno, FIO)
    return [int(x) for x in hexm]


def _r2(rep, hexm):
    R2 = "C17-R2"
    n = len(hexm)
    _v(rep, R2, sorted(hexm) == list(range(27)), "HEX_MAPPING:permutation",
       "a permutation of 0..26", "HEX_MAPPING",
       f"HEX_MAPPING is not a permutation of 0..26 (length {n}, "
       f"{len(set(hexm))} distinct)", 1, FIO)
    for hi, what in ((8, "vertices"), (20, "vertices and edges"),
                     (26, "vertices, edges and facets")):
        _v(rep, R2, sorted(hexm[:hi]) == list(range(hi)),
           f"HEX_MAPPING:prefix[{hi}]",
           f"first {hi} entries permute 0..{hi - 1} ({what}): the prefix "
           f"used for MeshHex1 is itself invertible", "HEX_MAPPING",
           f"the first {hi} entries are not a permutation of 0..{hi - 1}: "
           f"{what} are mapped outside their range", 1, FIO)
    inv = [hexm.index(i) for i in range(n)] if sorted(hexm) == list(
        range(n)) else None
    ok = inv is not None and all(hexm[inv[k]] == k for k in range(8)) and \
        sorted(inv[:8]) == list(range(8))
    _v(rep, R2, ok, "HEX_MAPPING:prefix-inverse",
       "INV[:8] undoes HEX[:8]", "HEX_MAPPING",
       "reading with INV_HEX_MAPPING[:8] does not undo writing with "
       "HEX_MAPPING[:8]", 1, FIO)


# ----------------------------------------------------------------------
def _r3(model, rep):
    """co-indexed arrays: every local derived from the boolean mask is typed
    (mask, traversal order, permutation, content).  ``X[mask]`` and
    ``mask.nonzero()[k]`` enumerate the true entries of ``mask`` in C order
    of the *indexing* array: through ``mask.T`` the same entries come in the
    other order.  Element-wise combinations need equal (mask, traversal,
    permutation); an index component compared with cell numbers must be the
    component along the mask's cell axis."""
    R3 = "C17-R3"
    mcls = model.cls(MESH, "Mesh")
    fn = mcls.methods["_decode_cell_data"]
    sig: Dict[str, tuple] = {}
    order_of: Dict[str, tuple] = {}
    n_checked = 0
    masks: Dict[str, Optional[int]] = {}      # name -> cell axis

    def mask_ref(e):
        """(mask name, transposed?) for ``mask`` / ``mask.T``"""
        if isinstance(e, ast.Name) and e.id in masks:
            return e.id, False
        if isinstance(e, ast.Attribute) and e.attr == "T":
            r = mask_ref(e.value)
            if r:
                return r[0], not r[1]
        if isinstance(e, ast.Call) and isinstance(e.func, ast.Attribute) \
                and e.func.attr == "transpose" and not e.args:
            r = mask_ref(e.func.value)
            if r:
                return r[0], not r[1]
        return None

    def nonzero_of(e):
        """mask reference enumerated by ``m.nonzero()`` / ``np.nonzero(m)``
        / ``np.where(m)``"""
        if isinstance(e, ast.Call):
            if isinstance(e.func, ast.Attribute) and \
                    e.func.attr == "nonzero" and not e.args:
                return mask_ref(e.func.value)
            if src(e.func) in ("np.nonzero", "np.where") and \
                    len(e.args) == 1:
                return mask_ref(e.args[0])
        return None

    def typ(e):
        if isinstance(e, ast.Name):
            return sig.get(e.id)
        if isinstance(e, ast.Subscript):
            mr = mask_ref(e.slice)
            if mr:
                # X[mask] (or X.T[mask.T]): values at the true entries
                base_t = isinstance(e.value, ast.Attribute) and \
                    e.value.attr == "T"
                if base_t != mr[1]:
                    return (mr[0], "shape-mismatch", "id", "val")
                return (mr[0], "T" if mr[1] else "C", "id",
                        "val:" + src(e.value))
            nz = nonzero_of(e.value)
            if nz and isinstance(e.slice, ast.Constant) and \
                    isinstance(e.slice.value, int):
                k = e.slice.value
                axis = (1 - k) if nz[1] else k     # axis of the mask itself
                return (nz[0], "T" if nz[1] else "C", "id", f"axis:{axis}")
            base = typ(e.value)
            if base and isinstance(e.slice, ast.Name) and \
                    e.slice.id in order_of:
                o = order_of[e.slice.id]
                if o[:3] == base[:3] and base[2] == "id":
                    return (base[0], base[1], f"perm:{e.slice.id}", base[3])
                if o[0] == base[0] and base[2] == "id":
                    # permutation computed for another traversal
                    return (base[0], base[1],
                            f"perm:{e.slice.id}(of the {o[1]}-order "
                            f"traversal)", base[3])
            return None
        if isinstance(e, ast.Call):
            d = src(e.func)
            if d in ("np.sort", "np.unique") and e.args:
                b = typ(e.args[0])
                if b:
                    return (b[0], b[1], f"sorted-by-itself@{e.lineno}", b[3])
            if d in ("np.asarray", "np.array") and e.args:
                return typ(e.args[0])
        return None

    def cell_axis(v):
        """which axis of the mask runs over cells: the operand broadcast
        with [:, None] supplies axis 0, the per-cell data the other"""
        for n in ast.walk(v):
            if isinstance(n, ast.BinOp) and isinstance(n.op, ast.BitAnd):
                for a, b in ((n.left, n.right), (n.right, n.left)):
                    sl = [x for x in ast.walk(a)
                          if isinstance(x, ast.Subscript)
                          and isinstance(x.slice, ast.Tuple)
                          and len(x.slice.elts) == 2]
                    for x in sl:
                        e0, e1 = x.slice.elts
                        none0 = isinstance(e0, ast.Constant) and \
                            e0.value is None
                        none1 = isinstance(e1, ast.Constant) and \
                            e1.value is None
                        if none1 and "nfacets" in src(a) and \
                                "data" in src(b):
                            return 1
                        if none0 and "nfacets" in src(a) and \
                                "data" in src(b):
                            return 0
        return None

    stmts = sorted([n for n in ast.walk(fn.node) if isinstance(n, ast.Assign)],
                   key=lambda n: n.lineno)
    for st in stmts:
        if isinstance(st.targets[0], ast.Name):
            name = st.targets[0].id
            v = st.value
            is_bool = isinstance(v, ast.Call) and isinstance(
                v.func, ast.Attribute) and v.func.attr == "astype" and \
                v.args and src(v.args[0]) == "bool"
            if is_bool:
                masks[name] = cell_axis(v)
                continue
            if isinstance(v, ast.Call) and src(v.func) == "np.argsort" and \
                    v.args:
                b = typ(v.args[0])
                if b:
                    order_of[name] = b
                continue
            t = typ(v)
            if t:
                sig[name] = t
    if not masks:
        raise AnalysisError("_decode_cell_data: boolean facet mask not found")
    # element-wise combinations
    for n in ast.walk(fn.node):
        pairs = []
        if isinstance(n, ast.Compare) and len(n.ops) == 1:
            pairs.append((n.left, n.comparators[0], n))
        elif isinstance(n, ast.Call) and src(n.func) == "OrientedBoundary" \
                and len(n.args) == 2:
            pairs.append((n.args[0], n.args[1], n))
        for a, b, node in pairs:
            ta = _deep(typ, a)
            tb = _deep(typ, b)
            if ta and tb and ta[0] == tb[0]:
                n_checked += 1
                cons = f"_decode_cell_data:{src(node)[:40]}"
                if "shape-mismatch" in (ta[1], tb[1]):
                    rep.fail(R3, FM, "Mesh._decode_cell_data", cons,
                             "an array is indexed by the transposed mask",
                             node.lineno)
                elif ta[1:3] == tb[1:3]:
                    rep.ok(R3, cons, f"both operands enumerate the entries "
                           f"of {ta[0]} in {ta[1]} order under the "
                           f"permutation '{ta[2]}'")
                else:
                    rep.fail(R3, FM, "Mesh._decode_cell_data", cons,
                             f"'{src(a)[:30]}' lists the entries of {ta[0]} "
                             f"in {ta[1]}-order under '{ta[2]}' but "
                             f"'{src(b)[:30]}' in {tb[1]}-order under "
                             f"'{tb[2]}': they are combined element by "
                             f"element although they are not co-indexed "
                             f"(orientation flags are attributed to other "
                             f"facets)", node.lineno)
                # meaning of an index component compared with f2t values
                for t_, other in ((ta, b), (tb, a)):
                    if t_[3].startswith("axis:") and "f2t" in src(other):
                        ax = int(t_[3][5:])
                        ca = masks.get(t_[0])
                        cons2 = cons + ":axis"
                        if ca is None:
                            raise AnalysisError("cell axis of the facet "
                                                "mask not determined")
                        if ax == ca:
                            rep.ok(R3, cons2, f"cell numbers of f2t are "
                                   f"compared with the mask's cell axis "
                                   f"({ax})")
                        else:
                            rep.fail(R3, FM, "Mesh._decode_cell_data", cons2,
                                     f"the cells listed in f2t are compared "
                                     f"with the index along axis {ax} of "
                                     f"{t_[0]}, which is the local facet "
                                     f"slot; cells run along axis {ca}",
                                     node.lineno)
    if n_checked < 1:
        raise AnalysisError("_decode_cell_data: no element-wise combination "
                            "of mask-derived arrays found")
    _r3_encode(model, rep)


def _r3_encode(model, rep):
    """encoder: the slot of tagged facet b[j] inside its owning cell
    columns[j] = f2t[ori[j], b[j]] is found by comparing column j of
    t2f[:, columns] with b[j] - pairwise.  (r, c) of the comparison are slot
    and tag position; the mask entry is (r, columns[c])."""
    R3 = "C17-R3"
    mcls = model.cls(MESH, "Mesh")
    outer = mcls.methods["_encode_cell_data"]
    enc = [n for n in ast.walk(outer.node)
           if isinstance(n, ast.FunctionDef) and n.name == "encode_boundary"]
    if len(enc) != 1:
        raise AnalysisError("_encode_cell_data.encode_boundary not found")
    enc = enc[0]
    q = "Mesh._encode_cell_data"
    asg = {}
    for st in ast.walk(enc):
        if isinstance(st, ast.Assign) and len(st.targets) == 1:
            t = st.targets[0]
            if isinstance(t, ast.Name):
                asg[t.id] = st.value
            elif isinstance(t, ast.Tuple) and all(isinstance(x, ast.Name)
                                                  for x in t.elts):
                asg[tuple(x.id for x in t.elts)] = st.value
    # owner cells
    owner = [k for k, v in asg.items() if isinstance(k, str)
             and isinstance(v, ast.Subscript) and src(v.value) == "self.f2t"]
    if len(owner) != 1:
        raise AnalysisError("encode_boundary: owner-cell lookup in f2t not "
                            "found")
    col = owner[0]
    ix = asg[col].slice
    okc = isinstance(ix, ast.Tuple) and len(ix.elts) == 2 and \
        src(ix.elts[0]).endswith(".ori") and \
        src(ix.elts[1]) == src(ix.elts[0])[:-4]
    tag = src(ix.elts[1]) if okc else None
    _v(rep, R3, okc, "encode_boundary:owner",
       f"owning cell of tagged facet j is f2t[ori[j], {tag}[j]]", q,
       f"owning cells are {src(asg[col])}: expected f2t[(b.ori, b)] - the "
       f"cell on the side named by the orientation flag", enc.lineno)
    if not okc:
        return
    nz = [(k, v) for k, v in asg.items() if isinstance(k, tuple)
          and len(k) == 2 and isinstance(v, ast.Call)
          and src(v.func) in ("np.nonzero", "np.where")]
    if len(nz) != 1:
        raise AnalysisError("encode_boundary: slot search (np.nonzero) not "
                            "found")
    (rname, cname), call = nz[0]
    arg = call.args[0]
    want_l = f"self.t2f[:, {col}]"
    cons = "encode_boundary:slot"
    if isinstance(arg, ast.Compare) and len(arg.ops) == 1 and isinstance(
            arg.ops[0], ast.Eq) and {src(arg.left), src(arg.comparators[0])} \
            == {want_l, tag}:
        rep.ok(R3, cons, f"column j of t2f[:, {col}] compared with "
               f"{tag}[j]: pairwise")
    elif isinstance(arg, ast.Call) and src(arg.func) in (
            "np.isin", "np.in1d") and want_l in [src(a) for a in arg.args]:
        rep.fail(R3, FM, q, cons,
                 f"{src(arg)[:60]} tests membership in the whole tag "
                 f"instead of comparing column j with {tag}[j]: an owning "
                 f"cell flags every facet it has in the tag, including "
                 f"facets owned from the other side", call.lineno)
    else:
        raise AnalysisError(f"encode_boundary: slot search "
                            f"'{src(arg)[:60]}' outside the known forms")
    # scatter target: (slot, owner of the tag position)
    stores = [st for st in ast.walk(enc) if isinstance(st, ast.Assign)
              and isinstance(st.targets[0], ast.Subscript)]
    oks = False
    for st in stores:
        sl = st.targets[0].slice
        if isinstance(sl, ast.Tuple) and len(sl.elts) == 2 and \
                src(sl.elts[0]) == rname and \
                src(sl.elts[1]) == f"{col}[{cname}]":
            oks = True
    _v(rep, R3, oks, "encode_boundary:scatter",
       f"mask[{rname}, {col}[{cname}]] set: slot r of the owner of tag "
       f"position c", q,
       f"the mask is not set at (slot, owner of the matched tag position) "
       f"= ({rname}, {col}[{cname}])", enc.lineno)


def _deep(typ, e):
    """type of an expression: the (unique) typed name it is built from"""
    t = typ(e)
    if t:
        return t
    found = None
    for n in ast.walk(e):
        if isinstance(n, ast.Name):
            t = typ(n)
            if t:
                if found and found != t:
                    return None
                found = t
    return found


# ----------------------------------------------------------------------
def _r4(model, rep):
    R4 = "C17-R4"
    mcls = model.cls(MESH, "Mesh")
    writers = [("to_dict", mcls.methods["to_dict"]),
               ("save_npz", mcls.methods["save_npz"]),
               ("_encode_cell_data", mcls.methods["_encode_cell_data"])]
    for name, fn in writers:
        s = src(fn.node)
        touches = "boundaries" in s
        # an actual read of the flags or a type test on the variant; names
        # in docstrings and annotations do not count
        handles = any(
            (isinstance(n, ast.Attribute) and n.attr == "ori")
            or (isinstance(n, ast.Call) and src(n.func) == "isinstance"
                and len(n.args) == 2
                and "OrientedBoundary" in src(n.args[1]))
            for n in ast.walk(fn.node))
        cons = f"Mesh.{name}:oriented-boundaries"
        if not touches:
            raise AnalysisError(f"Mesh.{name}: does not write boundaries")
        if handles:
            rep.ok(R4, cons, "handles both plain and oriented boundaries")
        else:
            rep.fail(R4, FM, f"Mesh.{name}", cons,
                     "writes the facet indices of a named boundary but "
                     "never its orientation flags: an OrientedBoundary "
                     "comes back as a plain index array", fn.lineno)


def _loaders_keep_numbering(model, rep):
    """'the mesh comes back equal': a loader has to build the mesh with the
    connectivity exactly as stored.  Mesh.__post_init__ re-sorts the
    vertices of every cell when sort_t is true, and MeshTri1 defaults to
    sort_t=True: a triangle mesh saved unsorted (oriented(), sort_t=False)
    comes back with other columns of t (half of the cells clockwise) - and
    the per-slot bits of the cell data are decoded against the *re-sorted*
    local facet numbering, i.e. named boundaries designate other facets.
    Every constructor call of a loader must pass sort_t=False (or no class
    may default to sorting)."""
    R1 = "C17-R1"
    sorting = []
    for c in model.all_classes():
        if not c.path.startswith("skfem/mesh/"):
            continue
        a = c.attrs.get("sort_t")
        if a is not None and isinstance(a, ast.Constant) and a.value is True:
            sorting.append(c.name)
    mcls = model.cls(MESH, "Mesh")
    loaders = [("Mesh.load_npz", mcls.methods["load_npz"], ("cls",)),
               ("Mesh.from_dict", mcls.methods["from_dict"], ("cls",)),
               ("from_meshio", model.func(IO, "from_meshio"),
                ("mesh_type",))]
    for name, fn, ctor_names in loaders:
        calls = [n for n in ast.walk(fn.node) if isinstance(n, ast.Call)
                 and isinstance(n.func, ast.Name)
                 and n.func.id in ctor_names]
        if not calls:
            raise AnalysisError(f"{name}: constructor call not found")
        keeps = all(any(k.arg == "sort_t" and isinstance(
            k.value, ast.Constant) and k.value.value is False
            for k in c.keywords) for c in calls)
        _v(rep, R1, keeps or not sorting, f"{name}:keeps-connectivity",
           "the mesh is built with the stored connectivity as it is",
           name,
           f"{name} builds the mesh with the class default of sort_t, and "
           f"{sorting} default to sort_t=True: the columns of t of a mesh "
           f"saved with sort_t=False (oriented()) are re-sorted on load "
           f"(cells change orientation)" + (
               "; the per-slot boundary bits of the cell data are then "
               "decoded against the re-sorted local facet numbering: named "
               "boundaries come back as other facets"
               if name == "from_meshio" else ""),
           fn.lineno, fn.path)


def _r5(model, rep):
    R5 = "C17-R5"
    an = Analyzer(model)
    targets = [(IO, "to_meshio"), (IO, "to_file"), (IO, "from_meshio"),
               (IO, "from_file"), (MESH, "Mesh.to_dict"),
               (MESH, "Mesh.from_dict"), (MESH, "Mesh.save_npz"),
               (MESH, "Mesh.load_npz"), (MESH, "Mesh.save"),
               (MESH, "Mesh.load"), (MESH, "Mesh._encode_cell_data"),
               (MESH, "Mesh._decode_cell_data"),
               (MESH, "Mesh._encode_point_data")]
    for modn, q in targets:
        fn = model.func(modn, q)
        s = an.summarize(fn)
        bad = {}
        for e in s.effects:
            for r in e.roots:
                if r.startswith("param:") or (r.startswith("self.")
                                              and not r[5:].startswith("_")):
                    if (q, r) in (("from_meshio", "param:out"),
                                  ("from_file", "param:out")):
                        continue
                    bad.setdefault(r, e)
        cons = f"{q}:operands"
        if not bad:
            rep.ok(R5, cons, "stores neither into the mesh nor into the "
                   "caller's containers")
        else:
            r, e = next(iter(bad.items()))
            rep.fail(R5, fn.path, q, cons,
                     f"modifies its operand {r.split(':')[-1]}: {e.detail}",
                     e.line)


def _foreign_sets_and_names(model, rep):
    """Reader-side agreement of the sibling tag parsers in from_meshio, and
    of the point-data encoder with the exporter.
    (a) meshio lists the bookkeeping of the gmsh reader ('gmsh:bounding_
    entities') among the cell sets; the boundary loop skips keys of the
    'gmsh' namespace, the subdomain comprehension must do the same - else a
    file written by Gmsh comes back with an invented subdomain of entity
    tags.  (b) The legacy MSH 2.2 parser resolves the name of a physical
    group: gmsh numbers groups per dimension, so the lookup has to compare
    number *and* dimension, and a number without a name must not become the
    dictionary key None (npz / json cannot store it).  (c) Point data handed
    to meshio needs one value per exported point: the encoder must size its
    indicator by the stored points (second-order meshes store more points
    than vertices)."""
    R1 = "C17-R1"
    fm = model.func(IO, "from_meshio")
    # (a)
    loops = []
    for n in ast.walk(fm.node):
        gens = []
        if isinstance(n, (ast.DictComp, ast.ListComp, ast.SetComp)):
            gens = [(g.iter, g.ifs, n) for g in n.generators]
        elif isinstance(n, ast.For):
            tests = [x.test for x in ast.walk(n) if isinstance(x, ast.If)]
            gens = [(n.iter, tests, n)]
        for it, ifs, node in gens:
            if "cell_sets_dict" in src(it):
                loops.append((node, any("gmsh" in src(t) for t in ifs)))
    if len(loops) < 2:
        raise AnalysisError(f"from_meshio: {len(loops)} loops over the cell "
                            f"sets found, 2 confirmed by hand")
    for k, (node, filt) in enumerate(sorted(loops,
                                            key=lambda x: x[0].lineno)):
        kind = "subdomains" if isinstance(node, ast.DictComp) else \
            "boundaries"
        _v(rep, R1, filt, f"cell-sets:{kind}:foreign-namespace",
           "keys of the 'gmsh' namespace are skipped", "from_meshio",
           f"the {kind} are taken from every cell set, including the "
           f"bookkeeping sets of meshio's gmsh reader ('gmsh:bounding_"
           f"entities'): a file written by Gmsh is loaded with an invented "
           f"named set whose entries are entity tags, not indices",
           node.lineno, FIO)
    # (b)
    finders = [n for n in ast.walk(fm.node) if isinstance(n, ast.FunctionDef)
               and n is not fm.node and any("field_data" in src(x) for x in ast.walk(n))]
    if len(finders) != 1:
        raise AnalysisError("from_meshio: name lookup of the legacy parser "
                            "not found")
    fd = finders[0]
    cols = {src(x.slice) for x in ast.walk(fd) if isinstance(
        x, ast.Subscript) and isinstance(x.value, ast.Subscript)
        and "field_data" in src(x.value.value)}
    _v(rep, R1, {"0", "1"} <= cols, "legacy-tag-parser:number-and-dimension",
       "physical names are looked up by number and dimension",
       "from_meshio",
       f"'{fd.name}' compares column(s) {sorted(cols)} of the field_data "
       f"entries only: gmsh numbers physical groups per dimension, so "
       f"'Physical Curve 1' and 'Physical Surface 1' get the name listed "
       f"first and the other name is lost", fd.lineno, FIO)
    may_none = any(isinstance(r, ast.Return) and (
        r.value is None or (isinstance(r.value, ast.Constant)
                            and r.value.value is None))
        for r in ast.walk(fd))
    keyed = [n for n in ast.walk(fm.node) if isinstance(n, ast.Assign)
             and isinstance(n.targets[0], ast.Subscript)
             and isinstance(n.targets[0].slice, ast.Call)
             and src(n.targets[0].slice.func) == fd.name]
    _v(rep, R1, not (may_none and keyed), "legacy-tag-parser:unnamed-groups",
       "a group number without a name never becomes a dictionary key",
       "from_meshio",
       f"'{src(keyed[0].targets[0])[:50]}' uses the result of '{fd.name}' "
       f"as a key although it returns None for a number without a name: "
       f"all unnamed groups collapse into one tag named None, which npz / "
       f"json cannot store" if keyed else "", keyed[0].lineno if keyed
       else fd.lineno, FIO)
    # (c)
    mcls = model.cls(MESH, "Mesh")
    enc = mcls.methods.get("_encode_point_data")
    if enc is None:
        raise AnalysisError("Mesh._encode_point_data not found")
    allocs = [c for c in ast.walk(enc.node) if isinstance(c, ast.Call)
              and src(c.func) in ("np.zeros", "np.ones", "np.empty",
                                  "np.full") and c.args]
    if not allocs:
        raise AnalysisError("Mesh._encode_point_data: allocation not found")
    bad = [c for c in allocs if "nvertices" in src(c.args[0])]
    _v(rep, R1, not bad, "encode-point-data:one-value-per-point",
       "the indicator has one value per stored point",
       "Mesh._encode_point_data",
       f"'{src(bad[0])}' sizes the point data by the number of vertices; "
       f"to_meshio exports every stored point (second-order meshes store "
       f"mid-side nodes, any mesh may store unused points) and meshio "
       f"rejects the mismatch: save(..., encode_point_data=True) raises"
       if bad else "", bad[0].lineno if bad else enc.lineno)


def _containers_for_the_writer(model, rep):
    """to_meshio passes the user's point_data / cell_data on to meshio.Mesh,
    and meshio's writers *store into* the containers of that object (the
    legacy VTK writer pads two-component data to three components in
    place).  'Exporting does not alter' therefore needs the containers
    handed over to be new objects whenever the user supplied one - a
    re-binding of each of the two parameters to a fresh container that is
    not conditional on the encode_* options."""
    R5 = "C17-R5"
    fn = model.func(IO, "to_meshio")
    parent = {}
    for a in ast.walk(fn.node):
        for b in ast.iter_child_nodes(a):
            parent[id(b)] = a
    for par in ("point_data", "cell_data"):
        if par not in fn.params():
            raise AnalysisError(f"to_meshio: parameter {par} not found")
        fresh = False
        for n in ast.walk(fn.node):
            if not (isinstance(n, ast.Assign) and src(n.targets[0]) == par):
                continue
            v = n.value
            newobj = isinstance(v, (ast.Dict, ast.DictComp)) or (
                isinstance(v, ast.Call) and src(v.func) in ("dict",
                                                            "copy.copy"))
            cond_ok, c = True, n
            while id(c) in parent:
                c = parent[id(c)]
                if isinstance(c, ast.If) and any(
                        isinstance(y, ast.Name) and y.id.startswith("encode")
                        for y in ast.walk(c.test)):
                    cond_ok = False
            if newobj and cond_ok:
                fresh = True
        cons = f"to_meshio:{par}:copied-for-the-writer"
        if fresh:
            rep.ok(R5, cons, f"meshio receives a new container for {par}")
        else:
            rep.fail(R5, fn.path, "to_meshio", cons,
                     f"the caller's {par} container reaches meshio.Mesh "
                     f"itself unless an encode_* option replaces it: the "
                     f"VTK writer stores padded arrays into it, so saving a "
                     f"2-D mesh with two-component data turns the caller's "
                     f"(N, 2) arrays into (N, 3)", fn.lineno)


def run(model: Model, rep, tier: str) -> None:
    rep.rule("C17-R1", "writer/reader symmetry: keys, prefixes, type "
             "tables, bit weights, hexahedron permutation")
    rep.rule("C17-R2", "HEX_MAPPING is a permutation with vertex / edge / "
             "facet prefixes")
    rep.rule("C17-R3", "arrays derived from one mask stay co-indexed when "
             "combined element-wise")
    rep.rule("C17-R4", "every boundary writer handles oriented boundaries")
    rep.rule("C17-R5", "I/O functions do not modify their operands")
    hexm = _r1(model, rep)
    _r2(rep, hexm)
    staged(lambda: _r3(model, rep), lambda: _r4(model, rep),
           lambda: _loaders_keep_numbering(model, rep),
           lambda: _foreign_sets_and_names(model, rep),
           lambda: _containers_for_the_writer(model, rep),
           lambda: _r5(model, rep))
    rep.require_min("C17-R1", 9)
    rep.require_min("C17-R2", 5)
    rep.require_min("C17-R5", 12)


_IO = FIO
_G22 = "    if len(boundaries) == 0 and m.cell_data and m.field_data:"
MUTANTS = [
    ("to_meshio hands the caller's point data dictionary to meshio",
     [(_IO, "    if point_data is not None:\n        point_data = "
       "dict(point_data)\n", "")], "C17-R5"),
    ("point-data indicator sized by the number of vertices",
     [(FM, "            ind = np.zeros(self.p.shape[1])",
       "            ind = np.zeros(self.nvertices)")], "C17-R1"),
    ("subdomains parsed from every cell set",
     [(_IO, "                      if meshio_type in v and not "
       "k.startswith(\"gmsh:\")}", "                      if meshio_type in v}")],
     "C17-R1"),
    ("legacy names looked up by number only",
     [(_IO, "                    if (m.field_data[key][0] == tag\n"
       "                            and m.field_data[key][1] == dim):",
       "                    if m.field_data[key][0] == tag:")], "C17-R1"),
    ("legacy boundary groups keyed by the lookup result",
     [(_IO, "                name = find_tagname(tag, mtmp.dim() - 1)\n"
       "                if name is not None:\n"
       "                    boundaries[name] = index[tagindex, 1]",
       "                boundaries[find_tagname(tag, mtmp.dim() - 1)] = "
       "index[tagindex, 1]")], "C17-R1"),
    ("cell-data keys split at every separator",
     [(FM, "            subnames = name.split(\":\", 2)",
       "            subnames = name.split(\":\")")], "C17-R1"),
    ("from_dict rebuilds the subdomain arrays without a dtype",
     [(FM, "            data['subdomains'] = {k: np.array(v, dtype=np.int32)",
       "            data['subdomains'] = {k: np.array(v)")], "C17-R1"),
    ("from_dict converts the boundaries when the subdomains are present",
     [(FM, "        if 'boundaries' in data and data['boundaries'] is not "
       "None:", "        if 'boundaries' in data and data['subdomains'] is "
       "not None:")], "C17-R1"),
    ("from_dict forgets to transpose the cells back",
     [(FM, "            data['t'] = np.ascontiguousarray(np.array(data['t'])"
       ".T)", "            data['t'] = np.ascontiguousarray(np.array("
       "data['t']))")], "C17-R1"),
    ("legacy MSH 2.2 parser entered without a table of names and unnamed "
     "groups keyed by the lookup result",
     [(FIO, _G22, "    if len(boundaries) == 0 and 'gmsh:physical' in "
       "m.cell_data:"),
      (FIO, "                name = find_tagname(tag, mtmp.dim())\n"
       "                if name is not None:\n"
       "                    subdomains[name] = t_set",
       "                subdomains[find_tagname(tag, mtmp.dim())] = t_set")],
     "C17-R1"),
    ("npz loader removes the prefix wherever it occurs in the name",
     [(FM, "                key[2:]: data[key]\n                for key in "
       "data.files\n                if key[:2] == 'b_'",
       "                key.replace('b_', ''): data[key]\n                for "
       "key in data.files\n                if key.startswith('b_')")],
     "C17-R1"),
    ("decoder lists owning cells in the transposed traversal",
     (FM, "                cells = mask.nonzero()[1][order]",
      "                cells = mask.T.nonzero()[0][order]"), "C17-R3"),
    ("decoder compares f2t with the facet-slot index",
     (FM, "                cells = mask.nonzero()[1][order]",
      "                cells = mask.nonzero()[0][order]"), "C17-R3"),
    ("encoder flags every tagged facet of an owning cell",
     (FM, "            r, c = np.nonzero(self.t2f[:, columns] == b)",
      "            r, c = np.nonzero(np.isin(self.t2f[:, columns], b))"),
     "C17-R3"),
    ("encoder takes the owner from the other side",
     (FM, "            columns = self.f2t[(b.ori, b)]",
      "            columns = self.f2t[(1 - b.ori, b)]"), "C17-R3"),
    ("encoder scatters to the tag position instead of its owner",
     (FM, "            t2f_mask[(r, columns[c])] = 1",
      "            t2f_mask[(r, c)] = 1"), "C17-R3"),
    ("two HEX_MAPPING entries exchanged across the vertex/edge border",
     (_IO, "HEX_MAPPING = [0, 3, 6, 2, 1, 5, 7, 4,\n               10, 16,",
      "HEX_MAPPING = [0, 3, 6, 2, 1, 5, 7, 10,\n               4, 16,"),
     "C17-R2"),
    ("HEX_MAPPING repeats an entry",
     (_IO, "               20, 25, 22, 23, 21, 24,", "               20, 25, "
      "22, 23, 21, 25,"), "C17-R2"),
    ("decoder tests another tag prefix",
     (FM, "            if subnames[0] != \"skfem\":", "            if "
      "subnames[0] != \"skf\":"), "C17-R1"),
    ("encoder writes subdomains under kind 'd'",
     (FM, "                f\"skfem:s:{name}\": [", "                "
      "f\"skfem:d:{name}\": ["), "C17-R1"),
    ("decoder splits keys at another separator",
     (FM, "            subnames = name.split(\":\", 2)", "            "
      "subnames = name.split(\"-\", 2)"), "C17-R1"),
    ("bit weights doubled on the encoder side only",
     (FM, "            return (1 << np.arange(self.refdom.nfacets)) @ "
      "t2f_mask", "            return (2 << np.arange(self.refdom.nfacets)) "
      "@ t2f_mask"), "C17-R1"),
    ("npz loader strips three characters",
     (FM, "                key[2:]: data[key]\n                for key in "
      "data.files\n                if key[:2] == 'b_'",
      "                key[3:]: data[key]\n                for key in "
      "data.files\n                if key[:2] == 'b_'"), "C17-R1"),
    ("npz writer uses another boundary prefix",
     (FM, "boundaries = {'b_' + key: value", "boundaries = {'bd_' + key: "
      "value"), "C17-R1"),
    ("hexahedron read without the inverse permutation",
     (_IO, "        t = t[INV_HEX_MAPPING[:8]]", "        t = "
      "t[HEX_MAPPING[:8]]"), "C17-R1"),
    ("quadratic hexahedra written with the vertex prefix only",
     (_IO, "    if isinstance(mesh, MeshHex2):\n        t = t[HEX_MAPPING]",
      "    if isinstance(mesh, MeshHex2):\n        t = t[HEX_MAPPING[:8]]"),
     "C17-R1"),
    ("decoder sorts the facets alone again",
     (FM, "                facets = self.t2f[mask]\n                order = "
      "np.argsort(facets)\n                facets = facets[order]\n"
      "                cells = mask.nonzero()[1][order]",
      "                facets = np.sort(self.t2f[mask])\n                "
      "cells = mask.nonzero()[1]"), "C17-R3"),
    ("decoder permutes the cells by another order",
     (FM, "                cells = mask.nonzero()[1][order]",
      "                cells = np.sort(mask.nonzero()[1])"), "C17-R3"),
    ("encoder ignores the orientation flags",
     (FM, "            b = (\n                boundary\n                if "
      "isinstance(boundary, OrientedBoundary)\n                else "
      "OrientedBoundary(boundary, np.zeros_like(boundary))\n            )\n"
      "            t2f_mask = np.zeros_like(self.t2f)\n            columns "
      "= self.f2t[(b.ori, b)]",
      "            b = boundary\n            t2f_mask = "
      "np.zeros_like(self.t2f)\n            columns = self.f2t[0, b]"),
     "C17-R4"),
    ("to_meshio merges its keys into the caller's dictionary (no copy, "
     "in-place update)",
     (_IO,
      "    if cell_data is not None:\n        cell_data = {k: (list(v) if "
      "isinstance(v, (list, tuple)) else [v])\n                     for k, "
      "v in cell_data.items()}\n\n    if encode_cell_data:\n        "
      "cell_data = {**({} if cell_data is None else cell_data),\n"
      "                     **mesh._encode_cell_data()}",
      "    if encode_cell_data:\n        if cell_data is None:\n"
      "            cell_data = {}\n        cell_data.update("
      "mesh._encode_cell_data())"), "C17-R5"),
    ("from_dict consumes the caller's dictionary again",
     (FM, "        data = dict(data)  # do not modify the argument\n", ""),
     "C17-R5"),
    ("to_dict forgets to be read back: key renamed on the writer side",
     (FM, "            'boundaries': boundaries,\n            'subdomains': "
      "subdomains,", "            'bnd': boundaries,\n            "
      "'subdomains': subdomains,"), "C17-R1"),
]
TWINS = [
    ("encoded tags merged into the copied containers in place (seed C17-4 "
     "on the repaired tree: the copies protect the caller's objects)",
     [(_IO, "        cell_data = {**({} if cell_data is None else cell_data),"
       "\n                     **mesh._encode_cell_data()}",
       "        cell_data = {} if cell_data is None else cell_data\n"
       "        cell_data.update(mesh._encode_cell_data())")]),
    ("legacy MSH 2.2 parser entered without a table of names (harmless "
     "since unnamed groups create no tag: seed C17-6 on the repaired tree)",
     [(FIO, _G22, "    if len(boundaries) == 0 and 'gmsh:physical' in "
       "m.cell_data:")]),
    ("gmsh namespace tested by slicing the prefix",
     [(_IO, "                      if meshio_type in v and not "
       "k.startswith(\"gmsh:\")}", "                      if meshio_type in "
       "v and k[:5] != \"gmsh:\"}")]),
    ("point-data indicator sized by the point table",
     [(FM, "            ind = np.zeros(self.p.shape[1])",
       "            ind = np.zeros(self.doflocs.shape[1])")]),
    ("cell-data keys parsed with partition",
     [(FM, "            subnames = name.split(\":\", 2)",
       "            subnames = name.split(\":\", maxsplit=2)")]),
    ("legacy MSH 2.2 parser guarded by the length of the table",
     [(FIO, _G22, "    if len(boundaries) == 0 and m.cell_data and "
       "len(m.field_data) > 0:")]),
    ("from_dict tests the tags with .get",
     [(FM, "        if 'boundaries' in data and data['boundaries'] is not "
       "None:", "        if data.get('boundaries') is not None:")]),
    ("npz loader strips the prefix with startswith / len",
     [(FM, "                key[2:]: data[key]\n                for key in "
       "data.files\n                if key[:2] == 'b_'",
       "                key[len('b_'):]: data[key]\n                for key "
       "in data.files\n                if key.startswith('b_')")]),
    ("inverse hexahedron table built with sorted()",
     (_IO, "INV_HEX_MAPPING = [HEX_MAPPING.index(i)\n"
      "                   for i in range(len(HEX_MAPPING))]",
      "INV_HEX_MAPPING = [k for _, k in sorted(\n"
      "    (v, k) for k, v in enumerate(HEX_MAPPING))]")),
    ("decoder enumerates facets and cells through the transposed mask",
     [(FM, "                facets = self.t2f[mask]",
       "                facets = self.t2f.T[mask.T]"),
      (FM, "                cells = mask.nonzero()[1][order]",
       "                cells = mask.T.nonzero()[0][order]")]),
    ("decoder uses np.nonzero(mask)",
     (FM, "                cells = mask.nonzero()[1][order]",
      "                cells = np.nonzero(mask)[1][order]")),
    ("bit weights written as powers of two on both sides",
     [(FM, "            return (1 << np.arange(self.refdom.nfacets)) @ "
       "t2f_mask", "            return (2 ** np.arange(self.refdom.nfacets)) "
       "@ t2f_mask"),
      (FM, "                    (1 << np.arange(self.refdom.nfacets))"
       "[:, None]", "                    (2 ** np.arange("
       "self.refdom.nfacets))[:, None]")]),
    ("decoder pairs facets and cells through one argsort (renamed)",
     [(FM, "                order = np.argsort(facets)\n                "
       "facets = facets[order]\n                cells = mask.nonzero()[1]"
       "[order]", "                perm = np.argsort(facets)\n"
       "                facets = facets[perm]\n                cells = "
       "mask.nonzero()[1][perm]")]),
]
