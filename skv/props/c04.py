"""C04 - DOF numbering: gap-free blocks, gathered through the table of their
own entity kind, one order convention per reader/writer family, coherent
local tables."""
from __future__ import annotations

import ast
import re
from fractions import Fraction
from typing import Any, Dict, List, Optional, Set, Tuple

from ..dofsym import (ENT, KINDS, EmptyBlock, Gather, NumBlock, run_dofs)
from ..elements import load_elements, load_refdoms
from ..interp import (Arr, ClassRef, Interp, ModRef, Obj, PyFunc, Raised,
                      Unsupported)
from ..model import AnalysisError, FuncInfo, Model, src, walk_no_nested
from ..poly import Poly

PID = "C04"
LEVEL = "other"
TECHNIQUE = ("symbolic run of Dofs.__init__ over all guard configurations "
             "(block lengths, offsets and gathers as polynomial identities "
             "in the entity counts); extraction and comparison of the "
             "entity-kind order each reader/writer of the local-basis and "
             "of the dofnames convention uses; exact audit of the elements' "
             "literal DOF location tables against the Refdom entities")
LEVEL_TEXT = (
    "Decides: (R1) all sites that read or write the local basis order "
    "(vertex, edge, facet, interior) and all sites that read or write the "
    "dofnames order agree among themselves; (R2) each numbering block's "
    "arange length, reshape extents and offset increment are one polynomial "
    "and blocks are chained, hence contiguous, gap-free and disjoint; (R3) "
    "vertex/edge/facet blocks are gathered through t/t2e/t2f over all local "
    "slots, interior rows un-gathered, and a block is numbered exactly when "
    "it is gathered (for every dimension and count pattern); (R4) the DOF "
    "location scatter pairs element_dofs[j] with the mapped location j; (R5) "
    "literal doflocs lie on the entity their block position names and "
    "counts match. The 'iff' between sharing a number and sharing an entity "
    "on a concrete mesh additionally needs C11 and is not claimed.")
LEVEL_TEXT += (
    " Added after the seeding phase: (R6) ElementComposite._deduce_bfun "
    "interpreted for ten count vectors on tet-like and hex-like cells: "
    "local index i is served by the component function on the entity that "
    "row i of element_dofs numbers.")
LEVEL_TEXT += (
    " Added in the hunting round (defects found by independent agents "
    "on the unchanged tree, DESIGN.md 9.4 / 9.6): "
    "which entity kinds carry DOFs is decided by the dimension of the "
    "cells: configurations with element.dim different from it (vector "
    "elements) added.")
LEVEL_TEXT += (
    " Added in the second hunting round (DESIGN.md 9.6): "
    "the single DOF of a shared edge / facet sits at the entity's "
    "centroid; Element.condensed shifts doflocs, dofnames and the "
    "components like its gbasis.")
LEVEL_TEXT += (
    " Added in the third round (review of the fix commits, DESIGN.md "
    "9.6): "
    "ElementDG lists one name per local function in the local basis "
    "order; the outer part of a condensed vector element wraps the "
    "outer part of its element.")
LEVEL_TEXT += (
    " Added in the fourth hunting round (DESIGN.md 9.6): "
    "FacetBasis tests the missing-neighbour sentinel of f2t before "
    "using the cells of its facets as indices.")
LEVEL_NOTE = (
    "Trusted: numpy arange/reshape/vstack semantics. Not decided: "
    "properties of concrete meshes (uniqueness of entities is C11), "
    "sparsity locality (follows from C01-R1: indices come only from "
    "element_dofs).")
EXPLANATION = ("Symbolic numbering run + convention-order agreement + exact "
               "table audit.")
TRUSTED = ["numpy arange/reshape/vstack"]
ASSUMPTIONS = ["entity counts nvertices/nedges/nfacets/nelements are those "
               "of the connectivity tables (C11)"]

DOFS = "skfem.assembly.dofs"
FD = "skfem/assembly/dofs.py"


def _kinds_in(e) -> Set[str]:
    """entity kinds whose per-entity DOF count an expression mentions"""
    out = set()
    for n in ast.walk(e):
        name = None
        if isinstance(n, ast.Name):
            name = n.id
        elif isinstance(n, ast.Attribute):
            name = n.attr
        if name:
            for k in KINDS:
                if re.search(rf"(^|_){k}(_|$)", name) or name == f"n_{k}":
                    out.add(k)
    return out


def _order_from_preds(preds: Dict[str, Set[str]]) -> Tuple[str, ...]:
    return tuple(sorted(preds, key=lambda k: (len(preds[k]), k)))


# ----------------------------------------------------------------------
# dofnames-order sites: kind -> set of kinds that precede it

def _names_sites(model: Model) -> Dict[str, Tuple[FuncInfo, Dict[str, Set[str]]]]:
    sites = {}
    # 1. Dofs._dofnames_to_rows
    fn = model.func(DOFS, "Dofs._dofnames_to_rows")
    preds = {}
    for lp in [n for n in walk_no_nested(fn.node) if isinstance(n, ast.For)]:
        kind = _kinds_in(lp.iter)
        subs = [n for n in ast.walk(lp) if isinstance(n, ast.Subscript)
                and src(n.value).endswith("dofnames")]
        if len(kind) == 1 and len(subs) == 1:
            preds[next(iter(kind))] = _kinds_in(subs[0].slice)
    sites["Dofs._dofnames_to_rows"] = (fn, preds)
    # 2. DofsView properties
    preds = {}
    fnp = None
    for k, pname in (("nodal", "nodal"), ("facet", "facet"),
                     ("edge", "edge"), ("interior", "interior")):
        fnp = model.func(DOFS, f"DofsView.{pname}")
        off = [kw.value for n in ast.walk(fnp.node) if isinstance(n, ast.Call)
               for kw in n.keywords if kw.arg == "off"]
        preds[k] = _kinds_in(off[0]) if off else set()
    sites["DofsView.nodal/facet/edge/interior"] = (fnp, preds)
    # 3. DofsView.__repr__
    fn = model.func(DOFS, "DofsView.__repr__")
    preds = {}
    for n in ast.walk(fn.node):
        if isinstance(n, ast.Subscript) and isinstance(n.slice, ast.Attribute)\
                and n.slice.attr.endswith("_rows"):
            kind = n.slice.attr[:-5]
            inner = n.value
            if isinstance(inner, ast.Subscript) and isinstance(
                    inner.slice, ast.Slice) and inner.slice.lower is not None:
                preds[kind] = _kinds_in(inner.slice.lower)
            elif src(inner) == "dofnames":
                preds[kind] = set()
    sites["DofsView.__repr__"] = (fn, preds)
    # 4. ElementDG.__init__
    fn = model.func("skfem.element.element_dg", "ElementDG.__init__")
    asg = [n for n in walk_no_nested(fn.node) if isinstance(n, ast.Assign)
           and src(n.targets[0]) == "self.dofnames"]
    if len(asg) != 1:
        raise AnalysisError("ElementDG.__init__: dofnames assignment")
    terms = []

    def flat(e):
        if isinstance(e, ast.BinOp) and isinstance(e.op, ast.Add):
            flat(e.left)
            flat(e.right)
        else:
            terms.append(e)
    flat(asg[0].value)
    preds = {}
    mult_kind = {"nnodes": "nodal", "nfacets": "facet", "nedges": "edge"}
    for t in terms:
        sub = t
        mk = None
        if isinstance(t, ast.BinOp) and isinstance(t.op, ast.Mult):
            m = [mult_kind[a.attr] for a in ast.walk(t.left)
                 if isinstance(a, ast.Attribute) and a.attr in mult_kind]
            mk = m[0] if m else None
            sub = t.right
        if not isinstance(sub, ast.Subscript):
            raise AnalysisError("ElementDG.__init__: dofnames term shape")
        sl = sub.slice
        if isinstance(sl, ast.Call) and src(sl.func) == "slice":
            lo, hi = sl.args[0], sl.args[1]
        elif isinstance(sl, ast.Slice):
            lo, hi = sl.lower, sl.upper
        else:
            raise AnalysisError("ElementDG.__init__: slice shape")
        lo_k = _kinds_in(lo) if lo is not None else set()
        if hi is not None:
            own = _kinds_in(hi) - lo_k
        else:
            own = {"interior"}
        if len(own) != 1:
            raise AnalysisError("ElementDG.__init__: slice kinds")
        k = next(iter(own))
        if mk is not None and mk != k:
            preds[f"{k}(multiplied by the {mk} count)"] = lo_k
        else:
            preds[k] = lo_k
    sites["ElementDG.__init__"] = (fn, preds)
    # the DG wrapper's own list has one name per *local basis function*
    # (all of them are interior DOFs of the wrapper): its terms must come in
    # the order of the local functions, not in the order of the name list
    # they are sliced from
    term_order = []
    for t in terms:
        sub = t.right if isinstance(t, ast.BinOp) and isinstance(
            t.op, ast.Mult) else t
        sl = sub.slice
        if isinstance(sl, ast.Call) and src(sl.func) == "slice":
            lo, hi = sl.args[0], sl.args[1]
        else:
            lo, hi = sl.lower, sl.upper
        lo_k = _kinds_in(lo) if lo is not None else set()
        own = (_kinds_in(hi) - lo_k) if hi is not None else {"interior"}
        term_order.append(next(iter(own)))
    sites["ElementDG.__init__#terms"] = (fn, tuple(term_order))
    # 5. ElementComposite.__init__
    fn = model.func("skfem.element.element_composite",
                    "ElementComposite.__init__")
    preds = {}
    for lp in [n for n in walk_no_nested(fn.node) if isinstance(n, ast.For)]:
        for inner in [x for x in lp.body if isinstance(x, ast.For)]:
            if not (isinstance(inner.iter, ast.Call)
                    and src(inner.iter.func) == "range"):
                continue
            if not any("dofnames.append" in src(x) for x in ast.walk(inner)
                       if isinstance(x, ast.Call)):
                continue
            a = inner.iter.args
            lo_k = _kinds_in(a[0]) if len(a) == 2 else set()
            own = _kinds_in(a[-1]) - lo_k
            if len(own) == 1:
                preds[next(iter(own))] = lo_k
    sites["ElementComposite.__init__"] = (fn, preds)
    return sites


# ----------------------------------------------------------------------
# local-basis-order sites: ordered list of kinds

def _local_sites(model: Model) -> Dict[str, Tuple[FuncInfo, Tuple[str, ...]]]:
    sites = {}
    fn = model.func("skfem.element.element", "Element._bfun_counts")
    rets = [n for n in walk_no_nested(fn.node) if isinstance(n, ast.Return)]
    arr = rets[0].value
    if not (isinstance(arr, ast.Call) and arr.args
            and isinstance(arr.args[0], ast.List)):
        raise AnalysisError("_bfun_counts: array literal expected")
    order = []
    for e in arr.args[0].elts:
        k = _kinds_in(e)
        if len(k) != 1:
            raise AnalysisError("_bfun_counts: entry kinds")
        order.append(next(iter(k)))
    sites["Element._bfun_counts"] = (fn, tuple(order))
    # _deduce_bfun: counts[k] <-> kind
    fn = model.func("skfem.element.element_composite",
                    "ElementComposite._deduce_bfun")
    pairs = {}
    for st in fn.node.body:
        if isinstance(st, ast.If):
            idx = [n.slice.value for n in ast.walk(st.test)
                   if isinstance(n, ast.Subscript)
                   and src(n.value) == "counts"
                   and isinstance(n.slice, ast.Constant)]
            ks = set()
            for b in st.body:
                ks |= _kinds_in(b)
            if len(idx) == 1 and len(ks) == 1:
                pairs[idx[0]] = next(iter(ks))
            inner_idx = {n.slice.value for b in st.body for n in ast.walk(b)
                         if isinstance(n, ast.Subscript)
                         and src(n.value) == "counts"
                         and isinstance(n.slice, ast.Constant)}
            if inner_idx - set(idx):
                pairs[f"mixed@{idx}"] = "mixed"
    order = tuple(pairs[k] for k in sorted(pairs, key=lambda x: str(x)))
    # also the order in which the groups are appended to ns
    sites["ElementComposite._deduce_bfun"] = (fn, order)
    # split_indices: concatenation order, composite and vector branches
    fn = model.func("skfem.assembly.basis.abstract_basis",
                    "AbstractBasis.split_indices")
    for n in walk_no_nested(fn.node):
        if isinstance(n, ast.Call) and src(n.func) == "np.concatenate":
            elts = n.args[0].elts if isinstance(n.args[0], ast.Tuple) else []
            order = []
            for e in elts:
                k = [a.attr[:-5] for a in ast.walk(e)
                     if isinstance(a, ast.Attribute)
                     and src(a.value) == "self" and a.attr.endswith("_dofs")]
                order.append(k[0] if k else "?")
            tag = "composite" if "o[" in src(n) else "vector"
            sites[f"AbstractBasis.split_indices[{tag}]"] = (fn, tuple(order))
            if tag == "composite":
                # o[k] <-> kind and the increment array
                ok = {}
                for e in elts:
                    k = [a.attr[:-5] for a in ast.walk(e)
                         if isinstance(a, ast.Attribute)
                         and src(a.value) == "self"
                         and a.attr.endswith("_dofs")][0]
                    ix = [s.slice.value for s in ast.walk(e)
                          if isinstance(s, ast.Subscript)
                          and src(s.value) == "o"
                          and isinstance(s.slice, ast.Constant)]
                    cnt = _kinds_in(e) - {k} if False else {
                        a.attr[:-5] for a in ast.walk(e)
                        if isinstance(a, ast.Attribute)
                        and src(a.value) == "e"
                        and a.attr.endswith("_dofs")}
                    ok[k] = (set(ix), cnt)
                sites["AbstractBasis.split_indices[offsets]"] = (
                    fn, tuple(k if ok[k][1] == {k} and len(ok[k][0]) == 1
                              else f"{k}!" for k in order))
    incs = [n for n in walk_no_nested(fn.node) if isinstance(n, ast.AugAssign)
            and src(n.target) == "o"]
    if incs and isinstance(incs[0].value, ast.Call) and isinstance(
            incs[0].value.args[0], ast.List):
        order = []
        for e in incs[0].value.args[0].elts:
            k = _kinds_in(e)
            order.append(next(iter(k)) if len(k) == 1 else "?")
        sites["AbstractBasis.split_indices[increment]"] = (fn, tuple(order))
    return sites


# ----------------------------------------------------------------------
def _r1(model, rep, dofs_order):
    R1 = "C04-R1"
    loc = _local_sites(model)
    loc["Dofs.__init__[blocks and rows]"] = (
        model.func(DOFS, "Dofs.__init__"), dofs_order)
    ref_fn, ref = loc["Element._bfun_counts"]
    for name, (fn, order) in sorted(loc.items()):
        cons = f"local-order:{name}"
        o = tuple(x for x in order)
        if o == ref:
            rep.ok(R1, cons, f"local basis order {o}")
        else:
            rep.fail(R1, fn.path, fn.short(), cons,
                     f"uses the entity order {o} while Element._bfun_counts "
                     f"(and the local basis functions) use {ref}", fn.lineno)
    names = _names_sites(model)
    dgfn, dgterms = names.pop("ElementDG.__init__#terms")
    cons = "local-order:ElementDG.__init__:names-per-local-function"
    if tuple(dgterms) == ref:
        rep.ok(R1, cons, f"one name per local function, in the local basis "
                         f"order {ref}")
    else:
        rep.fail(R1, dgfn.path, dgfn.short(), cons,
                 f"ElementDG lists one name per local basis function in the "
                 f"order {tuple(dgterms)}, the local functions it forwards "
                 f"run {ref}: for a wrapped element with edge and facet "
                 f"DOFs a name filter returns DOFs of another component "
                 f"(ElementDG(ElementTetP2() * ElementTetRT1()): "
                 f"all('u^n^2') returns 160 DOFs, none of them an RT DOF)",
                 dgfn.lineno)
    orders = {n: _order_from_preds(p) for n, (f, p) in names.items()}
    from collections import Counter
    common = Counter(orders.values()).most_common(1)[0][0]
    if len(names) < 5:
        raise AnalysisError(f"{len(names)} dofnames-order sites, 5 expected")
    for name, (fn, preds) in sorted(names.items()):
        cons = f"dofnames-order:{name}"
        if set(preds) != set(KINDS):
            rep.fail(R1, fn.path, fn.short(), cons,
                     f"name blocks {sorted(preds)} do not correspond to the "
                     f"four entity kinds", fn.lineno)
        elif orders[name] == common:
            rep.ok(R1, cons, f"dofnames are ordered {common}",
                   sample=(name == "ElementComposite.__init__"))
        else:
            rep.fail(R1, fn.path, fn.short(), cons,
                     f"orders the DOF names {orders[name]} while the "
                     f"{sum(1 for o in orders.values() if o == common)} other "
                     f"readers and writers use {common}: names of edge and "
                     f"facet DOFs are exchanged for elements having both",
                     fn.lineno)


def _r23(model, rep):
    R2, R3 = "C04-R2", "C04-R3"
    fn = model.func(DOFS, "Dofs.__init__")
    table_of = {"nodal": "t", "edge": "t2e", "facet": "t2f"}
    # rows per table: distinct numbers so that a gather through the wrong
    # table cannot cover the right slots by accident (t2e of 1-D / 2-D
    # meshes is never legitimately read)
    nrows = {1: {"t": 2, "t2e": 7, "t2f": 2}, 2: {"t": 3, "t2e": 5, "t2f": 3},
             3: {"t": 4, "t2e": 6, "t2f": 4}}
    order_seen = None
    for dim in (1, 2, 3):
        for ed in (0, 2):
            for fa in (0, 3):
                for no in (0, 1):
                  for ecomp in (dim, 2 if dim != 2 else 3):
                    counts = {"nodal": no, "edge": ed, "facet": fa,
                              "interior": 2}
                    r = run_dofs(model, dim, counts, nrows[dim],
                                 elem_dim=ecomp)
                    cfg = f"dim={dim},nodal={no},edge={ed},facet={fa}" + (
                        "" if ecomp == dim else f",element.dim={ecomp}")
                    # which entity kinds carry DOFs is a matter of the
                    # *cells*: edges exist as separate entities in 3-D,
                    # facets other than vertices from 2-D on.  element.dim
                    # of a vector element is its number of components.
                    for k in ("nodal", "edge", "facet"):
                        must = counts[k] > 0 and (
                            k == "nodal" or (k == "edge" and dim == 3)
                            or (k == "facet" and dim >= 2))
                        has = isinstance(r.blocks[k], NumBlock)
                        if must and not has:
                            rep.fail(R2, FD, "Dofs.__init__",
                                     f"exists[{k}|{cfg}]",
                                     f"an element with {counts[k]} {k} "
                                     f"DOF(s) on {dim}-dimensional cells "
                                     f"gets no {k} block (element.dim = "
                                     f"{ecomp} is the number of components "
                                     f"of a vector element, not the "
                                     f"dimension of the cells): those DOFs "
                                     f"are silently dropped", fn.lineno)
                        elif must:
                            rep.ok(R2, f"exists[{k}|{cfg}]",
                                   f"{k} DOFs numbered")
                    # R2: block arithmetic and chaining
                    off = Poly()
                    chain = []
                    for k in KINDS:
                        b = r.blocks[k]
                        if b is None:
                            raise AnalysisError(f"Dofs.{k}_dofs never set")
                        if isinstance(b, EmptyBlock):
                            continue
                        if not isinstance(b, NumBlock):
                            raise AnalysisError(f"Dofs.{k}_dofs: "
                                                f"{type(b).__name__}")
                        chain.append((k, b))
                    chain.sort(key=lambda kb: len(kb[1].offset.t))
                    for k, b in chain:
                        want = r.counts[k] * Poly.sym(ENT[k])
                        ext = Poly.coerce(b.shape[0]) * Poly.coerce(b.shape[1])
                        cons = f"block[{k}|{cfg}]"
                        if b.n == want and ext == want and b.offset == off \
                                and Poly.coerce(b.shape[0]) == r.counts[k]:
                            rep.ok(R2, cons, f"{want} numbers reshaped "
                                   f"{b.shape} order {b.order}, starting at "
                                   f"{off}")
                        else:
                            rep.fail(R2, FD, "Dofs.__init__", cons,
                                     f"block of {k} DOFs: arange({b.n}) "
                                     f"reshaped {b.shape} starting at "
                                     f"{b.offset}; expected {want} numbers "
                                     f"starting at {off} (gap or overlap in "
                                     f"the numbering)", fn.lineno)
                        off = off + want
                    kinds_order = tuple(k for k, _ in chain)
                    # R3: gathers
                    gathered: Dict[str, List[int]] = {}
                    stack_order = []
                    for p in r.stack:
                        if isinstance(p, Gather):
                            bk = [k for k in KINDS
                                  if r.blocks[k] is p.block]
                            k = bk[0] if bk else "?"
                            gathered.setdefault(k, []).append(
                                (p.trow.table, p.trow.row))
                            if k not in stack_order:
                                stack_order.append(k)
                        elif isinstance(p, NumBlock):
                            bk = [k for k in KINDS if r.blocks[k] is p]
                            stack_order.append((bk[0] if bk else "?")
                                               + ":ungathered")
                    for k in ("nodal", "edge", "facet"):
                        b = r.blocks[k]
                        # a block of zero rows is still a block: gathering
                        # it adds zero rows
                        numbered = isinstance(b, NumBlock)
                        g = gathered.get(k, [])
                        cons = f"gather[{k}|{cfg}]"
                        tab = table_of[k]
                        full = [(tab, i) for i in range(nrows[dim][tab])]
                        if numbered and g == full:
                            rep.ok(R3, cons, f"{k} block gathered through "
                                   f"{tab} over all {len(full)} local slots")
                        elif not numbered and not g:
                            rep.ok(R3, cons, "neither numbered nor gathered")
                        elif numbered and not g and \
                                r.counts[k].value == 0 and False:
                            pass
                        elif numbered and not g:
                            rep.fail(R3, FD, "Dofs.__init__", cons,
                                     f"{k} DOFs are numbered "
                                     f"({r.counts[k].value} per entity) but "
                                     f"never gathered into element_dofs: "
                                     f"their numbers stay unused (gaps) and "
                                     f"the cells lack those rows",
                                     fn.lineno)
                        elif not numbered:
                            rep.fail(R3, FD, "Dofs.__init__", cons,
                                     f"{k} rows are gathered although no "
                                     f"{k} block is numbered", fn.lineno)
                        else:
                            rep.fail(R3, FD, "Dofs.__init__", cons,
                                     f"{k} block is gathered through "
                                     f"{sorted(set(t for t, _ in g))} rows "
                                     f"{[i for _, i in g]}; expected table "
                                     f"{tab}, all {len(full)} local slots in "
                                     f"order", fn.lineno)
                    cons = f"interior[{cfg}]"
                    if stack_order and stack_order[-1] == \
                            "interior:ungathered":
                        rep.ok(R3, cons, "interior rows appended un-gathered "
                               "after all shared rows")
                    else:
                        rep.fail(R3, FD, "Dofs.__init__", cons,
                                 f"row stacking {stack_order}: interior DOFs "
                                 f"must be the last, un-gathered rows",
                                 fn.lineno)
                    if dim == 3 and ed and fa and no:
                        order_seen = tuple(
                            s.split(":")[0] for s in stack_order)
                        if kinds_order != order_seen:
                            rep.fail(R3, FD, "Dofs.__init__",
                                     f"orders[{cfg}]",
                                     f"blocks are numbered in the order "
                                     f"{kinds_order} but stacked "
                                     f"{order_seen}", fn.lineno)
    if order_seen is None:
        raise AnalysisError("Dofs.__init__: full configuration not reached")
    return order_seen


def _r4(model, rep):
    R4 = "C04-R4"
    for modn, fname, tgt, srcname, dofs in (
            ("skfem.assembly.basis.abstract_basis", "AbstractBasis.__init__",
             "self.doflocs", "doflocs", "self.dofs.element_dofs"),
            ("skfem.mesh.mesh", "Mesh.from_mesh", "doflocs", "locs",
             "dofs.element_dofs")):
        fn = model.func(modn, fname)
        stores = [n for n in ast.walk(fn.node) if isinstance(n, ast.Assign)
                  and isinstance(n.targets[0], ast.Subscript)
                  and src(n.targets[0].value) == tgt]
        ok = False
        detail = "scatter statement not found"
        if len(stores) == 1:
            t, v = stores[0].targets[0], stores[0].value
            m1 = re.match(rf"\((\w+), {re.escape(dofs)}\[(\w+)\]\)$",
                          src(t.slice))
            m2 = re.match(rf"{srcname}\[(\w+), :, (\w+)\]$", src(v))
            ok = bool(m1 and m2 and m1.group(1) == m2.group(1)
                      and m1.group(2) == m2.group(2))
            detail = f"{src(stores[0])}"
            loops = {lp.target.id: src(lp.iter) for lp in ast.walk(fn.node)
                     if isinstance(lp, ast.For)
                     and isinstance(lp.target, ast.Name)}
            if ok:
                ok = loops.get(m1.group(2)) == \
                    f"range({dofs}.shape[0])"
        cons = f"{fname}:doflocs-scatter"
        if ok:
            rep.ok(R4, cons, f"location of local DOF j goes to "
                   f"element_dofs[j], for all rows j: {detail}")
        else:
            rep.fail(R4, fn.path, fname, cons,
                     f"DOF locations are not scattered with the same local "
                     f"index on both sides over all rows ({detail})",
                     fn.lineno)


def _on_segment(p, a, b) -> bool:
    d = len(p)
    ab = [b[i] - a[i] for i in range(d)]
    ap = [p[i] - a[i] for i in range(d)]
    # collinear and strictly between
    ts = [ap[i] / ab[i] for i in range(d) if ab[i] != 0]
    if not ts or any(t != ts[0] for t in ts):
        return False
    if any(ab[i] == 0 and ap[i] != 0 for i in range(d)):
        return False
    return 0 <= ts[0] <= 1


def _in_hull_face(p, verts) -> bool:
    """p in the affine hull of verts and inside their bounding box"""
    d = len(p)
    o = verts[0]
    for i in range(d):
        lo = min(v[i] for v in verts)
        hi = max(v[i] for v in verts)
        if not lo <= p[i] <= hi:
            return False
    if len(verts) >= 3 and d == 3:
        a = [verts[1][i] - o[i] for i in range(3)]
        b = [verts[2][i] - o[i] for i in range(3)]
        n = [a[1] * b[2] - a[2] * b[1], a[2] * b[0] - a[0] * b[2],
             a[0] * b[1] - a[1] * b[0]]
        return sum(n[i] * (p[i] - o[i]) for i in range(3)) == 0
    if len(verts) == 2:
        return _on_segment(p, verts[0], verts[1])
    return True


def _r5(model, rep):
    R5 = "C04-R5"
    refdoms = load_refdoms(model)
    els = load_elements(model, refdoms, translate=False)
    n = 0
    for name in sorted(els):
        e = els[name]
        if e.refdom is None or e.doflocs is None or any(
                v is None for v in e.counts.values()):
            continue
        if e.cls.find_method("__init__") is not None and len(
                e.cls.find_method("__init__").params()) > 1:
            continue
        rd = e.refdom
        sizes = e.block_sizes()
        total = sum(sizes)
        n += 1
        path, line = e.cls.path, e.cls.node.lineno
        if len(e.doflocs) != total:
            rep.fail(R5, path, name, f"{name}:doflocs-rows",
                     f"{len(e.doflocs)} DOF locations for {total} local "
                     f"basis functions", line)
            continue
        if e.dofnames is not None:
            per = sum(e.counts.values())
            # readers index dofnames[0 .. per-1]; surplus names are unused
            if len(e.dofnames) < per:
                rep.fail(R5, path, name, f"{name}:dofnames-count",
                         f"{len(e.dofnames)} DOF names for {per} per-entity "
                         f"DOFs (nodal+facet+edge+interior): name lookups "
                         f"run past the list", line)
            else:
                rep.ok(R5, f"{name}:dofnames-count",
                       f"{len(e.dofnames)} names cover the {per} per-entity "
                       f"DOFs")
        bad = None
        for i, loc in enumerate(e.doflocs):
            if any(isinstance(x, ModRef) for x in loc):
                continue            # np.nan: location deliberately undefined
            pt = tuple(Fraction(x) for x in loc)
            kind, ent, row = e.entity_of(i)
            if kind == "vertex":
                ok = pt == tuple(rd.p[ent])
            elif kind == "edge":
                a, b = rd.edges[ent]
                ok = _on_segment(pt, rd.p[a], rd.p[b])
            elif kind == "facet":
                vs = [rd.p[v] for v in rd.facets[ent]]
                ok = _in_hull_face(pt, vs) if rd.dim > 1 else \
                    pt == tuple(vs[0])
            else:
                ok = all(min(v[d] for v in rd.p) <= pt[d]
                         <= max(v[d] for v in rd.p) for d in range(rd.dim))
            if not ok:
                bad = (i, kind, ent, loc)
                break
        if bad:
            i, kind, ent, loc = bad
            rep.fail(R5, path, name, f"{name}:doflocs-entities",
                     f"local DOF {i} belongs to {kind} {ent} by its block "
                     f"position but its location {tuple(map(str, loc))} "
                     f"does not lie on that entity", line)
        else:
            rep.ok(R5, f"{name}:doflocs-entities",
                   f"{total} locations lie on the entities their block "
                   f"position names")
        # a single DOF on a shared edge / facet: both cells sharing the
        # entity map *their* reference location to the same point only if it
        # is invariant under renumbering the entity's vertices - the centroid
        asym = None
        nsym = 0
        for i, loc in enumerate(e.doflocs):
            if any(isinstance(x, ModRef) for x in loc):
                continue
            kind, ent, row = e.entity_of(i)
            if kind not in ("edge", "facet") or rd.dim < 2 or \
                    e.counts[f"{kind}_dofs"] != 1:
                continue
            vs = rd.edges[ent] if kind == "edge" else rd.facets[ent]
            vs = list(dict.fromkeys(vs))     # padded facets repeat a vertex
            cen = tuple(sum(Fraction(rd.p[v][d]) for v in vs) / len(vs)
                        for d in range(rd.dim))
            nsym += 1
            if tuple(Fraction(x) for x in loc) != cen and asym is None:
                asym = (i, kind, ent, loc, cen)
        if asym:
            i, kind, ent, loc, cen = asym
            rep.fail(R5, path, name, f"{name}:doflocs-symmetric",
                     f"the only DOF of {kind} {ent} (local {i}) is located "
                     f"at {tuple(map(str, loc))}, not at the centroid "
                     f"{tuple(map(str, cen))} of the {kind}: the two cells "
                     f"sharing the {kind} number its vertices differently "
                     f"and compute different locations for the same global "
                     f"DOF (the location table then holds the value of "
                     f"whichever cell wrote last; for a facet of a "
                     f"tetrahedron the point even lies on a second facet)",
                     line)
        elif nsym:
            rep.ok(R5, f"{name}:doflocs-symmetric",
                   f"{nsym} single edge / facet DOFs sit at the centroid of "
                   f"their entity")
    if n < 35:
        raise AnalysisError(f"only {n} element classes with literal doflocs "
                            f"audited")


def _condensed_tables(model, rep):
    """Element.condensed() returns the interior part of an element as a copy
    whose vertex / edge / facet counts are zero and whose gbasis shifts the
    local index by the number K of non-interior functions.  The tables that
    are indexed in parallel with the local functions have to be shifted
    alike: doflocs by K rows, dofnames by the per-entity counts; and for a
    wrapper element (components ``elems`` / ``elem``) the components of the
    interior part are the interior parts of the components - a component
    copy with zeroed counts still serves its *first* functions (vertex hats)
    under the indices of the bubbles."""
    R5 = "C04-R5"
    fn = model.cls("skfem.element.element", "Element").methods.get(
        "condensed")
    if fn is None:
        raise AnalysisError("Element.condensed not found")
    zeroed = {src(n.targets[0].value) for n in walk_no_nested(fn.node)
              if isinstance(n, ast.Assign) and isinstance(
                  n.targets[0], ast.Attribute)
              and n.targets[0].attr == "nodal_dofs" and isinstance(
                  n.value, ast.Constant) and n.value.value == 0
              and isinstance(n.targets[0].value, ast.Name)}
    if len(zeroed) != 1:
        raise AnalysisError(f"Element.condensed: interior copy not "
                            f"identified ({sorted(zeroed)})")
    ei = zeroed.pop()
    local = {n.targets[0].id: n.value for n in walk_no_nested(fn.node)
             if isinstance(n, ast.Assign) and isinstance(
                 n.targets[0], ast.Name)}

    def inline(e):
        t = src(e)
        if isinstance(e, ast.Name) and e.id in local:
            return inline(local[e.id])
        if isinstance(e, ast.Call) and src(e.func) == "int" and e.args:
            return inline(e.args[0])
        return t
    shifts = [n for g in ast.walk(fn.node) if isinstance(g, ast.FunctionDef)
              and g is not fn.node for n in ast.walk(g)
              if isinstance(n, ast.BinOp) and isinstance(n.op, ast.Add)
              and isinstance(n.left, ast.Name) and n.left.id == "i"]
    if len(shifts) != 1:
        raise AnalysisError("Element.condensed: index shift of the interior "
                            "gbasis not found")
    shift = inline(shifts[0].right)
    stores = {n.targets[0].attr: n for n in walk_no_nested(fn.node)
              if isinstance(n, ast.Assign) and isinstance(
                  n.targets[0], ast.Attribute)
              and src(n.targets[0].value) == ei}

    def lower_of(n, table):
        v = n.value
        if isinstance(v, ast.Subscript) and src(v.value) == f"self.{table}" \
                and isinstance(v.slice, ast.Slice) and v.slice.upper is None \
                and v.slice.lower is not None:
            return v.slice.lower
        return None
    d = stores.get("doflocs")
    lo = lower_of(d, "doflocs") if d is not None else None
    _ok = lo is not None and inline(lo) == shift
    cons = "Element.condensed:doflocs"
    if _ok:
        rep.ok(R5, cons, f"the interior part takes the rows of doflocs from "
               f"{shift} on: the shift of its gbasis")
    else:
        rep.fail(R5, fn.path, "Element.condensed", cons,
                 f"the interior part serves function i + {shift} under local "
                 f"index i but "
                 f"{'keeps the whole location table' if d is None else 'takes ' + src(d.value)[:50]}"
                 f": Basis(mesh, ei).doflocs lists vertex (edge, facet) "
                 f"locations for the interior DOFs", (d or fn).lineno)
    d = stores.get("dofnames")
    lo = lower_of(d, "dofnames") if d is not None else None
    attrs = sorted(x.attr for x in ast.walk(lo) if isinstance(
        x, ast.Attribute) and src(x.value) == "self") if lo is not None \
        else []
    plain = lo is not None and all(isinstance(
        x, (ast.BinOp, ast.Add, ast.Attribute, ast.Name, ast.Load))
        for x in ast.walk(lo))
    cons = "Element.condensed:dofnames"
    if plain and attrs == ["edge_dofs", "facet_dofs", "nodal_dofs"]:
        rep.ok(R5, cons, "the interior part drops the names of the vertex, "
               "edge and facet DOFs")
    else:
        rep.fail(R5, fn.path, "Element.condensed", cons,
                 f"the interior part "
                 f"{'keeps the whole list of DOF names' if d is None else 'takes ' + src(d.value)[:50]}"
                 f": its interior DOFs carry the names of vertex DOFs "
                 f"(get_dofs(...).all('NA') finds nothing)",
                 (d or fn).lineno)
    # the outer part (interior count zeroed) of a vector element: its
    # wrapped element is the outer part of the wrapped element (the
    # composite branch zeroes the interior counts of its components, whose
    # outer functions come first anyway)
    eo_names = {src(n.targets[0].value) for n in walk_no_nested(fn.node)
                if isinstance(n, ast.Assign) and isinstance(
                    n.targets[0], ast.Attribute)
                and n.targets[0].attr == "interior_dofs" and isinstance(
                    n.value, ast.Constant) and n.value.value == 0
                and isinstance(n.targets[0].value, ast.Name)}
    if len(eo_names) != 1:
        raise AnalysisError("Element.condensed: outer copy not identified")
    eo = eo_names.pop()
    d = [n for n in walk_no_nested(fn.node) if isinstance(n, ast.Assign)
         and src(n.targets[0]) == f"{eo}.elem"]
    oke = bool(d) and any(
        isinstance(x, ast.Subscript) and isinstance(x.value, ast.Call)
        and isinstance(x.value.func, ast.Attribute)
        and x.value.func.attr == "condensed" and src(x.slice) == "1"
        for x in ast.walk(d[0].value))
    cons = "Element.condensed:components[outer elem]"
    if oke:
        rep.ok(R5, cons, f"{eo}.elem is the outer part of the wrapped "
                         f"element")
    else:
        rep.fail(R5, fn.path, "Element.condensed", cons,
                 f"the outer part of a vector element keeps the whole "
                 f"wrapped element (interior DOFs included): "
                 f"Basis(m, eo).split(x) pairs 9 coefficients with a "
                 f"component basis of 17 DOFs (ElementVector("
                 f"ElementTriMini()))", (d[0] if d else fn).lineno)
    d = [n for n in walk_no_nested(fn.node) if isinstance(n, ast.Assign)
         and src(n.targets[0]) == f"{eo}.elems"]
    okc_ = bool(d) and any(
        isinstance(x, ast.Subscript) and isinstance(x.value, ast.Call)
        and isinstance(x.value.func, ast.Attribute)
        and x.value.func.attr == "condensed" and src(x.slice) == "1"
        for x in ast.walk(d[0].value))
    cons = "Element.condensed:components[outer elems]"
    if okc_:
        rep.ok(R5, cons, f"{eo}.elems are the outer parts of the components")
    else:
        rep.fail(R5, fn.path, "Element.condensed", cons,
                 f"the components of the outer part of a composite element "
                 f"only get their interior count zeroed: a component that "
                 f"is itself a wrapper (ElementVector(ElementTriMini()) * "
                 f"ElementTriP1(), the MINI Stokes pair) still wraps the "
                 f"full element, and splitting its part of the solution "
                 f"pairs 25 coefficients with a basis of 57 DOFs",
                 (d[0] if d else fn).lineno)
    for attr, what in (("elems", "tuple of the components' interior parts"),
                       ("elem", "interior part of the wrapped element")):
        d = stores.get(attr)
        cons = f"Element.condensed:components[{attr}]"
        okc = d is not None and any(
            isinstance(x, ast.Subscript) and isinstance(x.value, ast.Call)
            and isinstance(x.value.func, ast.Attribute)
            and x.value.func.attr == "condensed" and src(x.slice) == "0"
            for x in ast.walk(d.value))
        if okc:
            rep.ok(R5, cons, f"{ei}.{attr} is the {what}")
        else:
            rep.fail(R5, fn.path, "Element.condensed", cons,
                     f"the components ({attr}) of the interior part are "
                     f"copies with zeroed counts, not the interior parts of "
                     f"the components: used on their own (Basis.split) "
                     f"their function 0 is a vertex function, not the first "
                     f"interior one", (d or fn).lineno)


def _missing_neighbour(model, rep):
    """f2t marks the missing second neighbour of an exterior facet by -1.
    FacetBasis takes the cells of its facets from f2t[side, find] and then
    uses them as indices (invF, gbasis, element_dofs[:, tind]), where NumPy
    reads -1 as 'the last cell': side=1 of an exterior facet integrates the
    facet into the last cell of the mesh - matrix entries between DOFs that
    share no integrated cell.  The sentinel must be tested before the cells
    are used."""
    R7 = "C04-R7"
    fn = model.func("skfem.assembly.basis.facet_basis", "FacetBasis.__init__")
    reads = [n for n in ast.walk(fn.node) if isinstance(n, ast.Assign)
             and src(n.targets[0]) == "self.tind" and "f2t" in src(n.value)]
    if not reads:
        raise AnalysisError("FacetBasis.__init__: cells of the facets not "
                            "taken from f2t")
    tested = any(
        isinstance(n, ast.If) and any(
            isinstance(c, ast.Compare) and "self.tind" in src(c.left)
            and isinstance(c.ops[0], (ast.Lt, ast.Eq, ast.LtE))
            for c in ast.walk(n.test)) and any(
            isinstance(x, (ast.Raise, ast.Assign)) for x in ast.walk(n))
        for n in ast.walk(fn.node))
    cons = "FacetBasis.__init__:missing-neighbour"
    if tested:
        rep.ok(R7, cons, "the -1 of f2t is tested before the cells are used "
               "as indices")
    else:
        rep.fail(R7, fn.path, "FacetBasis.__init__", cons,
                 "self.tind = f2t[side, find] is used as a cell index "
                 "without a test for the sentinel -1: FacetBasis(m, e, "
                 "side=1) on the boundary facets integrates every facet "
                 "into the last cell of the mesh (nonzero entries only on "
                 "the DOFs of a strictly interior cell), silently",
                 reads[0].lineno)


class _IntVec:
    """1-D integer vector with the few numpy operations _deduce_bfun uses:
    ``v == j`` (mask), ``v.copy()``, ``v[mask] = seq`` and ``v[i]``."""

    def __init__(self, vals):
        self.vals = list(vals)

    def skv_compare(self, op, other):
        if isinstance(op, ast.Eq) and isinstance(other, (int, Fraction)):
            return _IntVec([bool(v == other) for v in self.vals])
        raise Unsupported("vector comparison")

    def skv_getattr(self, name):
        if name == "copy":
            return PyFunc(lambda a, k, n: _IntVec(self.vals))
        if name == "shape":
            return (len(self.vals),)
        raise Unsupported(f"vector attribute {name}")

    def skv_getitem(self, ix):
        if isinstance(ix, Fraction):
            ix = int(ix)
        if isinstance(ix, int):
            return self.vals[ix]
        if isinstance(ix, _IntVec):
            return _IntVec([v for v, m in zip(self.vals, ix.vals) if m])
        if isinstance(ix, slice):
            return _IntVec(self.vals[ix])
        raise Unsupported("vector index")

    def skv_setitem(self, ix, v):
        if isinstance(ix, _IntVec) and all(isinstance(m, bool)
                                           for m in ix.vals):
            src_ = v.vals if isinstance(v, _IntVec) else list(v)
            pos = [i for i, m in enumerate(ix.vals) if m]
            if len(pos) != len(src_):
                raise Raised("boolean index assignment of wrong length")
            for i, x in zip(pos, src_):
                self.vals[i] = x
            return
        raise Unsupported("vector store")

    def skv_len(self):
        return len(self.vals)


def _r6(model, rep, dofs_order):
    """The composite element's local index -> (component, local index of
    the component) map, interpreted for concrete count vectors, against the
    row order of Dofs.element_dofs."""
    R6 = "C04-R6"
    cc = model.cls("skfem.element.element_composite", "ElementComposite")
    ec = model.cls("skfem.element.element", "Element")
    fn = cc.find_method("_deduce_bfun")
    if fn is None:
        raise AnalysisError("ElementComposite._deduce_bfun not found")

    def hook(interp, name, args, kwargs, node):
        if name == "numpy.array" and args and isinstance(args[0], list) \
                and all(isinstance(x, int) for x in args[0]):
            return _IntVec(args[0])
        if name == "numpy.array" and args and isinstance(args[0], list) \
                and args[0] and all(isinstance(x, _IntVec) for x in args[0]):
            return Arr([list(x.vals) for x in args[0]])
        if name == "numpy.sum" and args and isinstance(args[0], _IntVec) \
                and not kwargs and len(args) == 1:
            return sum(int(v) for v in args[0].vals)
        if name == "numpy.arange" and len(args) == 1 and \
                isinstance(args[0], int):
            return _IntVec(range(args[0]))
        return NotImplemented

    ents = {"tet-like": {"nodal": 4, "edge": 6, "facet": 4, "interior": 1},
            "hex-like": {"nodal": 8, "edge": 12, "facet": 6, "interior": 1}}
    attr = {"nodal": "nnodes", "edge": "nedges", "facet": "nfacets"}
    configs = [((1, 0, 2, 1), (0, 1, 1, 2)),
               ((0, 2, 0, 0), (0, 0, 1, 0)),
               ((1, 1, 0, 0), (1, 0, 1, 1), (0, 1, 2, 0)),
               ((1, 0, 0, 0), (1, 0, 0, 0)),
               ((0, 0, 0, 3), (2, 0, 0, 0))]
    for rname, nent in ents.items():
        rd = Obj(None, {attr[k]: nent[k] for k in attr})
        for cfg in configs:
            comps = [dict(zip(KINDS, c)) for c in cfg]
            elems = tuple(Obj(ec, {**{k + "_dofs": c[k] for k in KINDS},
                                   "refdom": rd}) for c in comps)
            comp = Obj(cc, {"elems": elems})
            # expected: rows of element_dofs in the order Dofs stacks them;
            # each component's own local index runs through the same order
            expected = []
            for kind in dofs_order:
                for e in range(nent[kind]):
                    for j, c in enumerate(comps):
                        off = sum(c[k2] * nent[k2] for k2 in
                                  dofs_order[:dofs_order.index(kind)])
                        for k in range(c[kind]):
                            expected.append((j, off + e * c[kind] + k))
            cons = (f"_deduce_bfun[{rname}|" +
                    "*".join("".join(map(str, c)) for c in cfg) + "]")
            bad = None
            try:
                for i, exp in enumerate(expected):
                    it = Interp(model, call_hook=hook)
                    got = it.call(fn, [i], {}, self_obj=comp)
                    got = tuple(int(x) for x in got)
                    if got != exp:
                        bad = (i, got, exp)
                        break
            except (Unsupported, Raised) as e:
                raise AnalysisError(f"ElementComposite._deduce_bfun outside "
                                    f"grammar: {e}")
            if bad is None:
                rep.ok(R6, cons, f"{len(expected)} local indices map to the "
                       f"component function attached to the same entity as "
                       f"the row of element_dofs",
                       sample=(cfg is configs[0] and rname == "tet-like"))
            else:
                i, got, exp = bad
                # which entity does row i / function got belong to?
                rep.fail(R6, fn.path, "ElementComposite._deduce_bfun", cons,
                         f"local index {i} (row {i} of element_dofs, stacked "
                         f"{'-'.join(dofs_order)}) is served by function "
                         f"{got[1]} of component {got[0]}; the DOF numbered "
                         f"in that row belongs to function {exp[1]} of "
                         f"component {exp[0]}: basis functions and DOF "
                         f"numbers are attached to different entities",
                         fn.lineno)


def _r7(model, rep):
    """Every basis numbers its DOFs with a Dofs object built for *its own*
    mesh and element (or the one the caller supplies).  A numbering taken
    from somewhere else (a cache on the mesh, another basis) is right only
    while the element's DOF counts happen to agree - for an element that
    declares other counts (the *DG variants of the mesh's own element) the
    basis silently gets the continuous numbering.  Symbolic run of
    AbstractBasis.__init__ with an element that IS an instance of the
    mesh's element class."""
    R7 = "C04-R7"
    bcls = model.cls("skfem.assembly.basis.abstract_basis", "AbstractBasis")
    ecls = model.cls("skfem.element.element", "Element")
    fn = bcls.methods["__init__"]
    made = []

    def hook(interp, name, args, kwargs, node):
        if name.endswith(".Dofs"):
            o = Obj(None, {"element_dofs": _Shaped((3, Poly.sym("nt"))),
                           "N": Poly.sym("N")})
            made.append((o, list(args), dict(kwargs)))
            return o
        return NotImplemented

    class _Shaped:
        def __init__(self, shape):
            self.shape = shape

        def skv_getattr(self, name):
            if name == "shape":
                return self.shape
            raise Unsupported("table." + name)
    refdom = ClassRefdom = object()
    for given in (False, True):
        made.clear()
        elem = Obj(ecls, {"refdom": "RD", "maxdeg": 1, "doflocs": None})
        mesh_dofs = Obj(None, {"element_dofs": _Shaped((3, Poly.sym("nt"))),
                               "N": Poly.sym("Nmesh")})
        mesh = Obj(None, {"refdom": "RD", "elem": ClassRef(ecls),
                          "dofs": mesh_dofs,
                          "_mapping": PyFunc(lambda a, k, n: "MAP")})
        supplied = Obj(None, {"element_dofs": _Shaped((3, Poly.sym("nt"))),
                              "N": Poly.sym("Ngiven")})
        obj = Obj(bcls, {})
        kw = {"disable_doflocs": True, "quadrature": ("X", "W")}
        if given:
            kw["dofs"] = supplied
        try:
            Interp(model, call_hook=hook).call(fn, [mesh, elem], kw,
                                               self_obj=obj)
        except (Unsupported, Raised) as e:
            raise AnalysisError(f"AbstractBasis.__init__: {e}")
        got = obj.attrs.get("dofs")
        cons = f"AbstractBasis.__init__:dofs[{'given' if given else 'default'}]"
        if given:
            ok = got is supplied and not made
            want = "the Dofs object the caller supplied"
        else:
            ok = len(made) == 1 and got is made[0][0] and \
                made[0][1][:2] == [mesh, elem]
            want = "a new Dofs(mesh, elem) for this mesh and this element"
        if ok:
            rep.ok(R7, cons, f"the basis numbers its DOFs with {want}")
        else:
            src_ = "mesh.dofs" if got is mesh_dofs else repr(got)
            rep.fail(R7, fn.path, "AbstractBasis.__init__", cons,
                     f"the basis takes its numbering from {src_} instead of "
                     f"{want}: an element that is an instance of the mesh's "
                     f"element class but declares other DOF counts "
                     f"(ElementTriP1DG on a MeshTri) gets the continuous "
                     f"vertex numbering - N too small, DOFs shared between "
                     f"cells that share no entity of the element",
                     fn.lineno)


def run(model: Model, rep, tier: str) -> None:
    rep.rule("C04-R1", "one entity-kind order per convention: local basis "
             "order and dofnames order, agreed by all readers and writers")
    rep.rule("C04-R2", "block arithmetic: arange length == reshape extents "
             "== offset increment; blocks chained gap-free")
    rep.rule("C04-R3", "blocks gathered through the table of their kind "
             "over all slots; numbered iff gathered; interior last")
    rep.rule("C04-R4", "DOF locations scattered with the same local index "
             "on both sides")
    rep.rule("C04-R5", "literal doflocs / dofnames coherent with the DOF "
             "counts and the Refdom entities")
    rep.rule("C04-R6", "composite elements: local index i is served by the "
             "component function on the entity that row i of element_dofs "
             "numbers")
    order = _r23(model, rep)
    _r1(model, rep, order)
    _r4(model, rep)
    _r5(model, rep)
    _condensed_tables(model, rep)
    _r6(model, rep, tuple(order))
    rep.rule("C04-R7", "a basis numbers its DOFs with a Dofs object built "
             "for its own mesh and element, or the one supplied")
    _r7(model, rep)
    _missing_neighbour(model, rep)
    rep.require_min("C04-R6", 10)
    rep.require_min("C04-R1", 10)
    rep.require_min("C04-R2", 40)
    rep.require_min("C04-R3", 90)
    rep.require_min("C04-R5", 60)


_D = "skfem/assembly/dofs.py"
_EC = "skfem/element/element_composite.py"
_EDGE_BLK = """        if counts[1] > 0:
            tmp = sum([[j] * self.elems[j].edge_dofs
                       for j in range(len(self.elems))], [])
            ns += sum([tmp for j in range(int(counts[1] / len(tmp)))], [])
"""
_FACET_BLK = """        if counts[2] > 0:
            tmp = sum([[j] * self.elems[j].facet_dofs
                       for j in range(len(self.elems))], [])
            ns += sum([tmp for j in range(int(counts[2] / len(tmp)))], [])
"""
MUTANTS = [
    ("facet basis uses the missing-neighbour sentinel as a cell index",
     ("skfem/assembly/basis/facet_basis.py",
      "        if (self.tind < 0).any():", "        if False:"), "C04-R7"),
    ("DG wrapper lists facet names before edge names again",
     ("skfem/element/element_dg.py",
      "            + elem.refdom.nedges * elem.dofnames[slice((elem.nodal_dofs"
      "\n                                                        + "
      "elem.facet_dofs),\n                                                "
      "       (elem.nodal_dofs\n                                          "
      "              + elem.facet_dofs\n                                   "
      "                     + elem.edge_dofs))]\n", ""), "C04-R1"),
    ("interior part of a condensed element keeps the whole location table",
     ("skfem/element/element.py",
      "            ei.doflocs = self.doflocs[self._bfun_counts()[:3].sum():]",
      "            ei.doflocs = self.doflocs"), "C04-R5"),
    ("interior part of a condensed element drops the vertex names only",
     ("skfem/element/element.py",
      "        ei.dofnames = self.dofnames[(self.nodal_dofs\n"
      "                                     + self.facet_dofs\n"
      "                                     + self.edge_dofs):]",
      "        ei.dofnames = self.dofnames[self.nodal_dofs:]"), "C04-R5"),
    ("tetrahedral Raviart-Thomas DOFs located at edge midpoints",
     ("skfem/element/element_tet/element_tet_rt1.py",
      "    doflocs = np.array([[1 / 3, 1 / 3, .0],\n"
      "                        [1 / 3, .0, 1 / 3],",
      "    doflocs = np.array([[.5, .5, .0],\n"
      "                        [.5, .0, .5],"), "C04-R5"),
    ("Crouzeix-Raviart triangle DOF off the edge midpoint",
     ("skfem/element/element_tri/element_tri_cr.py",
      "    doflocs = np.array([[.5, 0.],", "    doflocs = np.array([[.25, 0.],"),
     "C04-R5"),
    ("edge DOFs exist when the element has three components",
     ("skfem/assembly/dofs.py",
      "        if topo.dim() == 3 and element.edge_dofs > 0:\n"
      "            self.edge_dofs = np.reshape(",
      "        if element.dim == 3 and element.edge_dofs > 0:\n"
      "            self.edge_dofs = np.reshape("), "C04-R2"),
    ("basis reuses the mesh's cached numbering for instances of its "
     "element class",
     ("skfem/assembly/basis/abstract_basis.py",
      "        self.dofs = Dofs(mesh, elem) if dofs is None else dofs\n",
      "        if dofs is None:\n            dofs = (mesh.dofs if "
      "isinstance(elem, mesh.elem)\n                    else Dofs(mesh, "
      "elem))\n        self.dofs = dofs\n"), "C04-R7"),
    ("composite serves facet functions before edge functions",
     (_EC, _EDGE_BLK + _FACET_BLK, _FACET_BLK + _EDGE_BLK), "C04-R6"),
    ("composite component-local index sequence reversed",
     (_EC, "            seq = np.arange(total, dtype=np.int_)\n",
      "            seq = np.arange(total, dtype=np.int_)\n"
      "            seq = seq[::-1]\n"), None),
    ("offset advanced by the wrong entity count",
     (_D, "            offset += element.edge_dofs * topo.nedges",
      "            offset += element.edge_dofs * topo.nfacets"), "C04-R2"),
    ("facet block reshaped with the edge count",
     (_D, "                (element.facet_dofs, topo.nfacets),",
      "                (element.facet_dofs, topo.nedges),"), "C04-R2"),
    ("nodal block does not advance the offset",
     (_D, "        offset += element.nodal_dofs * topo.nvertices\n", ""),
     "C04-R2"),
    ("facet rows gathered through the edge table",
     (_D, "                    self.facet_dofs[:, topo.t2f[itr]]",
      "                    self.facet_dofs[:, topo.t2e[itr]]"), "C04-R3"),
    ("last local vertex not gathered",
     (_D, "        for itr in range(topo.t.shape[0]):",
      "        for itr in range(topo.t.shape[0] - 1):"), "C04-R3"),
    ("facet block numbered in 1-D again (guard mismatch)",
     (_D, "        if topo.dim() >= 2 and element.facet_dofs > 0:\n"
      "            self.facet_dofs = np.reshape(",
      "        if element.facet_dofs > 0:\n"
      "            self.facet_dofs = np.reshape("), "C04-R3"),
    ("edge rows stacked after facet rows",
     (_D, "        # edge dofs\n        if topo.dim() == 3 and "
      "element.edge_dofs > 0:\n            for itr in range("
      "topo.t2e.shape[0]):\n                self.element_dofs = np.vstack((\n"
      "                    self.element_dofs,\n                    "
      "self.edge_dofs[:, topo.t2e[itr]]\n                ))\n\n", ""),
     "C04-R3"),
    ("_bfun_counts lists facets before edges",
     ("skfem/element/element.py",
      "                         self.edge_dofs * self.refdom.nedges,\n"
      "                         self.facet_dofs * self.refdom.nfacets,",
      "                         self.facet_dofs * self.refdom.nfacets,\n"
      "                         self.edge_dofs * self.refdom.nedges,"),
     "C04-R1"),
    ("ElementDG names in edge-facet order",
     ("skfem/element/element_dg.py",
      "            + elem.refdom.nfacets * elem.dofnames[slice("
      "elem.nodal_dofs,\n                                                   "
      "     (elem.nodal_dofs\n                                               "
      "          + elem.facet_dofs))]",
      "            + elem.refdom.nfacets * elem.dofnames[slice("
      "elem.nodal_dofs + elem.edge_dofs,\n                                   "
      "                     (elem.nodal_dofs + elem.edge_dofs\n              "
      "                                           + elem.facet_dofs))]"),
     "C04-R1"),
    ("name lookup of edge rows forgets the facet names",
     (_D, "            if check(self.element.dofnames[i + n_nodal + n_facet],"
      " dofnames):", "            if check(self.element.dofnames[i + "
      "n_nodal], dofnames):"), "C04-R1"),
    ("ElementComposite names back in edge-facet order",
     ("skfem/element/element_composite.py",
      "        for i, e in enumerate(self.elems):  # facet\n"
      "            for j in range(e.nodal_dofs, e.nodal_dofs + e.facet_dofs):",
      "        for i, e in enumerate(self.elems):  # facet\n"
      "            for j in range(e.nodal_dofs + e.edge_dofs, e.nodal_dofs + "
      "e.edge_dofs + e.facet_dofs):"), "C04-R1"),
    ("doflocs scattered with mismatched local indices",
     ("skfem/assembly/basis/abstract_basis.py",
      "                            doflocs[itr, :, jtr]",
      "                            doflocs[itr, :, jtr - 1]"), "C04-R4"),
    ("a DOF location of ElementTriP2 moved to another edge",
     ("skfem/element/element_tri/element_tri_p2.py",
      "                        [.5, 0.],\n                        [.5, .5],",
      "                        [.5, .5],\n                        [.5, 0.],"),
     "C04-R5"),
    ("ElementTriP2 lists one DOF location too few",
     ("skfem/element/element_tri/element_tri_p2.py",
      "                        [0., .5]])", "                        ])"),
     "C04-R5"),
]
TWINS = [
    ("condensed element names the number of skeleton functions first",
     ("skfem/element/element.py",
      "            ei.doflocs = self.doflocs[self._bfun_counts()[:3].sum():]",
      "            ei.doflocs = self.doflocs[int(self._bfun_counts()[:3]"
      ".sum()):]")),
    ("a block numbered in C order (numbers stay gap-free and shared)",
     (_D, "            (element.facet_dofs, topo.nfacets),\n"
      "                order='F') + offset",
      "            (element.facet_dofs, topo.nfacets),\n"
      "                order='C') + offset")),
    ("offset increment written with commuted factors",
     (_D, "        offset += element.nodal_dofs * topo.nvertices\n",
      "        offset += topo.nvertices * element.nodal_dofs\n")),
]
