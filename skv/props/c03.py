"""C03 - global continuity in the sense of the element: canonical-frame
trace independence of the translated local bases, direction
canonicalisation (sorting), orientation conventions."""
from __future__ import annotations

import ast
from fractions import Fraction
from itertools import permutations
from typing import Any, Dict, List, Optional, Tuple

from ..elements import (COORDS, ElementInfo, as_poly, load_elements,
                        load_refdoms, RefdomInfo)
from ..interp import ClassRef, Arr, Interp, Obj, PyFunc, Raised, Unsupported
from ..model import staged, AnalysisError, Model, src, walk_no_nested
from ..poly import Poly

PID = "C03"
LEVEL = "other"
TECHNIQUE = ("canonical-frame trace identities: every local basis "
             "polynomial is restricted to every facet of the reference "
             "cell in the frame induced by every admissible ranking of the "
             "facet's vertices; the family's trace (value / weighted normal "
             "flux / covariant tangential components with the sign the "
             "source of orient() returns for that ranking) must be one "
             "polynomial per (entity, DOF row) key; structural rules for "
             "cell sorting and the H(div) orientation indicator")
LEVEL_TEXT = (
    "Decides, for every element class whose local basis is polynomial in "
    "the source (H1, H(div), H(curl); 1-D to 3-D): two cells sharing a "
    "facet see it in possibly different local slots and with different "
    "local vertex orders, but agree on the global rank of its vertices. "
    "(R1) For every facet slot k and every admissible ranking rho the "
    "trace of each local function attached to the closure of the facet, "
    "expressed in the rho-sorted frame and keyed by (entity kind, ranks of "
    "the entity's vertices, DOF row), is the same polynomial, and "
    "functions not attached to the closure have zero trace. With the DOF "
    "sharing of C04 this is exactly single-valuedness of every coefficient "
    "vector across every interior facet of every mesh the constructors "
    "accept. Admissible rankings: identity for triangles (cells are stored "
    "sorted: R2 checks the mechanism), all orders for tetrahedral faces and "
    "quadrilateral edges, the dihedral group for hexahedral faces. (R2) "
    "MeshTri1 sorts by default and Mesh.__post_init__ applies the sort "
    "first; an H1 element with several DOFs per facet on a cell type that "
    "is not sorted needs an orientation mechanism. (R3) ElementHdiv.orient "
    "is the indicator of being the neighbour in one fixed row of f2t and "
    "decodes the facet from the local index like the DOF stacking does. "
    "Not decided: continuity on concrete meshes, ElementGlobal (C1 / "
    "non-conforming) elements, ElementTriN3 (run-time index swaps in "
    "gbasis), second-order triangle meshes loaded unsorted.")
LEVEL_TEXT += (
    " Added after the seeding phase: triangle meshes with sorting switched "
    "off are in scope for elements with at most one DOF per facet (both "
    "vertex orders enumerated; orient() interpreted with the real "
    "reference-domain class); (R2) no library operation returns a mesh "
    "built with a literal sort_t=False unless that is what the operation "
    "is for (MeshSimplex.oriented).")
LEVEL_TEXT += (
    " Added in the hunting round (defects found by independent agents "
    "on the unchanged tree, DESIGN.md 9.4 / 9.6): "
    "every triangle mesh class (not only MeshTri1) must sort its cells "
    "by default - two open findings.")
LEVEL_NOTE = ("Trusted: the covariant / contravariant Piola maps of C09-R5 "
              "and the shared numbering of C04. The H(curl) sign is not "
              "hard-coded: orient() is interpreted for every ranking.")
EXPLANATION = ("Finite set of polynomial identities on the reference cell "
               "that is equivalent to conformity on all meshes.")
TRUSTED = ["C04 (a shared entity carries one shared number)",
           "C09-R5 (Piola maps)"]
ASSUMPTIONS = ["cells are affine or multilinear images of the reference "
               "cell with the listed vertex order"]

# continuity only in selected functionals (checked as nodality in C09-R2)
NONCONFORMING = {"ElementTriCR", "ElementTetCR"}
SKIP = {"ElementTriN3": "gbasis overridden with run-time index swaps"}


def _rankings(rd: RefdomInfo, k: int, all_ranks: bool = True,
              unsorted_tri: bool = False) -> List[Dict[int, int]]:
    """admissible rankings of the vertices of facet k (vertex -> rank).
    For quadrilateral faces only the induced frame matters unless the
    family has rank-dependent signs: ``all_ranks=False`` returns one
    ranking per frame (the dihedral 8)."""
    verts = list(dict.fromkeys(rd.facets[k]))
    if rd.name == "RefTri" and not unsorted_tri:
        # cells stored sorted: global rank order = local index order
        order = sorted(verts)
        return [{v: r for r, v in enumerate(order)}]
    out = []
    for perm in permutations(range(len(verts))):
        rk = {v: perm[i] for i, v in enumerate(verts)}
        if len(verts) == 4 and not all_ranks:
            # canonical representative: opposite vertex ranked last
            cyc = verts
            lo = min(cyc, key=lambda v: rk[v])
            opp = cyc[(cyc.index(lo) + 2) % 4]
            if rk[opp] != 3:
                continue
        out.append(rk)
    return out


def _positions(rd: RefdomInfo, k: int, rank: Dict[int, int]
               ) -> Dict[int, int]:
    """vertex -> position in the canonical frame.  Simplex facets: rank
    order.  Quadrilateral faces: origin 0, first / second frame neighbour
    1 / 2, opposite vertex 3 (the rank of the opposite vertex does not
    influence the frame, so ranks alone are not a canonical key)."""
    verts = list(dict.fromkeys(rd.facets[k]))
    if len(verts) != 4:
        order = sorted(verts, key=lambda v: rank[v])
        return {v: i for i, v in enumerate(order)}
    lo = min(verts, key=lambda v: rank[v])
    i = verts.index(lo)
    nb = sorted([verts[(i - 1) % 4], verts[(i + 1) % 4]],
                key=lambda v: rank[v])
    return {lo: 0, nb[0]: 1, nb[1]: 2, verts[(i + 2) % 4]: 3}


def _frame(rd: RefdomInfo, k: int, rank: Dict[int, int]):
    """canonical parametrisation of facet k under a ranking: origin and
    frame vectors (list), parameters"""
    verts = list(dict.fromkeys(rd.facets[k]))
    P = {v: rd.p[v] for v in verts}
    d = rd.dim
    if len(verts) == 1:
        return P[verts[0]], [], []
    if len(verts) in (2, 3):
        order = sorted(verts, key=lambda v: rank[v])
        o = P[order[0]]
        vecs = [tuple(P[v][i] - o[i] for i in range(d)) for v in order[1:]]
        return o, vecs, ["s", "t"][:len(vecs)]
    # quadrilateral face listed cyclically
    cyc = verts
    lo = min(cyc, key=lambda v: rank[v])
    i = cyc.index(lo)
    nb = [cyc[(i - 1) % 4], cyc[(i + 1) % 4]]
    nb.sort(key=lambda v: rank[v])
    o = P[lo]
    vecs = [tuple(P[v][j] - o[j] for j in range(d)) for v in nb]
    return o, vecs, ["s", "t"]


def _restrict(val, o, vecs, params):
    env = {}
    for dct in range(len(o)):
        p = Poly.const(o[dct])
        for vec, s in zip(vecs, params):
            p = p + Poly.sym(s) * vec[dct]
        env[COORDS[dct]] = p
    if isinstance(val, Arr):
        return [as_poly(x).subs(env) if isinstance(as_poly(x), Poly)
                else None for x in val.flat()]
    v = as_poly(val)
    if not isinstance(v, Poly):
        raise Unsupported("rational local basis")
    return [v.subs(env)]


def _outward_normal(rd: RefdomInfo, k: int):
    verts = list(dict.fromkeys(rd.facets[k]))
    P = [rd.p[v] for v in verts]
    d = rd.dim
    if d == 1:
        n = [Fraction(1)]
    elif d == 2:
        a = [P[1][i] - P[0][i] for i in range(2)]
        n = [a[1], -a[0]]
    else:
        a = [P[1][i] - P[0][i] for i in range(3)]
        b = [P[-1][i] - P[0][i] for i in range(3)]
        n = [a[1] * b[2] - a[2] * b[1], a[2] * b[0] - a[0] * b[2],
             a[0] * b[1] - a[1] * b[0]]
        if len(P) == 3:
            n = [x / 1 for x in n]
    c = [sum(p[i] for p in rd.p) / len(rd.p) for i in range(d)]
    fc = [sum(p[i] for p in P) / len(P) for i in range(d)]
    if sum(n[i] * (fc[i] - c[i]) for i in range(d)) < 0:
        n = [-x for x in n]
    return n


def _hcurl_sign(model, e: ElementInfo, i: int, rank_all: Dict[int, int]):
    """interpret the element's orient() for local index i under a ranking
    of the cell's vertices"""
    rd = e.refdom

    class TT:
        def skv_getitem(self, v):
            return rank_all[int(v)]

        def skv_getattr(self, name):
            if name == "shape":
                return (rd.nnodes, 1)
            raise Unsupported("t." + name)
    # the real reference-domain class, so that identity / equality tests
    # against RefTri etc. in orient() take the branch they take at run time
    refd = ClassRef(rd.cls)
    mesh = Obj(None, {"t": TT(), "refdom": refd,
                      "dim": PyFunc(lambda a, k, n: rd.dim)})
    mapping = Obj(None, {"mesh": mesh})
    obj = Obj(e.cls, {"refdom": refd})
    for k_, v in e.counts.items():
        obj.attrs[k_] = v

    def hook(interp, name, args, kwargs, node):
        if name == "numpy.ones":
            return 1
        return NotImplemented
    fn = e.cls.find_method("orient")
    try:
        r = Interp(model, call_hook=hook).call(fn, [mapping, i], {},
                                               self_obj=obj)
    except (Unsupported, Raised) as ex:
        raise AnalysisError(f"{e.name}.orient: {ex}")
    if isinstance(r, bool):
        r = int(r)
    if isinstance(r, Fraction) and r.denominator == 1:
        r = int(r)
    if r not in (1, -1):
        raise AnalysisError(f"{e.name}.orient returns {r!r} on the "
                            f"reference run")
    return r


def _entity_vertices(e: ElementInfo, i: int):
    rd = e.refdom
    kind, ent, row = e.entity_of(i)
    if kind == "vertex":
        return kind, [ent], row
    if kind == "edge":
        return kind, list(rd.edges[ent]), row
    if kind == "facet":
        return kind, list(dict.fromkeys(rd.facets[ent])), row
    return kind, None, row


def _trace_rule(model, rep, els, refdoms):
    R1 = "C03-R1"
    n_cls = 0
    for name in sorted(els):
        e = els[name]
        if e.basis is None or e.family not in ("h1", "hdiv", "hcurl"):
            continue
        if name in SKIP:
            rep.skip(f"{name}: {SKIP[name]}")
            continue
        if name in NONCONFORMING:
            rep.skip(f"{name}: non-conforming by design (continuity only "
                     f"in the facet functionals, see C09-R2)")
            continue
        rd = e.refdom
        if rd.facets is None:
            continue
        shared = sum(e.block_sizes()[:3])
        if shared == 0:
            continue                      # discontinuous element
        n_cls += 1
        lb = e.cls.find_method("lbasis")
        canon: Dict[tuple, Tuple[Any, str]] = {}
        problems: List[str] = []
        nonzero_unattached = None
        for k in range(rd.nfacets):
            fverts = set(rd.facets[k])
            N = _outward_normal(rd, k)
            # triangle meshes with sorting switched off by the caller are
            # outside the claim only for elements with several DOFs per
            # facet; with at most one, every vertex order is admissible
            fd = e.counts.get("facet_dofs")
            unsorted_tri = rd.name == "RefTri" and isinstance(fd, int) \
                and fd <= 1
            for rank in _rankings(rd, k, e.family == "hcurl", unsorted_tri):
                o, vecs, params = _frame(rd, k, rank)
                pos = _positions(rd, k, rank)
                # ranks for the remaining vertices (needed by orient only
                # through entities inside the facet): place them last
                rank_all = dict(rank)
                nxt = len(rank)
                for v in range(rd.nnodes):
                    if v not in rank_all:
                        rank_all[v] = nxt
                        nxt += 1
                where = f"facet {k}, ranks {[rank[v] for v in dict.fromkeys(rd.facets[k])]}"
                for i, bf in enumerate(e.basis):
                    comps = _restrict(bf[0], o, vecs, params)
                    if e.family == "h1":
                        tr = comps
                    elif e.family == "hdiv":
                        f = Poly()
                        for dct in range(rd.dim):
                            f = f + comps[dct] * N[dct]
                        tr = [f]
                    else:
                        tr = []
                        for vec in vecs:
                            f = Poly()
                            for dct in range(rd.dim):
                                f = f + comps[dct] * vec[dct]
                            tr.append(f)
                    kind, everts, row = _entity_vertices(e, i)
                    attached = everts is not None and set(everts) <= fverts
                    if not attached:
                        if any(not t.is_zero() for t in tr) and \
                                nonzero_unattached is None:
                            nonzero_unattached = (i, where, tr)
                        continue
                    if e.family == "hcurl":
                        sgn = _hcurl_sign(model, e, i, rank_all)
                        tr = [t * sgn for t in tr]
                    # facets of different shape (prism) never meet
                    key = (len(fverts), kind,
                           tuple(sorted(pos[v] for v in everts)), row)
                    if key not in canon:
                        canon[key] = (tr, f"local function {i} on {where}")
                    elif canon[key][0] != tr:
                        problems.append(
                            f"DOF {key}: local function {i} on {where} has "
                            f"trace {[str(t) for t in tr]}, but "
                            f"{canon[key][1]} has "
                            f"{[str(t) for t in canon[key][0]]}")
        cons = f"{name}:trace"
        path, line = lb.path, lb.lineno
        if nonzero_unattached:
            i, where, tr = nonzero_unattached
            rep.fail(R1, path, f"{name}.lbasis", f"{name}:unattached",
                     f"local function {i} is not attached to {where} or its "
                     f"sub-entities but its trace there is "
                     f"{[str(t) for t in tr]}: the neighbour cannot match "
                     f"it", line)
        if problems:
            rep.fail(R1, path, f"{name}.lbasis", cons,
                     f"{len(problems)} trace mismatch(es) between facet "
                     f"slots / vertex orders; first: {problems[0][:330]}",
                     line)
        elif not nonzero_unattached:
            rep.ok(R1, cons, f"{len(canon)} (entity, ranks, row) keys, one "
                   f"trace polynomial each over "
                   f"{sum(len(_rankings(rd, k, e.family == 'hcurl')) for k in range(rd.nfacets))}"
                   f" (facet, ranking) frames", sample=(name in (
                       "ElementTetN1", "ElementTriP3")))
    rep.units("conforming element classes analysed", n_cls)
    if n_cls < 30:
        raise AnalysisError(f"only {n_cls} conforming element classes "
                            f"analysed")


def _sorting_rule(model, rep, els):
    R2 = "C03-R2"
    tri = model.cls("skfem.mesh.mesh_tri_1", "MeshTri1")
    a = tri.find_attr("sort_t")
    ok = a is not None and a[0] is tri and src(a[1]) == "True"
    if ok:
        rep.ok(R2, "MeshTri1.sort_t", "triangle meshes sort their cells by "
               "default")
    else:
        rep.fail(R2, tri.path, "MeshTri1", "MeshTri1.sort_t",
                 "the default triangle mesh class no longer sorts its cells: "
                 "multi-DOF facets (P3, P4, RT2, BDM1, N2) are traversed in "
                 "opposite directions from the two sides", tri.node.lineno)
    # every other triangle mesh class hosts the same elements (P3, P4, RT2,
    # BDM1, N2, Argyris ... live on RefTri): it must sort by default too
    nsub = 0
    for c in model.all_classes():
        if c is tri or not c.path.startswith("skfem/mesh/") or \
                tri not in c.mro():
            continue
        nsub += 1
        a2 = c.find_attr("sort_t")
        sorts = a2 is not None and src(a2[1]) == "True"
        cons = f"{c.name}.sort_t"
        if sorts:
            rep.ok(R2, cons, "sorts its cells by default")
        else:
            rep.fail(R2, c.path, c.name, cons,
                     f"{c.name} is a triangle mesh class whose default is "
                     f"sort_t = {src(a2[1]) if a2 else '?'} (set in "
                     f"{a2[0].name if a2 else '?'}): a mesh built by its "
                     f"constructor from unsorted cells (a generator's "
                     f"counter-clockwise triangles, Mesh.load of triangle6 "
                     f"data) is never sorted, and the elements with several "
                     f"DOFs per facet or vertex-order-dependent normals (P3, "
                     f"P4, RT2, BDM1, N2, HHJ1, Argyris, Morley) are "
                     f"discontinuous on it", c.node.lineno)
    if nsub < 2:
        raise AnalysisError(f"only {nsub} subclasses of MeshTri1 found")
    mcls = model.cls("skfem.mesh.mesh", "Mesh")
    pi = mcls.methods.get("__post_init__")
    if pi is None:
        raise AnalysisError("Mesh.__post_init__ not found")
    first = [s for s in pi.node.body
             if not (isinstance(s, ast.Expr)
                     and isinstance(s.value, ast.Constant))]
    okp = bool(first) and isinstance(first[0], ast.If) and \
        src(first[0].test) == "self.sort_t" and any(
            isinstance(s, ast.Assign) and src(s.targets[0]) == "self.t"
            and isinstance(s.value, ast.Call)
            and src(s.value.func) == "np.sort"
            and src(s.value.args[0]) == "self.t"
            and any(k.arg == "axis" and src(k.value) == "0"
                    for k in s.value.keywords)
            for s in first[0].body)
    if okp:
        rep.ok(R2, "Mesh.__post_init__:sort", "under sort_t the cells are "
               "sorted along axis 0 before anything reads them")
    else:
        rep.fail(R2, mcls.path, "Mesh.__post_init__",
                 "Mesh.__post_init__:sort",
                 "the constructor does not sort the cells (np.sort(self.t, "
                 "axis=0) under sort_t) as its first action", pi.lineno)
    # the library itself never hands out a mesh with sorting switched off
    # unless that is what the operation is for
    from ..tags import unsorted_meshes
    EXPLICIT = {"MeshSimplex.oriented": "an oriented mesh cannot also be "
                "sorted: the caller asks for the orientation"}
    sites = unsorted_meshes(model)
    if not sites:
        raise AnalysisError("no sort_t=False construction found (MeshTri1."
                            "_adaptive builds a helper mesh that way)")
    for fn, call, esc in sites:
        cons = f"{fn.short()}:sort_t=False"
        if not esc:
            rep.ok(R2, cons, "helper mesh with sorting off never leaves the "
                   "function (or a later replace sets sort_t again)")
        elif fn.short() in EXPLICIT:
            rep.ok(R2, cons, "explicit request: " + EXPLICIT[fn.short()])
        else:
            rep.fail(R2, fn.path, fn.short(), cons,
                     "a mesh built with sort_t=False is returned (directly "
                     "or as the base of the returned mesh): the caller gets "
                     "a mesh - and every mesh derived from it - with "
                     "per-cell vertex sorting silently switched off, on "
                     "which elements with several DOFs per facet are "
                     "discontinuous", call.lineno)
    # H1 elements with several DOFs per facet on unsorted cell types
    for name, e in sorted(els.items()):
        if e.family != "h1" or e.refdom is None or \
                e.refdom.name not in ("RefQuad", "RefHex"):
            continue
        fd = e.counts.get("facet_dofs")
        ed = e.counts.get("edge_dofs")
        runtime = fd is None or ed is None
        # counts assigned from constructor parameters
        ini = e.cls.find_method("__init__")
        if ini is not None and ini.cls.name != "Element":
            for n_ in walk_no_nested(ini.node):
                if isinstance(n_, ast.Assign) and src(n_.targets[0]) in (
                        "self.facet_dofs", "self.edge_dofs") and not (
                        isinstance(n_.value, ast.Constant)
                        and n_.value.value in (0, 1)):
                    runtime = True
        multi = (fd or 0) > 1 or (ed or 0) > 1 or runtime
        if not multi:
            continue
        has_orient = "orient" in e.cls.methods or any(
            "orient" in c.methods and c.name not in ("Element",)
            for c in e.cls.mro())
        cons = f"{name}:facet-direction"
        if has_orient or e.basis is not None:
            rep.ok(R2, cons, "decided by the trace rule / has an "
                   "orientation mechanism")
        else:
            rep.fail(R2, e.cls.path, name, cons,
                     f"H1 element with a run-time number of DOFs per facet "
                     f"(facet_dofs is not a literal) on {e.refdom.name}, "
                     f"whose mesh class does not sort its cells, and no "
                     f"orientation mechanism: with >= 2 DOFs per facet the "
                     f"two neighbours traverse a shared facet in opposite "
                     f"directions and pair different functions with one "
                     f"DOF", e.cls.node.lineno)


def _hdiv_rule(model, rep, els):
    R3 = "C03-R3"
    c = model.cls("skfem.element.element_hdiv", "ElementHdiv")
    fn = c.methods["orient"]
    # the orientation depends on the mesh only through "is this cell the
    # first or the second neighbour of its local facet": interpreted on all
    # two-cell configurations (shared facet in slot a of cell 0 and slot b
    # of cell 1, either cell listed first), whole mesh and subsets
    from .. import nlite
    from ..nlite import NArr
    NF = 3
    bad = None
    ncfg = 0
    for a in range(NF):
        for b in range(NF):
            for first in (0, 1):
                ncfg += 1
                # facet 0 is shared; the others are boundary facets
                t2f = [[0, 0] for _ in range(NF)]
                nxt = 1
                for c_, slot in ((0, a), (1, b)):
                    for k in range(NF):
                        if k == slot:
                            t2f[k][c_] = 0
                        else:
                            t2f[k][c_] = nxt
                            nxt += 1
                f2t = [[0] * nxt, [-1] * nxt]
                f2t[0][0], f2t[1][0] = first, 1 - first
                for c_ in (0, 1):
                    for k in range(NF):
                        f = t2f[k][c_]
                        if f != 0:
                            f2t[0][f] = c_
                mesh = Obj(None, {"t": NArr([[0, 1], [1, 2], [2, 3]]),
                                  "t2f": NArr(t2f), "f2t": NArr(f2t)})
                mapping = Obj(None, {"mesh": mesh})
                obj = Obj(c, {"facet_dofs": 2,
                              "refdom": Obj(None, {"nfacets": NF})})
                res = {}
                for slot in range(NF):
                    for row in range(2):
                        i = 2 * slot + row
                        try:
                            r = Interp(model, call_hook=nlite.hook).call(
                                fn, [mapping, i], {}, self_obj=obj)
                        except (Unsupported, Raised) as ex:
                            raise AnalysisError(f"ElementHdiv.orient: {ex}")
                        res[i] = [int(x) for x in r.data]
                sa = {res[2 * a + row][0] for row in range(2)}
                sb = {res[2 * b + row][1] for row in range(2)}
                allpm = all(v in (1, -1) for vs in res.values() for v in vs)
                if not (allpm and len(sa) == 1 and len(sb) == 1
                        and sa != sb) and bad is None:
                    bad = (a, b, first, sorted(sa), sorted(sb))
                # a subset of cells gets the same signs, in subset order
                try:
                    r = Interp(model, call_hook=nlite.hook).call(
                        fn, [mapping, 2 * a], {"tind": NArr([1, 0])},
                        self_obj=obj)
                except (Unsupported, Raised) as ex:
                    raise AnalysisError(f"ElementHdiv.orient(tind): {ex}")
                if [int(x) for x in r.data] != res[2 * a][::-1] and \
                        bad is None:
                    bad = (a, b, first, "subset", [int(x) for x in r.data])
                # interior functions: +1
                try:
                    r = Interp(model, call_hook=nlite.hook).call(
                        fn, [mapping, 2 * NF], {}, self_obj=obj)
                except (Unsupported, Raised) as ex:
                    raise AnalysisError(f"ElementHdiv.orient(interior): "
                                        f"{ex}")
                if [int(x) for x in r.data] != [1, 1] and bad is None:
                    bad = (a, b, first, "interior", [int(x) for x in r.data])
    if bad is None:
        rep.ok(R3, "ElementHdiv.orient:indicator",
               f"{ncfg} two-cell configurations: the two cells at a shared "
               f"facet get opposite signs +-1 for every function on that "
               f"facet, subsets follow, interior functions get +1")
    else:
        rep.fail(R3, c.path, "ElementHdiv.orient",
                 "ElementHdiv.orient:indicator",
                 f"shared facet in slot {bad[0]} of cell 0 and slot {bad[1]} "
                 f"of cell 1 (cell {bad[2]} listed first in f2t): signs "
                 f"{bad[3]} / {bad[4]} - the two cells at a facet must get "
                 f"opposite signs +-1 (interior functions +1, subsets in "
                 f"subset order)", fn.lineno)
    # facet decoding agrees with the facet-major stacking for every H(div)
    # element
    dec = [n for n in walk_no_nested(fn.node) if isinstance(n, ast.Assign)
           and src(n.targets[0]) == "ix"]
    if len(dec) != 1:
        raise AnalysisError("ElementHdiv.orient: facet decoding not found")
    n_el = 0
    for name, e in sorted(els.items()):
        if e.family != "hdiv" or e.refdom is None or e.nbfun is None:
            continue
        fd = e.counts["facet_dofs"]
        if not fd:
            continue
        n_el += 1
        bad = None
        for i in range(fd * e.refdom.nfacets):
            try:
                v = Interp(model).eval(
                    dec[0].value, {"i": i, "self": Obj(None, {"facet_dofs":
                                                               fd})},
                    fn.module)
            except Unsupported as ex:
                raise AnalysisError(f"ElementHdiv.orient decode: {ex}")
            if v != e.entity_of(i)[1]:
                bad = (i, v, e.entity_of(i)[1])
                break
        cons = f"{name}:facet-of-local-index"
        if bad is None:
            rep.ok(R3, cons, f"local index i belongs to facet i // {fd}, as "
                   f"the DOF rows are stacked")
        else:
            rep.fail(R3, c.path, "ElementHdiv.orient", cons,
                     f"local index {bad[0]} is oriented by facet {bad[1]} "
                     f"but it is attached to facet {bad[2]}", fn.lineno)
    if n_el < 5:
        raise AnalysisError(f"{n_el} H(div) elements found")


def run(model: Model, rep, tier: str) -> None:
    rep.rule("C03-R1", "canonical-frame trace of every attached local "
             "function is one polynomial per (entity, ranks, row) over all "
             "facet slots and admissible vertex orders; unattached "
             "functions have zero trace")
    rep.rule("C03-R2", "triangles are sorted by default, first thing in the "
             "constructor; multi-DOF facets on unsorted cell types need an "
             "orientation mechanism")
    rep.rule("C03-R3", "H(div) orientation is a fixed-row indicator; facet "
             "decoding agrees with the DOF stacking")
    refdoms = load_refdoms(model)
    els = load_elements(model, refdoms)
    staged(lambda: _trace_rule(model, rep, els, refdoms),
           lambda: _sorting_rule(model, rep, els),
           lambda: _hdiv_rule(model, rep, els))
    rep.require_min("C03-R1", 30)
    rep.require_min("C03-R2", 2)
    rep.require_min("C03-R3", 7)


_E = "skfem/element/"
_TRI = "skfem/mesh/mesh_tri_1.py"
_RET = ("        return replace(\n            self,\n            "
        "doflocs=doflocs,\n            t=t,\n            _boundaries=None,")
MUTANTS = [
    ("H(curl) orientation skipped on every 2-D cell (assumes ascending "
     "edges)",
     ("skfem/element/element_hcurl.py",
      "        if mapping.mesh.dim() == 2 and ix >= self.refdom.nfacets:",
      "        if mapping.mesh.dim() == 2:"), "C03-R1"),
    ("adaptive refinement returns a mesh based on the unsorted helper",
     (_TRI, _RET, _RET.replace("            self,\n",
                               "            sorted_mesh,\n")), "C03-R2"),
    ("ElementTriRT1: one function negated",
     (_E + "element_tri/element_tri_rt1.py",
      "            phi = np.array([x - 1., y])\n            dphi = 2. + 0. "
      "* x", "            phi = np.array([1. - x, -y])\n            dphi = "
      "-2. + 0. * x"), "C03-R1"),
    ("ElementTetN1: one edge function negated",
     (_E + "element_tet/element_tet_n1.py",
      "            phi = np.array([-y, x, 0 * z])\n            dphi = "
      "np.array([0 * x,\n                             0 * x,\n"
      "                             2 + 0 * x])",
      "            phi = np.array([y, -x, 0 * z])\n            dphi = "
      "np.array([0 * x,\n                             0 * x,\n"
      "                             -2 + 0 * x])"), "C03-R1"),
    ("ElementQuadN1: sign repair reverted",
     (_E + "element_quad/element_quad_n1.py",
      "            phi = np.array([1.0 - y, nil])\n            dphi = "
      "np.ones_like(x)", "            phi = np.array([y - 1.0, nil])\n"
      "            dphi = -np.ones_like(x)"), "C03-R1"),
    ("ElementTriP2: an edge function attached to the wrong edge",
     (_E + "element_tri/element_tri_p2.py",
      "        elif i == 4:  # 1->2\n            phi = 4. * x * y\n"
      "            dphi = np.array([4. * y, 4. * x])\n        elif i == 5:  "
      "# 0->2\n            phi = 4. * y - 4. * x * y - 4. * y ** 2\n"
      "            dphi = np.array([-4. * y, 4 - 4. * x - 8. * y])",
      "        elif i == 5:  # 1->2\n            phi = 4. * x * y\n"
      "            dphi = np.array([4. * y, 4. * x])\n        elif i == 4:  "
      "# 0->2\n            phi = 4. * y - 4. * x * y - 4. * y ** 2\n"
      "            dphi = np.array([-4. * y, 4 - 4. * x - 8. * y])"),
     "C03-R1"),
    ("ElementHex1: two vertex functions exchanged",
     [(_E + "element_hex/element_hex1.py", "        if i == 0:",
       "        if i == 70:"),
      (_E + "element_hex/element_hex1.py", "        elif i == 7:",
       "        elif i == 0:"),
      (_E + "element_hex/element_hex1.py", "        if i == 70:",
       "        if i == 7:")], None),
    ("MeshTri1 no longer sorts its cells",
     ("skfem/mesh/mesh_tri_1.py", "    sort_t: bool = True\n",
      "    sort_t: bool = False\n"), "C03-R2"),
    ("the constructor sorts after converting (sort removed)",
     ("skfem/mesh/mesh.py", "        if self.sort_t:\n            self.t = "
      "np.sort(self.t, axis=0)\n", ""), "C03-R2"),
    ("the constructor sorts each row instead of each cell",
     ("skfem/mesh/mesh.py", "            self.t = np.sort(self.t, axis=0)\n",
      "            self.t = np.sort(self.t, axis=1)\n"), "C03-R2"),
    ("H(curl) orientation reads one edge reversed",
     (_E + "element_hcurl.py",
      "            t1, t2 = mapping.mesh.refdom.facets[ix]\n",
      "            t1, t2 = mapping.mesh.refdom.facets[ix][::(-1 if ix == 1 "
      "else 1)]\n"), "C03-R1"),
    ("H(curl) orientation divides by the wrong DOF count in 3-D",
     (_E + "element_hcurl.py",
      "        divide_by = (self.facet_dofs\n                     if "
      "mapping.mesh.dim() == 2\n                     else self.edge_dofs)",
      "        divide_by = (self.facet_dofs\n                     if "
      "mapping.mesh.dim() == 2\n                     else 2 * "
      "self.edge_dofs)"), "C03-R1"),
    ("H(div) orientation is +1 for both neighbours",
     (_E + "element_hdiv.py",
      "        ori = -1 + 2 * (mapping.mesh.f2t[0, mapping.mesh.t2f[ix]]\n"
      "                        == np.arange(mapping.mesh.t.shape[1]))",
      "        ori = 1 + 0 * (mapping.mesh.f2t[0, mapping.mesh.t2f[ix]]\n"
      "                       == np.arange(mapping.mesh.t.shape[1]))"),
     "C03-R3"),
    ("H(div) facet decoded with the wrong stride",
     (_E + "element_hdiv.py", "        ix = int(i / self.facet_dofs)\n",
      "        ix = int(i / (self.facet_dofs + 1))\n"), "C03-R3"),
    ("ElementTriP3: the two DOFs of one edge exchanged",
     [(_E + "element_tri/element_tri_p3.py", "        elif i == 3:",
       "        elif i == 40:"),
      (_E + "element_tri/element_tri_p3.py", "        elif i == 4:",
       "        elif i == 3:"),
      (_E + "element_tri/element_tri_p3.py", "        elif i == 40:",
       "        elif i == 4:")], None),
]
TWINS = [
    ("H(div) orientation spelled with np.where",
     ("skfem/element/element_hdiv.py",
      "        ori = -1 + 2 * (mapping.mesh.f2t[0, mapping.mesh.t2f[ix]]\n"
      "                        == np.arange(mapping.mesh.t.shape[1]))",
      "        first = mapping.mesh.f2t[0, mapping.mesh.t2f[ix]]\n"
      "        ori = 1 - 2 * (first != np.arange(mapping.mesh.t.shape[1]))")),
    ("adaptive refinement based on the helper with sorting restored",
     (_TRI, _RET, _RET.replace("            self,\n",
                               "            sorted_mesh,\n            "
                               "sort_t=self.sort_t,\n"))),
    ("H(curl) orientation with the comparison flipped (all cells flip "
     "consistently)",
     (_E + "element_hcurl.py",
      "        ori = 1 - 2 * (mapping.mesh.t[t1] > mapping.mesh.t[t2])",
      "        ori = 1 - 2 * (mapping.mesh.t[t1] < mapping.mesh.t[t2])")),
    ("H(div) orientation from the other neighbour row",
     (_E + "element_hdiv.py",
      "        ori = -1 + 2 * (mapping.mesh.f2t[0, mapping.mesh.t2f[ix]]",
      "        ori = -1 + 2 * (mapping.mesh.f2t[1, mapping.mesh.t2f[ix]]")),
    ("a vertex function rewritten algebraically",
     (_E + "element_hex/element_hex1.py",
      "            phi = x * y * (1 - z)\n", "            phi = x * y - x * "
      "y * z\n")),
]
