"""C01 - assembled matrix / vector / scalar represent the weak form: role
consistency and slot/layout agreement of every COO producer, interpolation
pairing, identical entry of parameters, COO consumer conventions."""
from __future__ import annotations

import ast
import re
from fractions import Fraction
from typing import Any, Dict, List, Optional, Tuple

from ..asm import (Block, Buf, DofRow, FieldTag, FlatBuf, IndexStack, NT, Run)
from ..interp import Arr, SymInt
from ..model import staged, AnalysisError, Model, src, walk_no_nested
from ..poly import Poly

PID = "C01"
LEVEL = "other"
TECHNIQUE = ("symbolic run of the five COO producers (abstract "
             "interpretation with symbolic local sizes and cell count, "
             "tagged basis functions / DOF rows) - role and slot/layout "
             "obligations as polynomial identities; structural pairing rules "
             "for interpolate, parameter normalisation and COO consumers")
LEVEL_TEXT = (
    "Decides the bookkeeping clauses of the property for every producer "
    "(bilinear serial and threaded, linear, trilinear, functional, "
    "autodiff): the flat slot of the local pair (trial j, test i) in data, "
    "rows and cols is the same polynomial in (nt, Nbfun_u, Nbfun_v); rows "
    "come from the test basis' DOF row i and columns from the trial basis' "
    "row j exactly when the integrand was called with trial function j "
    "first and test function i second; the integrand is multiplied by dx of "
    "one of the bases and summed over the quadrature axis only; global "
    "shapes list N in the order of the index rows; parameters enter every "
    "producer from the same two sources with the same precedence; "
    "interpolate pairs coefficient row i with basis function i for all i "
    "and all non-None fields. The numerical identity v^T A u = a(u_h, v_h) "
    "on concrete meshes and user integrands are not decided.")
LEVEL_TEXT += (
    " Added after the seeding phase: (R5) no function under skfem/assembly "
    "casts a value on the data path to a fixed real type or compares "
    "assembled values with an absolute constant (expected count zero; "
    "positive examples in the self-test); the COO consumers and "
    "interpolate are decided by symbolic runs.")
LEVEL_TEXT += (
    " Added in the hunting round (defects found by independent agents "
    "on the unchanged tree, DESIGN.md 9.4 / 9.6): "
    "dot accumulates in a vector with one entry per row in a common "
    "dtype; interpolate returns as many fields as the basis functions "
    "have components.")
LEVEL_TEXT += (
    " Added in the second hunting round (DESIGN.md 9.6): "
    "dense N-tensor conversion keeps the data type.")
LEVEL_NOTE = (
    "Trusted: scipy coo_matrix sums duplicates and takes (data, (row, "
    "col)); numpy flatten/zeros/sum semantics. Local sizes are symbolic in "
    "all arithmetic; loops are unrolled for the rectangular representative "
    "sizes (2,3), (3,2) (and (2,3,4) for the trilinear producer), which "
    "determine the affine slot maps uniquely.")
EXPLANATION = ("Symbolic producer runs + structural rules; no assembly is "
               "executed.")
TRUSTED = ["scipy.sparse.coo_matrix((data, (row, col)), shape) and duplicate "
           "summation", "numpy zeros/flatten/sum/array_split contracts"]
ASSUMPTIONS = ["trial and test bases integrate over the same cells (shared "
               "nt), which the quadrature guard partially enforces"]

FORMS = "skfem.assembly.form"


def _key(b: Block):
    return (b.base, b.stride, b.length)


def _form_tags(value: Poly) -> Tuple[List[str], Dict[str, int]]:
    """value = product of symbols; returns the tags of the form call and
    the exponents of the other factors."""
    if not isinstance(value, Poly) or len(value.t) != 1:
        raise AnalysisError(f"stored value {value!r} is not a single "
                            f"product term")
    (mono, coef), = value.t.items()
    tags, others = None, {}
    for s, e in mono:
        if s.startswith("form("):
            if tags is not None or e != 1:
                raise AnalysisError("integrand called more than once per "
                                    "slot")
            tags = s[5:-1].split(";")
        else:
            others[s] = e
    if tags is None:
        raise AnalysisError(f"stored value {value!r} does not contain the "
                            f"integrand")
    others["#coef"] = coef
    return tags, others


def _parse_tag(t: str) -> Optional[Tuple[str, str, int]]:
    m = re.match(r"(\w+)\.(\w+)\[(\d+)\]$", t)
    return (m.group(1), m.group(2), int(m.group(3))) if m else None


def check_tensor(rep, rule_role, rule_layout, name, path, line,
                 run: Run, result, order_roles: List[str],
                 expect_deriv: bool = False, negate: bool = False,
                 point_first: bool = False):
    """Common obligations for one returned (indices, data, shape, local)
    tuple.  ``order_roles``: bases in the order the integrand receives their
    functions (trial first)."""
    idx, data, shape, lshape = result
    if not isinstance(idx, IndexStack):
        raise AnalysisError(f"{name}: index array is not a stack of the "
                            f"index buffers")
    dblocks, neg = run.blocks(data)
    if neg != negate:
        rep.fail(rule_role, path, name, f"{name}:sign",
                 "the returned data is "
                 f"{'negated' if neg else 'not negated'} "
                 f"({'the residual must be returned with a minus sign' if negate else 'unexpected sign flip'})",
                 line)
    elif negate:
        rep.ok(rule_role, f"{name}:sign", "load vector returned negated "
               "(-residual)")
    iblocks = [dict((_key(b), b) for b in run.blocks(r)[0])
               for r in idx.rows]
    # ---- layout: every data block has an index block at the same flat
    #      positions in every index row
    nslots = 1
    for t in order_roles:
        nslots *= run.bases[t].Nbfun.value
    seen = {}
    bad_layout = 0
    for b in dblocks:
        if _key(b) in seen:
            rep.fail(rule_layout, path, name, f"{name}:slot-reuse",
                     f"two local index tuples are stored at the same flat "
                     f"slot {b.base}", line)
            bad_layout += 1
        seen[_key(b)] = b
    if len(dblocks) != nslots:
        rep.fail(rule_layout, path, name, f"{name}:slot-count",
                 f"{len(dblocks)} slots are written for {nslots} local index "
                 f"tuples", line)
        bad_layout += 1
    rep_env = {f"{t}.Nbfun": Poly.const(run.bases[t].Nbfun.value)
               for t in run.bases}
    bases_at = sorted((b.base.subs(rep_env) for b in dblocks),
                      key=lambda p: repr(p))
    want = sorted((NT * k for k in range(nslots)), key=lambda p: repr(p))
    for b in dblocks:
        if b.length != NT:
            rep.fail(rule_layout, path, name, f"{name}:slot-length",
                     f"a slot starting at {b.base} has length {b.length}; "
                     f"one entry per cell (nt) is stored there", line)
            bad_layout += 1
            break
    contiguous = all(b.stride == Poly.const(1) and b.length == NT
                     for b in dblocks)
    if contiguous and bases_at != want:
        rep.fail(rule_layout, path, name, f"{name}:coverage",
                 f"the slots do not tile [0, {nslots}*nt) without gaps or "
                 f"overlaps", line)
        bad_layout += 1
    n_ok = 0
    for b in dblocks:
        tags, others = _form_tags(b.value)
        ft = [_parse_tag(t) for t in tags if t != "w"]
        if any(f is None for f in ft):
            raise AnalysisError(f"{name}: integrand argument {tags}")
        local = [f for f in ft if f[1] == "basis"]
        # the integrand received the functions in the order of order_roles
        got_order = [f[0] for f in local]
        cons = f"{name}:slot[{','.join(str(f[2]) for f in local)}]"
        if point_first:
            pts = [f for f in ft if f[1] == "x"]
        if got_order != order_roles:
            rep.fail(rule_role, path, name, cons + ":argument-order",
                     f"the integrand is called with functions of "
                     f"{got_order}; the trial function(s) must come first: "
                     f"{order_roles}", line)
            continue
        if tags[-1] != "w":
            rep.fail(rule_role, path, name, cons + ":w",
                     "the parameter dictionary is not the last argument of "
                     "the integrand", line)
            continue
        # dx and reduction
        dxs = [s for s in others if s.startswith("dx[")]
        sums = {s: e for s, e in others.items() if s.startswith("SUM[")}
        extra = [s for s in others if not s.startswith(("dx[", "SUM[", "#"))
                 and not (expect_deriv and s == "D")]
        okdx = (len(dxs) == 1 and others[dxs[0]] == 1
                and dxs[0][3:-1] in run.bases)
        oksum = list(sums.items()) in ([("SUM[axis=1]", 1)],
                                       [("SUM[axis=-1]", 1)])
        okd = (others.get("D", 0) == 1) == expect_deriv
        if not okdx or not oksum or extra or others["#coef"] != 1 or not okd:
            rep.fail(rule_role, path, name, cons + ":quadrature",
                     f"slot value is {b.value}: the integrand must be "
                     f"multiplied once by dx of one of the bases and summed "
                     f"over the quadrature axis (last axis) only"
                     f"{', after linearisation' if expect_deriv else ''}",
                     line)
            continue
        # index rows: row k of the index stack must hold the DOF row of the
        # basis whose N is shape[k], for the same local index as in the call
        role_of = {f[0]: f[2] for f in local}
        okrow = True
        for k, ib in enumerate(iblocks):
            hit = ib.get(_key(b))
            if hit is None:
                rep.fail(rule_layout, path, name, cons + f":index[{k}]",
                         f"index row {k} has no entry at the flat positions "
                         f"of this slot ({b.base} + c*{b.stride}): data and "
                         f"indices are laid out differently", line)
                okrow = False
                bad_layout += 1
                continue
            v = hit.value
            if not isinstance(v, DofRow):
                raise AnalysisError(f"{name}: index value {v!r}")
            sh = shape[k] if k < len(shape) else None
            want_basis = None
            if isinstance(sh, Poly):
                syms = sh.symbols()
                if len(syms) == 1 and next(iter(syms)).endswith(".N"):
                    want_basis = next(iter(syms))[:-2]
            if want_basis is None:
                raise AnalysisError(f"{name}: global shape entry {sh!r}")
            if v.basis != want_basis:
                rep.fail(rule_role, path, name, cons + f":index[{k}]-basis",
                         f"index row {k} holds {v!r} but the global extent "
                         f"{k} is {want_basis}.N", line)
                okrow = False
            elif v.i != role_of.get(v.basis):
                rep.fail(rule_role, path, name, cons + f":index[{k}]-local",
                         f"index row {k} holds {v!r} while the integrand was "
                         f"evaluated with local function "
                         f"{role_of.get(v.basis)} of {v.basis}", line)
                okrow = False
        if okrow:
            n_ok += 1
            rep.ok(rule_role, cons,
                   f"value {b.value} at {b.base}+c; index rows "
                   f"{[repr(ib[_key(b)].value) for ib in iblocks]}",
                   sample=(n_ok == 2))
    # rows index test functions, columns trial functions (2-tensors)
    if len(iblocks) == 2 and len(order_roles) == 2:
        trial, test = order_roles
        r0 = {b.value.basis for b in iblocks[0].values()}
        r1 = {b.value.basis for b in iblocks[1].values()}
        cons = f"{name}:rows-test-cols-trial"
        if r0 == {test} and r1 == {trial}:
            rep.ok(rule_role, cons, f"indices[0] <- {test}.element_dofs "
                   f"(test), indices[1] <- {trial}.element_dofs (trial)")
        else:
            rep.fail(rule_role, path, name, cons,
                     f"indices[0] is filled from {sorted(r0)} and indices[1] "
                     f"from {sorted(r1)}: rows must index test functions "
                     f"({test}) and columns trial functions ({trial})", line)
    if bad_layout == 0:
        rep.ok(rule_layout, f"{name}:layout",
               f"{len(dblocks)} slots tile the flat arrays; data and all "
               f"{len(iblocks)} index rows use the same slot map "
               f"(e.g. {dblocks[-1].base} + c)")
    return dblocks


def _producer_file(model, cls_name):
    c = model.class_by_name(cls_name)
    return c.path, c.methods["_assemble"].lineno if "_assemble" in c.methods \
        else c.node.lineno


def _params_rule(rep, rule, name, path, line, run: Run, dx_basis=None):
    ev = [(e[0], e[1]) for e in run.events if e[0] in ("defaults", "kwargs")]
    par = [e for e in run.events if e[0] == "params"]
    cons = f"{name}:parameters"
    if len(par) != 1 or not isinstance(par[0][1], dict):
        rep.fail(rule, path, name, cons, "the parameter dictionary is not "
                 "built once through FormExtraParams", line)
        return None
    keys = list(par[0][1])
    src_d = [k for k in keys if k.startswith("defaults@")]
    src_k = [k for k in keys if k.startswith("kwargs@")]
    ok = (len(src_d) == 1 and len(src_k) == 1
          and keys.index(src_d[0]) < keys.index(src_k[0])
          and src_d[0].split("@")[1] == src_k[0].split("@")[1])
    if ok:
        rep.ok(rule, cons, f"w = {{**{src_d[0]}, **{src_k[0]}}}: defaults "
               f"first, keyword parameters override, both from one basis")
        return src_d[0].split("@")[1]
    rep.fail(rule, path, name, cons,
             f"parameter sources {keys}: every producer must merge the "
             f"basis' default parameters and the normalised keyword "
             f"parameters of the same basis, keywords taking precedence",
             line)
    return None


def check_producer_autodiff(model: Model, rep, rule: str):
    path, line = _producer_file(model, "NonlinearForm")
    for n in (2, 3):
        run = Run(model, "NonlinearForm", "_assemble", {"b": n})
        res = run.result
        if not (isinstance(res, tuple) and len(res) == 2):
            raise AnalysisError("NonlinearForm._assemble: (matrix, vector) "
                                "pair expected")
        mat, vec = res
        # Jacobian: linearisation taken at the test function (second group)
        # and applied to the trial function (first group)
        _autodiff_tensor(rep, rule, path, line, run, mat, n, True)
        _autodiff_tensor(rep, rule, path, line, run, vec, n, False)


def _autodiff_tensor(rep, rule, path, line, run, result, n, jac: bool):
    idx, data, shape, lshape = result
    name = f"NonlinearForm._assemble[{'jacobian' if jac else 'residual'}," \
           f"Nbfun={n}]"
    dblocks, neg = run.blocks(data)
    iblocks = [dict((_key(b), b) for b in run.blocks(r)[0])
               for r in idx.rows]
    if neg != (not jac):
        rep.fail(rule, path, "NonlinearForm._assemble", f"{name}:sign",
                 "the residual vector must be returned negated and the "
                 "Jacobian not", line)
    else:
        rep.ok(rule, f"{name}:sign", "Jacobian as is, residual negated")
    want_n = n * n if jac else n
    if len(dblocks) != want_n or len({_key(b) for b in dblocks}) != want_n:
        rep.fail(rule, path, "NonlinearForm._assemble", f"{name}:slots",
                 f"{len(dblocks)} slots for {want_n} local index tuples",
                 line)
        return
    bad = 0
    for b in dblocks:
        tags, others = _form_tags(b.value)
        ft = [_parse_tag(t) for t in tags if t != "w"]
        # jacobian value: D * form(direction u_j ; test v_i ; w)
        # residual value:     form(point x     ; test v_i ; w)
        first, second = ft[0], ft[1]
        cons = f"{name}:slot[{first[2]},{second[2]}]"
        okv = (others.get("D", 0) == (1 if jac else 0)
               and first[1] == ("basis" if jac else "x")
               and second[1] == "basis"
               and [s for s in others if s.startswith("dx[")] == ["dx[b]"]
               and [s for s in others if s.startswith("SUM[")]
               in (["SUM[axis=1]"], ["SUM[axis=-1]"])
               and others["#coef"] == 1)
        rows = iblocks[0].get(_key(b))
        cols = iblocks[1].get(_key(b)) if jac else None
        okr = rows is not None and rows.value.i == second[2]
        okc = (not jac) or (cols is not None and cols.value.i == first[2])
        if okv and okr and okc:
            rep.ok(rule, cons, f"{b.value} at {b.base}+c, row <- "
                   f"element_dofs[{second[2]}]"
                   + (f", col <- element_dofs[{first[2]}]" if jac else ""))
        else:
            bad += 1
            rep.fail(rule, path, "NonlinearForm._assemble", cons,
                     f"slot at {b.base}+c holds {b.value} with row "
                     f"{rows.value if rows else None}"
                     + (f", col {cols.value if cols else None}" if jac
                        else "")
                     + ": rows must follow the test function the form was "
                     "linearised for, columns the direction the derivative "
                     "is applied to, one dx and one quadrature sum", line)
    ls = [x for x in lshape]
    ds = list((data.buf if isinstance(data, FlatBuf) else data).shape[:-1])
    if jac and not (len(ls) == len(ds) and all(
            Poly.coerce(a) == Poly.coerce(b) for a, b in zip(ls, ds))):
        rep.fail(rule, path, "NonlinearForm._assemble", f"{name}:local_shape",
                 f"local_shape {ls} is not the leading extents {ds} of the "
                 f"data allocation", line)


def _interpolate_rule(model, rep):
    """Symbolic run of AbstractBasis.interpolate on a stub basis with three
    local functions, two solution components and the fields (value, grad,
    None, ...): field n of component c must be
    sum_i w[element_dofs[i]] * basis[i][c].get(n), from zero."""
    from ..interp import Interp, Obj, PyFunc, Raised, Unsupported
    R3 = "C01-R3"
    bcls = model.cls("skfem.assembly.basis.abstract_basis", "AbstractBasis")
    fn = bcls.methods["interpolate"]
    path = fn.path
    NB, NC = 3, 2

    class S:
        """a sum of products, as a sorted tuple of factor tuples"""
        skv_isarray = True

        def __init__(self, terms):
            self.terms = tuple(sorted(terms))

        def skv_binop(self, op, other, reflected):
            if isinstance(op, ast.Add):
                o = other.terms if isinstance(other, S) else None
                if o is None:
                    raise Unsupported("sum with a non-term")
                return S(self.terms + o)
            if isinstance(op, ast.Mult) and isinstance(other, (int, float,
                                                               Fraction)):
                if other == 0:
                    return S(())
                if other == 1:
                    return self
            raise Unsupported("arithmetic on interpolation terms")

        def __eq__(self, o):
            return isinstance(o, S) and self.terms == o.terms

        def __hash__(self):
            return hash(self.terms)

        def __repr__(self):
            return " + ".join("*".join(t) for t in self.terms) or "0"

    class Fld:
        def __init__(self, i, c):
            self.i, self.c = i, c

        def skv_getattr(self, name):
            if name == "get":
                return PyFunc(lambda a, k, n: S(
                    ((f"phi[{self.i}][{self.c}].{int(a[0])}",),)))
            if name == "astuple":
                return ("v", "g", None)
            raise Unsupported("field." + name)

    class W:
        skv_isarray = True

        def skv_getitem(self, ix):
            return S(((f"w[{ix}]",),))

        def skv_getattr(self, name):
            if name == "shape":
                return (Poly.sym("N"),)
            raise Unsupported("w." + name)

    class ED:
        def skv_getitem(self, ix):
            return f"dofs{int(ix)}"

    def hook(interp, name, args, kwargs, node):
        if name == "numpy.einsum":
            sig = args[0].replace(" ", "")
            a, b = args[1], args[2]
            if sig == "...,...j->...j" and isinstance(a, S) and \
                    isinstance(b, S):
                return S(tuple(tuple(sorted(x + y)) for x in a.terms
                               for y in b.terms))
            raise Unsupported(f"einsum '{sig}' in interpolate")
        if name.endswith("DiscreteField"):
            return ("field", tuple(args))
        return NotImplemented
    basis = [[Fld(i, c) for c in range(NC)] for i in range(NB)]
    comp = Obj(None, {"basis": basis})
    obj = Obj(bcls, {"N": Poly.sym("N"), "Nbfun": NB, "basis": basis,
                     "element_dofs": ED(), "elem": Obj(None, {}),
                     "split": PyFunc(lambda a, k, n: [("w0", comp),
                                                      ("w1", comp)])})
    try:
        r = Interp(model, call_hook=hook).call(fn, [W()], {}, self_obj=obj)
    except (Unsupported, Raised) as e:
        raise AnalysisError(f"AbstractBasis.interpolate: {e}")
    ok_shape = isinstance(r, tuple) and len(r) == NC and all(
        isinstance(x, tuple) and x and x[0] == "field" and len(x[1]) == 3
        for x in r)
    if not ok_shape:
        raise AnalysisError(f"interpolate returns {r!r}: one field tuple "
                            f"per component expected")
    bad = None
    for c in range(NC):
        for n in range(2):
            want = S(tuple(tuple(sorted((f"w[dofs{i}]",
                                         f"phi[{i}][{c}].{n}")))
                           for i in range(NB)))
            got = r[c][1][n]
            if got != want and bad is None:
                bad = (c, n, got, want)
        if r[c][1][2] is not None and bad is None:
            bad = (c, 2, r[c][1][2], None)
    _v(rep, R3, bad is None, "interpolate:pairing",
       "field n of component c = sum over all local functions i of "
       "w[element_dofs[i]] * basis[i][c].get(n), starting from zero; absent "
       "fields stay None", path, "AbstractBasis.interpolate",
       (f"field {bad[1]} of component {bad[0]} is {bad[2]!r}; expected "
        f"{bad[3]!r}: coefficient row i must multiply local function i of "
        f"the same component and field, once, for every i" if bad else ""),
       fn.lineno)
    # the forms see len(basis[i]) components of every local function; the
    # number of fields interpolate returns must be the same also when the
    # element is a *wrapper* around a composite (ElementDG(ElementComposite))
    # that split() does not recognise - it then returns one part
    obj1 = Obj(bcls, {"N": Poly.sym("N"), "Nbfun": NB, "basis": basis,
                      "element_dofs": ED(), "elem": Obj(None, {}),
                      "split": PyFunc(lambda a, k, n: [("w", comp)])})
    try:
        r1 = Interp(model, call_hook=hook).call(fn, [W()], {}, self_obj=obj1)
    except (Unsupported, Raised) as e:
        raise AnalysisError(f"AbstractBasis.interpolate (wrapped "
                            f"composite): {e}")
    n1 = len(r1) if isinstance(r1, tuple) and r1 and isinstance(
        r1[0], tuple) and r1[0][0] == "field" else 1
    _v(rep, R3, n1 == NC, "interpolate:components",
       f"{NC} fields for basis functions of {NC} components, whatever "
       f"split() recognises", path, "AbstractBasis.interpolate",
       f"for basis functions with {NC} components interpolate returns "
       f"{n1} field(s) when split() reports one part (an element wrapping a "
       f"composite, e.g. ElementDG(ElementTriP1() * ElementTriP0())): the "
       f"forms pair w.uh[1] with the cell axis of component 0", fn.lineno)
    # kept as separate obligations for the report
    for cons, msg in (("interpolate:range", "all Nbfun local functions "
                       "contribute"),
                      ("interpolate:from-zero", "the accumulator starts at "
                       "zero"),
                      ("interpolate:all-fields", "value and every "
                       "derivative field go through the same accumulation")):
        if bad is None:
            rep.ok(R3, cons, msg + " (part of the identity above)")


def _v(rep, rule, ok, cons, okmsg, path, qual, badmsg, line):
    if ok:
        rep.ok(rule, cons, okmsg)
    else:
        rep.fail(rule, path, qual, cons, badmsg, line)


def _normalize_rule(model, rep):
    """Form._normalize_asm_kwargs by symbolic runs: one call per kind of
    parameter (1-D array, n-D array, field with matching / other quadrature,
    number, index tuple, unsupported object)."""
    from ..interp import Interp, Obj, PyFunc, Raised, Unsupported
    R4 = "C01-R4"
    fn = model.func("skfem.assembly.form.form", "Form._normalize_asm_kwargs")
    path = fn.path
    dfc = model.cls("skfem.element.discrete_field", "DiscreteField")
    NQ = 4

    class Nd:
        skv_isarray = True
        skv_types = ("numpy.ndarray",)

        def __init__(self, ndim, tag):
            self.ndim, self.tag = ndim, tag

        def skv_getattr(self, name):
            if name == "shape":
                return tuple(Poly.sym(f"{self.tag}{k}")
                             for k in range(self.ndim))
            raise Unsupported("array." + name)

    class Fld:
        def __init__(self, nq):
            self.nq = nq

        def skv_getattr(self, name):
            if name == "shape":
                return (Poly.sym("nel"), self.nq)
            raise Unsupported("field." + name)
    basis_log = []
    basis = Obj(None, {"X": Obj(None, {"shape": (2, NQ)}),
                       "interpolate": PyFunc(
                           lambda a, k, n: (basis_log.append(a[0]),
                                            ("interpolated", a[0]))[1])})

    def hook(interp, name, args, kwargs, node):
        if name.endswith("DiscreteField"):
            return ("wrapped", tuple(args))
        return NotImplemented

    def run_one(value):
        w = {"k": value}
        it = Interp(model, call_hook=hook)
        orig_builtin = it.builtin

        def builtin(f, args, kwargs, node):
            # isinstance against the package's DiscreteField class and the
            # abstract number type, for the rule's stubs
            if f.name == "isinstance" and len(args) == 2:
                o, t = args
                tn = getattr(getattr(t, "cls", None), "name",
                             getattr(t, "name", ""))
                if tn == "DiscreteField":
                    return isinstance(o, Fld)
                if str(tn).endswith("Number"):
                    return isinstance(o, (int, Fraction)) and \
                        not isinstance(o, bool)
            return orig_builtin(f, args, kwargs, node)
        it.builtin = builtin
        try:
            r = it.call(fn, [w, basis], {})
        except Raised as e:
            return "raised", None
        except Unsupported as e:
            raise AnalysisError(f"_normalize_asm_kwargs: {e}")
        if r is not w and not (isinstance(r, dict) and r == w):
            return "other", r
        return "ok", w["k"]
    vec = Nd(1, "n")
    st, v = run_one(vec)
    _v(rep, R4, st == "ok" and v == ("interpolated", vec),
       "normalize:vector", "1-D arrays are interpolated with the producer's "
       "basis", path, "Form._normalize_asm_kwargs",
       f"a coefficient vector becomes {v!r} ({st}) instead of "
       f"basis.interpolate(vector)", fn.lineno)
    arr = Nd(3, "a")
    st, v = run_one(arr)
    _v(rep, R4, st == "ok" and v == ("wrapped", (arr,)), "normalize:array",
       ">=2-D arrays are wrapped unchanged", path,
       "Form._normalize_asm_kwargs",
       f"a pre-evaluated array becomes {v!r} ({st}) instead of "
       f"DiscreteField(array)", fn.lineno)
    good, badf = Fld(NQ), Fld(7)
    st1, v1 = run_one(good)
    st2, _ = run_one(badf)
    _v(rep, R4, st1 == "ok" and v1 is good and st2 == "raised",
       "normalize:field", "pre-interpolated fields pass unchanged when their "
       "quadrature size matches the basis and raise otherwise", path,
       "Form._normalize_asm_kwargs",
       f"a field with matching quadrature: {st1}; with another number of "
       f"quadrature points: {st2} (must raise)", fn.lineno)
    st, v = run_one(Fraction(3))
    st_t, v_t = run_one((0, 1))
    _v(rep, R4, st == "ok" and v == 3 and st_t == "ok" and v_t == (0, 1),
       "normalize:scalars", "numbers and asm index tuples pass unchanged",
       path, "Form._normalize_asm_kwargs",
       f"numbers / index tuples are not passed through unchanged "
       f"({st}, {st_t})", fn.lineno)
    st, v = run_one(Obj(None, {}))
    _v(rep, R4, st == "raised", "normalize:else-raises",
       "unsupported parameter types raise", path,
       "Form._normalize_asm_kwargs",
       "an unsupported parameter type is passed on silently", fn.lineno)


def _consumers(model, rep):
    """COO consumers by symbolic run: which index row is the matrix row,
    which the column, and that every entry is used once"""
    from ..interp import Interp, Obj, PyFunc, Raised, Unsupported
    R2 = "C01-R2"
    mod = "skfem.assembly.form.coo_data"
    ccls = model.cls(mod, "COOData")

    class Term(tuple):
        skv_isarray = True

        def skv_binop(self, op, other, reflected):
            if isinstance(op, ast.Mult):
                return Term(("mul",) + tuple(sorted(
                    [self, other], key=repr)))
            if isinstance(op, ast.Add):
                return Term(("add",) + tuple(sorted(
                    [self, other], key=repr)))
            raise Unsupported("arithmetic")

        def skv_getitem(self, ix):
            return Term(("at", self, ix))

        def skv_getattr(self, name):
            if name == "shape":
                return (Poly.sym("nidx"), Poly.sym("nnz"))
            if name == "dtype":
                return ("dtype-of", self)
            raise Unsupported("term." + name)

    class Idx:
        skv_isarray = True

        def skv_getitem(self, ix):
            if isinstance(ix, int):
                return Term(("indexrow", ix))
            if isinstance(ix, tuple) and len(ix) == 2 and \
                    ix[0] == slice(None):
                return Term(("indexcol", ix[1]))
            raise Unsupported("indices index")

        def skv_getattr(self, name):
            if name == "shape":
                return (2, 3)
            raise Unsupported("indices." + name)
    log = []

    class Mat:
        def __init__(self, what):
            self.what = what

        def skv_getattr(self, name):
            if name in ("eliminate_zeros", "sum_duplicates"):
                return PyFunc(lambda a, k, n: None)
            if name in ("tocsr", "tocsc", "tocoo"):
                return PyFunc(lambda a, k, n: self)
            raise Unsupported("matrix." + name)

    class Buf:
        skv_isarray = True

        def __init__(self):
            self.stores = []

        def skv_setitem(self, ix, v):
            self.stores.append(("set", ix, v))

        def skv_getitem(self, ix):
            return Term(("buf", ix))

    def hook(interp, name, args, kwargs, node):
        if name.endswith("coo_matrix"):
            log.append(("coo", args, kwargs))
            return Mat(len(log) - 1)
        if name in ("numpy.result_type", "numpy.promote_types"):
            return ("common-type", tuple(args))
        if name in ("numpy.zeros_like", "numpy.zeros"):
            b = Buf()
            log.append(("zeros", b, args, name, dict(kwargs)))
            return b
        if name == "numpy.add.at":
            log.append(("add.at", args))
            return None
        return NotImplemented
    DATA, X = Term(("data",)), Term(("x",))
    # ---- csr
    fn = ccls.methods["_assemble_scipy_csr"]
    log.clear()
    try:
        r = Interp(model, call_hook=hook).call(
            fn, [Idx(), DATA, ("R", "C"), None], {})
    except (Unsupported, Raised) as e:
        raise AnalysisError(f"COOData._assemble_scipy_csr: {e}")
    coo = [x for x in log if x[0] == "coo"]
    ok = False
    if len(coo) == 1 and coo[0][1]:
        a = coo[0][1][0]
        shp = coo[0][2].get("shape", coo[0][1][1] if len(coo[0][1]) > 1
                            else None)
        ok = (isinstance(a, tuple) and len(a) == 2 and a[0] == DATA
              and isinstance(a[1], tuple) and len(a[1]) == 2
              and a[1][0] == Term(("indexrow", 0))
              and a[1][1] == Term(("indexrow", 1))
              and shp == ("R", "C") and isinstance(r, Mat)
              and r.what == 0)
    _v(rep, R2, ok, "COOData._assemble_scipy_csr:convention",
       "coo_matrix((data, (indices[0], indices[1])), shape): index row 0 = "
       "matrix row", fn.path, "COOData._assemble_scipy_csr",
       "the sparse matrix is not built from (data, (indices[0], "
       "indices[1])) with the producer's shape (rows and columns "
       "exchanged, or another array used)", fn.lineno)
    # ---- dot
    fn = ccls.methods["dot"]
    log.clear()
    obj = Obj(ccls, {"data": DATA, "indices": Idx(), "shape": ("R", "C")})
    try:
        r = Interp(model, call_hook=hook).call(fn, [X], {}, self_obj=obj)
    except (Unsupported, Raised) as e:
        raise AnalysisError(f"COOData.dot: {e}")
    adds = [x for x in log if x[0] == "add.at"]
    want_y = Term(("mul",) + tuple(sorted(
        [DATA, Term(("at", X, Term(("indexrow", 1))))], key=repr)))
    ok = (len(adds) == 1 and len(adds[0][1]) == 3
          and isinstance(adds[0][1][0], Buf) and r is adds[0][1][0]
          and adds[0][1][1] == Term(("indexrow", 0))
          and adds[0][1][2] == want_y)
    _v(rep, R2, ok, "COOData.dot:convention",
       "y = data * x[indices[1]] accumulated at indices[0] of a zero "
       "vector", fn.path, "COOData.dot",
       "the matrix-vector product does not gather x at the column index "
       "and accumulate at the row index", fn.lineno)
    # the product has one entry per matrix *row* and must be able to hold
    # data * x: a vector made 'like x' has the length of x (the number of
    # columns) and the dtype of x (integer x truncates, real x drops the
    # imaginary part of a complex matrix)
    zs = [x for x in log if x[0] == "zeros"]
    okz = False
    why = "no zero vector allocated"
    if len(zs) == 1:
        _, _, zargs, zname, zkw = zs[0]
        dt = zkw.get("dtype")
        if zname == "numpy.zeros_like":
            why = "np.zeros_like(x): length and dtype of the input vector"
        elif not zargs or zargs[0] not in ("R", ("R",)):
            why = f"length {zargs[0] if zargs else None!r}, not the " \
                  f"number of rows"
        elif not (isinstance(dt, tuple) and dt and dt[0] == "common-type"
                  and DATA in dt[1] and X in dt[1]):
            why = f"dtype {dt!r}, not a common type of the data and x"
        else:
            okz = True
    _v(rep, R2, okz, "COOData.dot:result-vector",
       "the product is accumulated in a zero vector with one entry per row "
       "in a common type of the data and x", fn.path, "COOData.dot",
       f"the vector the product is accumulated in: {why} - for a "
       f"rectangular matrix the result has the wrong length (or the "
       f"accumulation raises), for integer x every contribution is "
       f"truncated", fn.lineno)
    # ---- dense N-tensor
    fn = ccls.methods["toarray"]
    log.clear()
    obj = Obj(ccls, {"data": DATA, "indices": Idx(),
                     "shape": ("A", "B", "C")})

    class AccBuf(Buf):
        def skv_getitem(self, ix):
            return Term(("old", ix))

    def hook3(interp, name, args, kwargs, node):
        if name == "numpy.zeros":
            b = AccBuf()
            log.append(("zeros", b, args, dict(kwargs)))
            return b
        return hook(interp, name, args, kwargs, node)

    class Acc(Term):
        pass
    try:
        it = Interp(model, call_hook=hook3)
        r = it.call(fn, [], {}, self_obj=obj)
    except (Unsupported, Raised) as e:
        raise AnalysisError(f"COOData.toarray: {e}")
    ok = isinstance(r, AccBuf) and len(r.stores) == 3
    if ok:
        for k, (_, ix, v) in enumerate(r.stores):
            # tuple(indices[:, k]) unpacks the column into one index per
            # axis: the stub's column term becomes a plain tuple
            want_v = Term(("add",) + tuple(sorted(
                [Term(("old", ix)), Term(("at", DATA, k))], key=repr)))
            ok = ok and tuple(ix) == ("indexcol", k) and v == want_v
    _v(rep, R2, ok, "COOData.toarray:convention",
       "dense N-tensor accumulates data[k] at indices[:, k] for every k",
       fn.path, "COOData.toarray", "the dense conversion does not "
       "accumulate data[k] at indices[:, k] for every entry", fn.lineno)
    zs = [x for x in log if x[0] == "zeros"]
    dt = zs[0][3].get("dtype") if len(zs) == 1 else None
    if dt is None and len(zs) == 1 and len(zs[0][2]) > 1:
        dt = zs[0][2][1]
    okd = dt == ("dtype-of", DATA) or (
        isinstance(dt, tuple) and dt and dt[0] == "common-type"
        and DATA in dt[1])
    _v(rep, R2, okd, "COOData.toarray:result-array",
       "the dense N-tensor is accumulated in an array of the data's type",
       fn.path, "COOData.toarray",
       f"the dense N-tensor is accumulated in np.zeros(shape"
       f"{'' if dt is None else ', dtype=' + repr(dt)}): a float64 array "
       f"whatever the data are - the imaginary part of a complex "
       f"trilinear form is dropped (ComplexWarning at most), while the "
       f"vector and matrix branches keep the type", fn.lineno)


def _quadrature_guard(model, rep):
    """trial and test bases with different numbers of quadrature points must
    be rejected (symbolic run with concrete, different point counts)"""
    fn = model.func("skfem.assembly.form.bilinear_form",
                    "BilinearForm._assemble")
    sizes = {"u": 2, "v": 3}
    r_bad = Run(model, "BilinearForm", "_assemble", sizes,
                nqp={"u": 3, "v": 4})
    r_ok = Run(model, "BilinearForm", "_assemble", sizes,
               nqp={"u": 4, "v": 4})
    ok = getattr(r_bad, "raised", None) is not None and \
        getattr(r_ok, "raised", None) is None
    _v(rep, "C01-R1", ok, "BilinearForm._assemble:quadrature-guard",
       "different numbers of quadrature points in trial and test basis "
       "raise, equal numbers assemble", fn.path, "BilinearForm._assemble",
       "trial and test bases with different quadratures are not rejected "
       "(or equal ones are)", fn.lineno)


def _default_parameters(model, rep):
    """x / h (/ n) come from the same mapping, points and subset as the
    basis functions and dx; element_dofs honours the cell subset."""
    from ..interp import Interp, Obj, PyFunc, Raised, Unsupported
    R4 = "C01-R4"

    class Rec:
        skv_isarray = True

        def __init__(self, what, args, kwargs):
            self.what, self.args, self.kwargs = what, args, kwargs

        def skv_binop(self, op, other, reflected):
            return ("op", type(op).__name__, self, other)

    class Stub:
        def __init__(self, name):
            self.name = name

        def skv_getattr(self, attr):
            return PyFunc(lambda a, k, n: Rec(f"{self.name}.{attr}", a, k))

    def hook(interp, name, args, kwargs, node):
        if name.endswith("DiscreteField"):
            return ("field", args[0] if args else kwargs.get("value"))
        if name in ("numpy.abs", "numpy.absolute"):
            return AbsT(args[0])
        return NotImplemented

    class AbsT(tuple):
        def __new__(cls, v):
            return super().__new__(cls, ("abs", v))

        def skv_binop(self, op, other, reflected):
            return ("op", type(op).__name__, self, other)

    def binpow(v):
        # ("op", "Pow", ("abs", rec), exponent)
        return v
    for modn, clsn, sub, mapfn, detfn in (
            ("cell_basis", "CellBasis", "tind", "F", "detDF"),
            ("facet_basis", "FacetBasis", "find", "G", "detDG")):
        cls = model.cls(f"skfem.assembly.basis.{modn}", clsn)
        X, S = object(), object()
        mesh = Obj(None, {"dim": PyFunc(lambda a, k, n: 3)})
        obj = Obj(cls, {"mapping": Stub("mapping"), "X": X, sub: S,
                        "mesh": mesh, "_global_coordinates": None,
                        "_mesh_parameters": None, "normals": "NORMALS"})
        try:
            r = Interp(model, call_hook=hook).call(
                cls.methods["default_parameters"], [], {}, self_obj=obj)
        except (Unsupported, Raised) as e:
            raise AnalysisError(f"{clsn}.default_parameters: {e}")
        path, line = cls.path, cls.methods["default_parameters"].lineno

        def at_subset(rec):
            vals = list(rec.args[1:]) + list(rec.kwargs.values())
            return isinstance(rec, Rec) and rec.args and rec.args[0] is X \
                and any(v is S for v in vals)
        x = r.get("x") if isinstance(r, dict) else None
        okx = isinstance(x, tuple) and isinstance(x[1], Rec) and \
            x[1].what == f"mapping.{mapfn}" and at_subset(x[1])
        _v(rep, R4, okx, f"{clsn}.default_parameters:x",
           f"w.x = mapping.{mapfn}(X, {sub}): the points dx and the basis "
           f"belong to", path, f"{clsn}.global_coordinates",
           f"w.x is not mapping.{mapfn} at the basis' points for the "
           f"basis' {sub}", line)
        h = r.get("h") if isinstance(r, dict) else None
        okh = False
        if isinstance(h, tuple) and isinstance(h[1], tuple) and \
                h[1][0] == "op" and h[1][1] == "Pow":
            base = h[1][2]
            okh = (isinstance(base, tuple) and base[0] == "abs"
                   and isinstance(base[1], Rec)
                   and base[1].what == f"mapping.{detfn}"
                   and at_subset(base[1]))
        _v(rep, R4, okh, f"{clsn}.default_parameters:h",
           f"w.h = |mapping.{detfn}(X, {sub})| ** (1/d)", path,
           f"{clsn}.mesh_parameters",
           f"w.h is not a power of |mapping.{detfn}| at the basis' points "
           f"for the basis' {sub}", line)
        if clsn == "FacetBasis":
            _v(rep, R4, r.get("n") == "NORMALS",
               "FacetBasis.default_parameters:n", "w.n = the basis' normals",
               path, "FacetBasis.default_parameters",
               "w.n is not the facet basis' own normal field", line)
        keys = set(r) if isinstance(r, dict) else set()
        want = {"x", "h"} | ({"n"} if clsn == "FacetBasis" else set())
        _v(rep, R4, keys == want, f"{clsn}.default_parameters:keys",
           f"provides {sorted(want)}", path, f"{clsn}.default_parameters",
           f"default parameters are {sorted(keys)}, expected "
           f"{sorted(want)}", line)
    # element_dofs of a subset basis
    acls = model.cls("skfem.assembly.basis.abstract_basis", "AbstractBasis")
    fn = acls.methods["element_dofs"]

    class ED:
        def skv_getitem(self, ix):
            return ("cols", ix)
    for tind in (None, "TIND"):
        ed = ED()
        obj = Obj(acls, {"tind": tind, "dofs": Obj(None, {"element_dofs":
                                                          ed})})
        try:
            r = Interp(model).call(fn, [], {}, self_obj=obj)
        except (Unsupported, Raised) as e:
            raise AnalysisError(f"AbstractBasis.element_dofs: {e}")
        ok = (r is ed) if tind is None else \
            (r == ("cols", (slice(None), "TIND")))
        _v(rep, R4, ok,
           f"AbstractBasis.element_dofs[{'subset' if tind else 'all'}]",
           "rows/cols of assembled entries come from the cells the basis "
           "integrates over", acls.path, "AbstractBasis.element_dofs",
           f"element_dofs of a basis on {'a cell subset' if tind else 'all cells'} "
           f"is {r!r}: index arrays and integrated cells do not match",
           fn.lineno)


REAL_TYPES = {"float", "np.float64", "np.float32", "np.double", "np.float_",
              "'float64'", "'float32'", "'float'", "'d'", "'f'", "np.single",
              "np.int32", "np.int64", "int", "np.int_"}


def _value_integrity(model, rep):
    """The assembled value is linear in the integrand values and in the
    coefficient vectors.  On the data path (skfem/assembly) nothing may
    (a) force values into a fixed real type - a complex coefficient vector
    or integrand would silently lose its imaginary part - or (b) compare
    values with an absolute constant and act on it - the result would
    depend on the units of the mesh and of the coefficients.  Expected
    count: zero sites; index arrays (np.int32 casts of DOF numbers) are
    told apart by what is cast."""
    R5 = "C01-R5"
    nfun = 0
    INDEXY = ("dofs", "rows", "cols", "indices", "ix", "find", "tind",
              "elements", "facets", "nodes")
    # coordinates are real by nature: casting them is not a loss
    COORDS = {"x", "y", "z", "X", "Y", "p", "points", "doflocs", "pts"}
    for fn in model.all_functions():
        if not fn.path.startswith("skfem/assembly/"):
            continue
        nfun += 1
        params = set(fn.params()) - {"self", "cls"}
        # names holding user values: parameters and what is computed from
        # them (one forward pass, flow-insensitive)
        val = {p_ for p_ in params
               if not any(k in p_.lower() for k in INDEXY)
               and p_ not in COORDS}
        for st in sorted([n for n in walk_no_nested(fn.node)
                          if isinstance(n, ast.Assign)],
                         key=lambda n: n.lineno):
            used = {x.id for x in ast.walk(st.value)
                    if isinstance(x, ast.Name)}
            attr_data = any(isinstance(x, ast.Attribute) and x.attr == "data"
                            for x in ast.walk(st.value))
            if used & val or attr_data:
                for t in st.targets:
                    for x in ast.walk(t):
                        if isinstance(x, ast.Name) and isinstance(
                                x.ctx, ast.Store):
                            val.add(x.id)

        def is_value(e):
            for x in ast.walk(e):
                if isinstance(x, ast.Name) and x.id in val:
                    return True
                if isinstance(x, ast.Attribute) and x.attr == "data":
                    return True
            return False
        for n in walk_no_nested(fn.node):
            # (a) narrowing casts
            if isinstance(n, ast.Call):
                f = src(n.func)
                tkw = [k.value for k in n.keywords if k.arg == "dtype"]
                if f in ("np.asarray", "np.array", "np.ascontiguousarray",
                         "np.asanyarray") and n.args and tkw and \
                        src(tkw[0]) in REAL_TYPES and is_value(n.args[0]) \
                        and not src(tkw[0]).startswith(("np.int", "int")):
                    rep.fail(R5, fn.path, fn.short(),
                             f"{fn.short()}:cast:{src(n)[:40]}",
                             f"'{src(n)[:70]}' forces a value on the "
                             f"assembly data path into a real type: a "
                             f"complex coefficient vector / integrand "
                             f"loses its imaginary part (with a warning at "
                             f"most)", n.lineno)
                if isinstance(n.func, ast.Attribute) and \
                        n.func.attr == "astype" and n.args and \
                        src(n.args[0]) in REAL_TYPES and \
                        not src(n.args[0]).startswith(("np.int", "int")) \
                        and is_value(n.func.value):
                    rep.fail(R5, fn.path, fn.short(),
                             f"{fn.short()}:cast:{src(n)[:40]}",
                             f"'{src(n)[:70]}' forces a value on the "
                             f"assembly data path into a real type",
                             n.lineno)
                if f in ("np.real", "np.float64", "np.float32") and n.args \
                        and is_value(n.args[0]):
                    rep.fail(R5, fn.path, fn.short(),
                             f"{fn.short()}:cast:{src(n)[:40]}",
                             f"'{src(n)[:70]}' drops the imaginary part of "
                             f"a value on the assembly data path", n.lineno)
            # (b) absolute thresholds
            if isinstance(n, ast.Compare) and len(n.ops) == 1 and isinstance(
                    n.ops[0], (ast.Lt, ast.LtE, ast.Gt, ast.GtE)):
                a, b = n.left, n.comparators[0]
                for v, c in ((a, b), (b, a)):
                    const = (isinstance(c, ast.Constant) and isinstance(
                        c.value, (int, float)) and c.value != 0) or any(
                        isinstance(x, ast.Attribute) and x.attr in (
                            "eps", "tiny", "resolution")
                        for x in ast.walk(c))
                    valued = any(
                        isinstance(x, ast.Attribute) and x.attr == "data"
                        for x in ast.walk(v)) or (
                        isinstance(v, ast.Call) and src(v.func) in (
                            "np.abs", "abs", "np.absolute") and is_value(v))
                    if const and valued:
                        rep.fail(R5, fn.path, fn.short(),
                                 f"{fn.short()}:threshold:{src(n)[:40]}",
                                 f"'{src(n)[:70]}' compares assembled "
                                 f"values with an absolute constant: "
                                 f"whether an entry is kept depends on the "
                                 f"units of the mesh and the coefficients "
                                 f"(small-unit geometry loses legitimate "
                                 f"entries)", n.lineno)
    rep.ok(R5, "assembly:value-integrity",
           f"{nfun} functions under skfem/assembly: no cast of a value to a "
           f"fixed real type, no absolute threshold on assembled values")
    rep.units("functions scanned for value integrity", nfun)


def run(model: Model, rep, tier: str) -> None:
    rep.rule("C01-R1", "roles: rows<-test DOFs, cols<-trial DOFs for the "
             "local functions the integrand was called with (trial first); "
             "one dx, sum over the quadrature axis; shapes in index order")
    rep.rule("C01-R2", "layout: data and every index row use the same slot "
             "map, slots tile the flat arrays; COO consumers' conventions")
    rep.rule("C01-R3", "interpolate pairs coefficient row i with function i "
             "for all i and all fields, from zero")
    rep.rule("C01-R4", "parameters enter every producer identically; "
             "normalisation covers all input kinds and else raises")
    param_basis = {}
    # bilinear: serial and threaded
    path, line = _producer_file(model, "BilinearForm")
    for sizes in ({"u": 2, "v": 3}, {"u": 3, "v": 2}):
        for nth in (0, 2):
            r = Run(model, "BilinearForm", "_assemble", sizes, nthreads=nth)
            nm = f"BilinearForm._assemble[{'threaded' if nth else 'serial'}" \
                 f",{sizes['u']}x{sizes['v']}]"
            check_tensor(rep, "C01-R1", "C01-R2", nm, path, line, r,
                         r.result, ["u", "v"])
            param_basis[nm] = _params_rule(rep, "C01-R4", nm, path, line, r)
    # test basis omitted -> Galerkin: both roles from the one basis
    r = Run(model, "BilinearForm", "_assemble", {"u": 2, "v": 2},
            pass_v=False)
    blocks, _ = r.blocks(r.result[1])
    tags = {tuple(t.split(".")[0] for t in _form_tags(b.value)[0]
                  if t != "w") for b in blocks}
    _v(rep, "C01-R1", tags == {("u", "u")},
       "BilinearForm._assemble:default-test-basis",
       "omitted test basis defaults to the trial basis", path,
       "BilinearForm._assemble",
       "omitted test basis does not default to the trial basis", line)
    _quadrature_guard(model, rep)
    # linear
    path, line = _producer_file(model, "LinearForm")
    for n in (2, 3):
        r = Run(model, "LinearForm", "_assemble", {"u": n}, pass_v=False)
        nm = f"LinearForm._assemble[{n}]"
        check_tensor(rep, "C01-R1", "C01-R2", nm, path, line, r, r.result,
                     ["u"])
        param_basis[nm] = _params_rule(rep, "C01-R4", nm, path, line, r)
    # trilinear
    path, line = _producer_file(model, "TrilinearForm")
    r = Run(model, "TrilinearForm", "_assemble", {"u": 2, "v": 3, "w": 4})
    nm = "TrilinearForm._assemble[2x3x4]"
    check_tensor(rep, "C01-R1", "C01-R2", nm, path, line, r, r.result,
                 ["u", "v", "w"])
    param_basis[nm] = _params_rule(rep, "C01-R4", nm, path, line, r)
    # functional
    path, line = _producer_file(model, "Functional")
    r = Run(model, "Functional", "_assemble", {"u": 2}, pass_v=False)
    idx, data, shape, lshape = r.result
    nm = "Functional._assemble"
    okf = False
    if isinstance(data, Arr) and len(data.flat()) == 1 and shape == () \
            and isinstance(data.flat()[0], Poly):
        tags, others = _form_tags(data.flat()[0])
        okf = (tags == ["w"] and others.get("dx[u]") == 1
               and others.get("SUM[axis=-1]") == 2 and len(others) == 3)
    _v(rep, "C01-R1", okf, nm + ":value", "J = sum over cells of sum over "
       "quadrature points of form(w) * dx", path, nm,
       "the scalar is not the integrand times dx summed over quadrature "
       "points and cells", line)
    param_basis[nm] = _params_rule(rep, "C01-R4", nm, path, line, r)
    # autodiff
    check_producer_autodiff(model, rep, "C01-R1")
    r = Run(model, "NonlinearForm", "_assemble", {"b": 2})
    kw = [e for e in r.events if e[0] == "kwargs"]
    df = [e for e in r.events if e[0] == "defaults"]
    _v(rep, "C01-R4", len(kw) == 1 and len(df) == 1 and kw[0][1] == df[0][1],
       "NonlinearForm._assemble:parameters",
       "defaults and keyword parameters of the one basis",
       _producer_file(model, "NonlinearForm")[0], "NonlinearForm._assemble",
       "defaults / keyword parameters are not taken from the basis",
       _producer_file(model, "NonlinearForm")[1])
    # sibling agreement of parameter handling
    vals = {k: v for k, v in param_basis.items()}
    if all(v is not None for v in vals.values()):
        rep.ok("C01-R4", "producers:parameter-agreement",
               f"{len(vals)} producer runs merge defaults and keywords the "
               f"same way")
    rep.rule("C01-R5", "data path keeps values intact: no cast to a fixed "
             "real type, no absolute threshold on assembled values")
    staged(lambda: _interpolate_rule(model, rep),
           lambda: _default_parameters(model, rep),
           lambda: _normalize_rule(model, rep),
           lambda: _consumers(model, rep),
           lambda: _value_integrity(model, rep))
    rep.require_min("C01-R1", 40)
    rep.require_min("C01-R2", 10)
    rep.require_min("C01-R3", 4)
    rep.require_min("C01-R4", 12)


_B = "skfem/assembly/form/bilinear_form.py"
_L = "skfem/assembly/form/linear_form.py"
_T = "skfem/assembly/form/trilinear_form.py"
_FN = "skfem/assembly/form/functional.py"
_AB = "skfem/assembly/basis/abstract_basis.py"
_AD = "skfem/autodiff/__init__.py"
_CO = "skfem/assembly/form/coo_data.py"
_FM = "skfem/assembly/form/form.py"
MUTANTS = [
    ("dense N-tensor accumulated in a float array",
     ("skfem/assembly/form/coo_data.py",
      "        out = np.zeros(self.shape, dtype=self.data.dtype)",
      "        out = np.zeros(self.shape)"), "C01-R2"),
    ("interpolate counts its components through split()",
     (_AB, "        for c in range(len(self.basis[0])):\n            ref = "
      "self.basis[0][c].astuple",
      "        refs = self.split(w)\n        for c in range(len(refs)):\n"
      "            ref = refs[c][1].basis[0][0].astuple"), "C01-R3"),
    ("COO dot accumulates into a vector shaped like its argument",
     (_CO, "        z = np.zeros(self.shape[0], dtype=np.result_type("
      "self.data, x))", "        z = np.zeros_like(x)"), "C01-R2"),
    ("COO dot accumulates into a float vector",
     (_CO, "        z = np.zeros(self.shape[0], dtype=np.result_type("
      "self.data, x))", "        z = np.zeros(self.shape[0])"), "C01-R2"),
    ("interpolate sanitises the coefficient vector to float64",
     ("skfem/assembly/basis/abstract_basis.py",
      "        if w.shape[0] != self.N:\n            raise ValueError("
      "\"Input array has wrong size.\")",
      "        w = np.asarray(w, dtype=np.float64)\n"
      "        if w.shape[0] != self.N:\n            raise ValueError("
      "\"Input array has wrong size.\")"), "C01-R5"),
    ("csr conversion drops entries below machine epsilon",
     ("skfem/assembly/form/coo_data.py", "        K.eliminate_zeros()\n",
      "        K.data[np.abs(K.data) < np.finfo(np.float64).eps] = 0.\n"
      "        K.eliminate_zeros()\n"), "C01-R5"),
    ("bilinear: slot stride uses the trial size",
     (_B, "                ixs = slice(nt * (ubasis.Nbfun * i + j),\n"
      "                            nt * (ubasis.Nbfun * i + j + 1))",
      "                ixs = slice(nt * (vbasis.Nbfun * i + j),\n"
      "                            nt * (vbasis.Nbfun * i + j + 1))"),
     "C01-R2"),
    ("bilinear: row and column sources exchanged",
     (_B, "                rows[ixs] = vbasis.element_dofs[i]\n"
      "                cols[ixs] = ubasis.element_dofs[j]",
      "                rows[ixs] = ubasis.element_dofs[j]\n"
      "                cols[ixs] = vbasis.element_dofs[i]"), "C01-R1"),
    ("bilinear: data flattened in Fortran order",
     (_B, "data = data.flatten('C')", "data = data.flatten('F')"), "C01-R2"),
    ("bilinear: kernel receives test function first",
     (_B, "                    data[i, j, :] = self._kernel(\n"
      "                        ubasis.basis[j],\n"
      "                        vbasis.basis[i],",
      "                    data[i, j, :] = self._kernel(\n"
      "                        vbasis.basis[i],\n"
      "                        ubasis.basis[j],"), "C01-R1"),
    ("bilinear: global shape transposed",
     (_B, "            (vbasis.N, ubasis.N),", "            (ubasis.N, "
      "vbasis.N),"), "C01-R1"),
    ("bilinear: integrand called as form(v, u, w)",
     (_B, "return np.sum(self.form(*u, *v, w) * dx, axis=1)",
      "return np.sum(self.form(*v, *u, w) * dx, axis=1)"), "C01-R1"),
    ("bilinear: reduction over the cell axis",
     (_B, "return np.sum(self.form(*u, *v, w) * dx, axis=1)",
      "return np.sum(self.form(*u, *v, w) * dx, axis=0)"), "C01-R1"),
    ("bilinear: dx dropped from the kernel",
     (_B, "return np.sum(self.form(*u, *v, w) * dx, axis=1)",
      "return np.sum(self.form(*u, *v, w), axis=1)"), "C01-R1"),
    ("bilinear: quadrature guard removed",
     (_B, "        elif ubasis.X.shape[-1] != vbasis.X.shape[-1]:\n"
      "            raise ValueError(\"Quadrature mismatch: trial and test "
      "functions \"\n                             \"should have same number "
      "of integration points.\")\n", ""), "C01-R1"),
    ("linear: every row block filled from DOF row 0",
     (_L, "            rows[ixs] = vbasis.element_dofs[i]",
      "            rows[ixs] = vbasis.element_dofs[0]"), "C01-R1"),
    ("linear: slots overlap",
     (_L, "ixs = slice(nt * i, nt * (i + 1))", "ixs = slice(nt * i, nt * "
      "(i + 2))"), "C01-R2"),
    ("linear: default parameters no longer merged",
     (_L, "            **vbasis.default_parameters(),\n", ""), "C01-R4"),
    ("trilinear: two index arrays exchanged in the returned stack",
     (_T, "                mats.flatten(),\n                rows.flatten(),",
      "                rows.flatten(),\n                mats.flatten(),"),
     "C01-R1"),
    ("trilinear: third function taken from the wrong local index",
     (_T, "                        wbasis.basis[i],", "                        "
      "wbasis.basis[j],"), "C01-R1"),
    ("functional: kwargs take the defaults' place (precedence flipped)",
     (_FN, "            **v.default_parameters(),\n            "
      "**self._normalize_asm_kwargs(kwargs, v),",
      "            **self._normalize_asm_kwargs(kwargs, v),\n            "
      "**v.default_parameters(),"), "C01-R4"),
    ("interpolate: coefficient row i paired with function 0",
     (_AB, "                                     self.basis[i][c].get(n))\n"
      "                return out",
      "                                     self.basis[0][c].get(n))\n"
      "                return out"), "C01-R3"),
    ("interpolate: last local function skipped",
     (_AB, "                for i in range(self.Nbfun):\n                    "
      "values = w[self.element_dofs[i]]",
      "                for i in range(self.Nbfun - 1):\n                    "
      "values = w[self.element_dofs[i]]"), "C01-R3"),
    ("autodiff: rows follow the direction, columns the test function",
     (_AD, "                rows[ixs] = basis.element_dofs[i]\n"
      "                cols[ixs] = basis.element_dofs[j]",
      "                rows[ixs] = basis.element_dofs[j]\n"
      "                cols[ixs] = basis.element_dofs[i]"), "C01-R1"),
    ("autodiff: residual returned with the wrong sign",
     (_AD, "                -data1,", "                data1,"), "C01-R1"),
    ("COO consumer: row and column index exchanged",
     (_CO, "K = coo_matrix((data, (indices[0], indices[1])), shape=shape)",
      "K = coo_matrix((data, (indices[1], indices[0])), shape=shape)"),
     "C01-R2"),
    ("COO dot: gathers at the row index",
     (_CO, "y = self.data * x[self.indices[1]]", "y = self.data * "
      "x[self.indices[0]]"), "C01-R2"),
    ("cell basis: w.x for all cells although a subset is integrated",
     ("skfem/assembly/basis/cell_basis.py",
      "                self.mapping.F(self.X, tind=self.tind)\n",
      "                self.mapping.F(self.X)\n"), "C01-R4"),
    ("facet basis: mesh parameter from the cell determinant",
     ("skfem/assembly/basis/facet_basis.py",
      "                (np.abs(self.mapping.detDG(self.X, self.find))",
      "                (np.abs(self.mapping.detDF(self.X, self.tind))"),
     "C01-R4"),
    ("subset basis keeps the DOF table of all cells",
     ("skfem/assembly/basis/abstract_basis.py",
      "                self._element_dofs = self.dofs.element_dofs[:, "
      "self.tind]", "                self._element_dofs = "
      "self.dofs.element_dofs"), "C01-R4"),
    ("normalisation: unknown types pass through",
     (_FM, "            else:\n                raise ValueError(\"The given "
      "type '{}' for the list of extra \"",
      "            elif False:\n                raise ValueError(\"The given "
      "type '{}' for the list of extra \""), "C01-R4"),
]
_CO = "skfem/assembly/form/coo_data.py"
TWINS = [
    ("dense N-tensor allocated with a positional dtype",
     ("skfem/assembly/form/coo_data.py",
      "        out = np.zeros(self.shape, dtype=self.data.dtype)",
      "        out = np.zeros(self.shape, self.data.dtype)")),
    ("dot multiplies in the other operand order",
     (_CO, "        y = self.data * x[self.indices[1]]",
      "        y = x[self.indices[1]] * self.data")),
    ("csr conversion before eliminating zeros",
     (_CO, "        K = coo_matrix((data, (indices[0], indices[1])), "
      "shape=shape)\n        K.eliminate_zeros()\n        return K.tocsr()",
      "        rows, cols = indices[0], indices[1]\n"
      "        K = coo_matrix((data, (rows, cols)), shape=shape).tocsr()\n"
      "        K.eliminate_zeros()\n        return K")),
    ("bilinear: slot variable renamed and computed from a base",
     (_B, "                ixs = slice(nt * (ubasis.Nbfun * i + j),\n"
      "                            nt * (ubasis.Nbfun * i + j + 1))",
      "                base = nt * (ubasis.Nbfun * i + j)\n"
      "                ixs = slice(base, base + nt)")),
    ("bilinear: trial-major layout with matching slots (old layout)",
     [(_B, "                ixs = slice(nt * (ubasis.Nbfun * i + j),\n"
       "                            nt * (ubasis.Nbfun * i + j + 1))",
       "                ixs = slice(nt * (vbasis.Nbfun * j + i),\n"
       "                            nt * (vbasis.Nbfun * j + i + 1))"),
      (_B, "data = np.zeros((vbasis.Nbfun, ubasis.Nbfun, nt), "
       "dtype=self.dtype)", "data = np.zeros((ubasis.Nbfun, vbasis.Nbfun, "
       "nt), dtype=self.dtype)"),
      (_B, "                    data[i, j, :] = self._kernel(",
       "                    data[j, i, :] = self._kernel("),
      (_B, "            data[i, j] = self._kernel(", "            data[j, i] "
       "= self._kernel(")]),
    ("linear: kernel written with a negative axis",
     (_L, "return np.sum(self.form(*v, w) * dx, axis=1)",
      "return np.sum(dx * self.form(*v, w), axis=-1)")),
    ("bilinear: flatten with the default order",
     (_B, "data = data.flatten('C')", "data = data.flatten()")),
]
