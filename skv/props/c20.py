"""C20 - integrand helpers equal their definitions (NumPy and JAX variants
agree); autodiff assembly bookkeeping (shared with C01)."""
from __future__ import annotations

import ast
from fractions import Fraction
from itertools import permutations
from typing import Any, Dict, List

from ..elements import as_poly, eq
from ..interp import Arr, Interp, Obj, Raised, Unsupported
from ..model import AnalysisError, Model, src
from ..poly import Poly, Rat

PID = "C20"
LEVEL = "proof"
TECHNIQUE = ("helper bodies interpreted on symbolic 2x2 / 3x3 tensors "
             "(entries are polynomial symbols, einsum expanded exactly) and "
             "compared with the definitions as polynomial / rational "
             "identities; sibling agreement of the NumPy and JAX variants; "
             "role/slot rules on NonlinearForm._assemble")
LEVEL_TEXT = (
    "Proof over a finite obligation set: every tensor-algebra helper of "
    "skfem.helpers and skfem.autodiff.helpers is evaluated symbolically on "
    "generic 2- and 3-dimensional tensors; since all helpers act pointwise on "
    "the trailing axes, an identity of polynomials in the entries decides "
    "them for every input of those shapes. The bookkeeping of the autodiff "
    "assembly (rows/cols/slots/sign) is decided structurally. Not decided: "
    "that jax.linearize is the derivative (trusted), Newton behaviour.")
LEVEL_TEXT += (
    " Added after the seeding phase: (R4) every operator method of "
    "JaxDiscreteField computes value(u) op c, reflected ones c op "
    "value(u), for plain and field operands (polynomial / rational "
    "identity).")
LEVEL_TEXT += (
    " Added in the hunting round (defects found by independent agents "
    "on the unchanged tree, DESIGN.md 9.4 / 9.6): "
    "div of H(div) fields in both variants, completeness of the "
    "operator set of the field wrapper, quotients stored into "
    "like-buffers.")
LEVEL_TEXT += (
    " Added in the third round (DESIGN.md 9.6): divergence of a "
    "matrix-valued field (spec div_matrix, both variants); the JAX eye "
    "with a field argument; the autodiff field wrapper defines __iter__ "
    "and opts out of NumPy's operator dispatch.")
LEVEL_NOTE = (
    "Trusted: numpy/jax.numpy einsum, array literals and pointwise "
    "arithmetic follow their documented semantics; jax.linearize / jvp are "
    "the derivative. Shapes covered: tensors whose leading extents are 2 or "
    "3 with arbitrary trailing axes.")
EXPLANATION = ("Symbolic evaluation of the helper functions on generic small "
               "tensors and comparison with the mathematical definitions.")
TRUSTED = ["numpy.einsum / jax.numpy.einsum semantics", "jax.linearize"]
ASSUMPTIONS = ["helpers act pointwise on trailing axes (they only use "
               "einsum with trailing ellipsis, indexing of leading axes and "
               "arithmetic)"]

MODS = {"np": "skfem.helpers", "jax": "skfem.autodiff.helpers"}


def T(name, *shape) -> Arr:
    def rec(prefix, dims):
        if not dims:
            return Poly.sym(f"{name}{''.join(map(str, prefix))}")
        return [rec(prefix + (k,), dims[1:]) for k in range(dims[0])]
    return Arr(rec((), shape))


def field(**kw):
    d = {"value": None, "grad": None, "div": None, "curl": None,
         "hess": None, "grad3": None, "grad4": None}
    d.update(kw)
    return Obj(None, d)


def leibniz(A: Arr, n: int):
    tot = Poly()
    for perm in permutations(range(n)):
        sign = 1
        for i in range(n):
            for j in range(i + 1, n):
                if perm[i] > perm[j]:
                    sign = -sign
        term = Poly.const(sign)
        for i in range(n):
            term = term * A[i, perm[i]]
        tot = tot + term
    return tot


def arr(f, *dims):
    def rec(prefix, ds):
        if not ds:
            return f(*prefix)
        return [rec(prefix + (k,), ds[1:]) for k in range(ds[0])]
    return Arr(rec((), dims))


def _sum(it):
    tot = Poly()
    for x in it:
        tot = tot + x
    return tot


def specs(n: int):
    """name -> (arguments, reference value) for leading extent n."""
    u, v, w = T("u", n), T("v", n), T("w", n)
    A, B = T("A", n, n), T("B", n, n)
    P, Q = T("P", n, n, n), T("Q", n, n, n)
    s = Poly.sym("s")
    G = T("G", n, n)
    R = range(n)
    out = {
        "dot": ([u, v], _sum(u[i] * v[i] for i in R)),
        "ddot": ([A, B], _sum(A[i, j] * B[i, j] for i in R for j in R)),
        "dddot": ([P, Q], _sum(P[i, j, k] * Q[i, j, k]
                               for i in R for j in R for k in R)),
        "prod": ([u, v], arr(lambda i, j: u[i] * v[j], n, n)),
        "prod3": ([u, v, w], arr(lambda i, j, k: u[i] * v[j] * w[k],
                                 n, n, n)),
        "mul": ([A, u], arr(lambda i: _sum(A[i, j] * u[j] for j in R), n)),
        "trace": ([A], _sum(A[i, i] for i in R)),
        "transpose": ([A], arr(lambda i, j: A[j, i], n, n)),
        "eye": ([s, n], arr(lambda i, j: s if i == j else Poly(), n, n)),
        "eye_field": ([field(value=s), n],
                      arr(lambda i, j: s if i == j else Poly(), n, n)),
        "det": ([A], leibniz(A, n)),
        "sym_grad": ([field(grad=G)],
                     arr(lambda i, j: (G[i, j] + G[j, i]) * Fraction(1, 2),
                         n, n)),
        "div": ([field(grad=G)], _sum(G[i, i] for i in R)),
        "div_hdiv": ([field(div=Poly.sym("divu"))], Poly.sym("divu")),
        # matrix-valued field: grad[i, j, k] = d u_ij / d x_k and
        # (div u)_i = sum_j d u_ij / d x_j - NOT the gradient of the trace
        "div_matrix": ([field(grad=T("H", n, n, n))],
                       arr(lambda i: _sum(T("H", n, n, n)[i, j, j]
                                          for j in R), n)),
        "grad": ([field(grad=G)], G),
        "identity": ([A], arr(lambda i, j: Poly.const(1 if i == j else 0),
                              n, n)),
    }
    out["mulmat"] = ([A, B], arr(lambda i, k: _sum(A[i, j] * B[j, k]
                                                   for j in R), n, n))
    if n == 2:
        g = T("g", 2)
        out["cross"] = ([u, v], u[0] * v[1] - u[1] * v[0])
        out["curl_scalar"] = ([field(grad=g)], Arr([g[1], -g[0]]))
        out["curl"] = ([field(grad=G)], G[1, 0] - G[0, 1])
    else:
        out["cross"] = ([u, v], Arr([u[1] * v[2] - u[2] * v[1],
                                     u[2] * v[0] - u[0] * v[2],
                                     u[0] * v[1] - u[1] * v[0]]))
        out["curl"] = ([field(grad=G)], Arr([G[2, 1] - G[1, 2],
                                             G[0, 2] - G[2, 0],
                                             G[1, 0] - G[0, 1]]))
    return out


# which function name implements which spec in which module
IMPL = {
    "dot": ("dot", ("np", "jax")), "ddot": ("ddot", ("np", "jax")),
    "dddot": ("dddot", ("np", "jax")), "prod": ("prod", ("np", "jax")),
    "prod3": ("prod", ("np", "jax")), "mul": ("mul", ("np", "jax")),
    "mulmat": ("mul", ("jax",)),
    "trace": ("trace", ("np", "jax")),
    "transpose": ("transpose", ("np", "jax")), "eye": ("eye", ("np", "jax")),
    "det": ("det", ("np", "jax")), "sym_grad": ("sym_grad", ("np", "jax")),
    "div": ("div", ("np", "jax")), "grad": ("grad", ("np", "jax")),
    "div_hdiv": ("div", ("np", "jax")),
    "div_matrix": ("div", ("np", "jax")),
    "eye_field": ("eye", ("jax",)),
    "cross": ("cross", ("np",)), "curl": ("curl", ("np",)),
    "curl_scalar": ("curl", ("np",)), "identity": ("identity", ("np",)),
}


def _call(model, modname, fname, args):
    fn = model.func(modname, fname)
    it = Interp(model)
    it.trailing = 2
    return it.call(fn, list(args), {})


def _field_operators(model, rep):
    """Operator protocol of the autodiff field wrapper: ``u op c`` must be
    value(u) op c and the reflected method ``c op u`` must be c op value(u),
    for a plain operand and for another field.  Each dunder is interpreted
    with symbolic values a (self) and b (other); for the non-commutative
    operators the two orders are different polynomials / rational
    functions, so an exchanged reflected method cannot pass."""
    R4 = "C20-R4"
    AD = "skfem.autodiff"
    cls = model.cls(AD, "JaxDiscreteField")
    a, b = Poly.sym("a"), Poly.sym("b")
    table = {
        "__add__": ("a + b", lambda: a + b),
        "__radd__": ("b + a", lambda: b + a),
        "__sub__": ("a - b", lambda: a - b),
        "__rsub__": ("b - a", lambda: b - a),
        "__mul__": ("a * b", lambda: a * b),
        "__rmul__": ("b * a", lambda: b * a),
        "__truediv__": ("a / b", lambda: ("div", a, b)),
        "__rtruediv__": ("b / a", lambda: ("div", b, a)),
        "__neg__": ("-a", lambda: -a),
    }

    def norm(v):
        """value as (numerator, denominator) polynomials"""
        if isinstance(v, tuple) and v and v[0] == "div":
            return v[1], v[2]
        if isinstance(v, Rat):
            return v.n, v.d
        return Poly.coerce(v), Poly.const(1)
    n = 0
    for name, fn in sorted(cls.methods.items()):
        if name not in table:
            continue
        text, want = table[name]
        wn, wd = norm(want())
        for kind in ("plain operand", "field operand"):
            n += 1
            self_obj = Obj(cls, {"value": a})
            other = b if kind == "plain operand" else Obj(cls, {"value": b})
            cons = f"JaxDiscreteField.{name}[{kind}]"
            args = [] if name == "__neg__" else [other]
            try:
                got = Interp(model).call(fn, args, {}, self_obj=self_obj)
            except Raised as e:
                rep.fail(R4, fn.path, fn.short(), cons,
                         f"raises {e.what}", fn.lineno)
                continue
            except Unsupported as e:
                raise AnalysisError(f"{cons}: outside grammar: {e}")
            try:
                gn, gd = norm(got)
                same = gn * wd == wn * gd
            except Exception:
                same = False
            if same:
                rep.ok(R4, cons, f"= {text} on the values")
            else:
                rep.fail(R4, fn.path, fn.short(), cons,
                         f"evaluates to {got} where {text} is meant (a = "
                         f"value of the field, b = the other operand): the "
                         f"integrand the user wrote and the residual / "
                         f"Jacobian that are differentiated are different "
                         f"functions", fn.lineno)
    # completeness: whatever can stand on the left of an operator can stand
    # on its right, and the unary minus exists - otherwise the same
    # integrand assembles as 'u + 1.0' and raises TypeError as '1.0 + u'
    for name in ("__add__", "__radd__", "__sub__", "__rsub__", "__mul__",
                 "__rmul__", "__truediv__", "__rtruediv__", "__neg__"):
        cons = f"JaxDiscreteField.{name}:defined"
        if name in cls.methods:
            rep.ok(R4, cons, "defined")
        else:
            rep.fail(R4, cls.path, "JaxDiscreteField", cons,
                     f"the field wrapper defines no {name}: an integrand "
                     f"written with the field on that side of the operator "
                     f"({table[name][0]}) raises TypeError although the "
                     f"mirrored spelling assembles and the NumPy forms "
                     f"accept both", cls.node.lineno)
    # the reflected operators are reached from a NumPy left operand
    # (np.sqrt(2.) * u, v.grad[0] * u - attributes of the test function are
    # plain arrays) only if the class opts out of NumPy's operator dispatch;
    # with __array__ defined and no __array_ufunc__ = None NumPy tries to
    # coerce the field and raises
    has_array = "__array__" in cls.methods
    opt_out = any(isinstance(n_, ast.Assign) and src(n_.targets[0]) ==
                  "__array_ufunc__" and isinstance(n_.value, ast.Constant)
                  and n_.value.value is None for n_ in cls.node.body)
    cons = "JaxDiscreteField:numpy-left-operand"
    if not has_array or opt_out:
        rep.ok(R4, cons, "NumPy defers to the reflected operators "
               "(__array_ufunc__ = None)")
    else:
        rep.fail(R4, cls.path, "JaxDiscreteField", cons,
                 "the class defines __array__ but not __array_ufunc__ = "
                 "None: for 'ndarray op field' NumPy does not return "
                 "NotImplemented but tries to coerce the field, so "
                 "np.sqrt(2.) * u * v raises ValueError while u * "
                 "np.sqrt(2.) * v assembles", cls.node.lineno)
    # a class with __getitem__ but no __iter__ is iterated by indexing until
    # IndexError - which jax arrays never raise (indices are clamped): the
    # documented idiom 'x, y = w.x' fails and f(*w.x) never terminates
    cons = "JaxDiscreteField:iteration-protocol"
    if "__getitem__" not in cls.methods or "__iter__" in cls.methods:
        rep.ok(R4, cons, "__iter__ is defined (iteration does not fall back "
               "to indexing until IndexError)")
    else:
        rep.fail(R4, cls.path, "JaxDiscreteField", cons,
                 "the class defines __getitem__ but not __iter__: "
                 "unpacking a field ('x, y = w.x', the idiom of "
                 "the documentation) raises and iterating over it "
                 "(f(*w.x), zip(u, v)) never terminates, because jax "
                 "clamps out-of-range indices instead of raising "
                 "IndexError", cls.node.lineno)
    if n < 12:
        raise AnalysisError(f"only {n} operator obligations on "
                            f"JaxDiscreteField")


REAL_DTYPES = {"float", "np.float64", "np.float32", "np.double",
               "jnp.float64", "jnp.float32", "'float64'", "'float32'",
               "'float'", "'d'", "np.float_", "np.single"}


def _hessian_flag(model, rep):
    """The energy branch (Jacobian = second derivative of form(u, w)) is
    selected by the *value* of the 'hessian' parameter: absent and False
    mean the ordinary (u, v, w) integrand.  The selecting test is evaluated
    for the three parameter dictionaries."""
    R3 = "C20-R3"
    fn = model.func("skfem.autodiff", "NonlinearForm._assemble")
    tests = [n.test for n in ast.walk(fn.node) if isinstance(n, ast.If)
             and any(isinstance(c, ast.Constant) and c.value == "hessian"
                     for c in ast.walk(n.test))]
    if not tests:
        raise AnalysisError("NonlinearForm._assemble: no test of the "
                            "'hessian' parameter found")
    cls = model.cls("skfem.autodiff", "NonlinearForm")
    for k, t in enumerate(tests):
        got = []
        for params in ({}, {"hessian": True}, {"hessian": False}):
            try:
                v = Interp(model).eval(
                    t, {"self": Obj(cls, {"params": dict(params)})},
                    fn.module)
            except Raised as e:
                v = f"raises {e.what}"
            except Unsupported as e:
                raise AnalysisError(f"hessian test outside grammar: {e}")
            got.append(v if isinstance(v, str) else bool(v))
        cons = f"NonlinearForm._assemble:hessian-flag[{k}]"
        if got == [False, True, False]:
            rep.ok(R3, cons, "energy branch iff params['hessian'] is true "
                             "(absent / True / False -> no / yes / no)")
        else:
            rep.fail(R3, fn.path, fn.short(), cons,
                     f"the test '{ast.unparse(t)}' selects the energy "
                     f"branch for (no parameter, hessian=True, "
                     f"hessian=False) = {got}; expected [False, True, "
                     f"False]: NonlinearForm(form, hessian=False) would "
                     f"call the (u, v, w) integrand as an energy "
                     f"functional", t.lineno)


def _helper_purity(model, rep):
    """An integrand evaluates several helpers on the same field; each equals
    its definition only if none of them writes into the arrays of the field.
    Alias / effect analysis (views through einsum, transpose, reshape,
    indexing; in-place operators; out=) of every helper."""
    from ..effects import Analyzer
    R6 = "C20-R6"
    an = Analyzer(model)
    n = 0
    for mod in ("skfem.helpers", "skfem.autodiff.helpers"):
        m = model.module(mod)
        for fn in m.functions.values():
            s_ = an.summarize(fn)
            mp = sorted(s_.mutated_params())
            n += 1
            cons = f"{mod.split('.', 1)[1]}.{fn.name}:operands"
            if mp:
                e = next(e for e in s_.effects
                         if any(r == "param:" + mp[0] for r in e.roots))
                rep.fail(R6, fn.path, fn.name, cons,
                         f"writes into storage of its argument "
                         f"{mp}: {e.detail}; helpers evaluated on the same "
                         f"field afterwards no longer equal their "
                         f"definitions", getattr(e.node, "lineno",
                                                 fn.lineno))
            else:
                rep.ok(R6, cons, "no store reaches the arguments",
                       sample=(fn.name == "sym_grad"))
    if n < 30:
        raise AnalysisError(f"only {n} helper functions analysed for "
                            f"effects")


def _helper_dtypes(model, rep):
    """Helpers act entrywise on whatever field their input is over (real or
    complex; float32 or float64).  A result buffer or conversion with a
    *fixed real dtype* drops the imaginary part of complex input (PML
    tensors, complex material data) with a warning at most.  Expected
    count: zero."""
    R5 = "C20-R5"
    n = 0
    for mod in ("skfem.helpers", "skfem.autodiff.helpers"):
        m = model.module(mod)
        for fn in model.all_functions():
            if fn.module is not m:
                continue
            n += 1
            for node in ast.walk(fn.node):
                if not isinstance(node, ast.Call):
                    continue
                kws = [k for k in node.keywords if k.arg == "dtype"]
                bad = None
                if kws and ast.unparse(kws[0].value) in REAL_DTYPES:
                    bad = f"dtype={ast.unparse(kws[0].value)}"
                if isinstance(node.func, ast.Attribute) and \
                        node.func.attr == "astype" and node.args and \
                        ast.unparse(node.args[0]) in REAL_DTYPES:
                    bad = f"astype({ast.unparse(node.args[0])})"
                if ast.unparse(node.func) in ("np.real", "jnp.real",
                                              "np.float64", "float"):
                    if node.args and not isinstance(node.args[0],
                                                    ast.Constant):
                        bad = ast.unparse(node.func) + "(...)"
                if bad:
                    rep.fail(R5, fn.path, fn.short(),
                             f"{mod.rsplit('.', 1)[0].split('.')[-1]}."
                             f"{fn.name}:{bad}",
                             f"'{ast.unparse(node)[:70]}' fixes a real "
                             f"dtype inside a helper: for complex-valued "
                             f"tensors the imaginary part of the result is "
                             f"dropped (the helper no longer computes its "
                             f"mathematical definition over the input's "
                             f"field)", node.lineno)
    # true division into a buffer made 'like' the (possibly integer) input
    for mod in ("skfem.helpers", "skfem.autodiff.helpers"):
        m = model.module(mod)
        for fn in model.all_functions():
            if fn.module is not m:
                continue
            like = {}
            for node in ast.walk(fn.node):
                if isinstance(node, ast.Assign) and len(node.targets) == 1 \
                        and isinstance(node.targets[0], ast.Name) and \
                        isinstance(node.value, ast.Call) and ast.unparse(
                            node.value.func).split(".")[-1] in (
                            "zeros_like", "empty_like", "ones_like") and \
                        not any(k.arg == "dtype"
                                for k in node.value.keywords):
                    like[node.targets[0].id] = node
            for node in ast.walk(fn.node):
                if isinstance(node, ast.Assign) and isinstance(
                        node.targets[0], ast.Subscript) and isinstance(
                        node.targets[0].value, ast.Name) and \
                        node.targets[0].value.id in like and any(
                        isinstance(x, ast.BinOp) and isinstance(x.op, ast.Div)
                        for x in ast.walk(node.value)):
                    buf = node.targets[0].value.id
                    rep.fail(R5, fn.path, fn.short(),
                             f"{mod.rsplit('.', 1)[0].split('.')[-1]}."
                             f"{fn.name}:{buf}:quotients-into-like-buffer",
                             f"'{ast.unparse(like[buf])}' takes the dtype "
                             f"of the input, then quotients are stored into "
                             f"it: for an integer tensor every entry of the "
                             f"result is truncated towards zero (inv of "
                             f"diag(2, 4) is the zero matrix)", node.lineno)
                    break
    rep.ok(R5, "helpers:dtype", f"{n} helper functions: results take the "
           f"dtype of their input (no fixed real dtype)")


def run(model: Model, rep, tier: str) -> None:
    rep.rule("C20-R1", "helper(result on generic n x n tensors) == its "
             "mathematical definition, as polynomial identity in the entries")
    rep.rule("C20-R2", "same-named helpers of skfem.helpers and "
             "skfem.autodiff.helpers return identical expressions")
    rep.rule("C20-R1-inv", "inv(A) * A == identity (rational functions, "
             "cross-multiplied) and uses the module's own det")
    rep.rule("C20-R3", "autodiff producer: Jacobian slot (direction j, test "
             "i) -> row DOFs of i, column DOFs of j, one dx and quadrature "
             "sum; residual negated")
    rep.rule("C20-R4", "operator methods of the autodiff field wrapper "
             "compute value(u) op c, reflected ones c op value(u)")
    _field_operators(model, rep)
    rep.rule("C20-R5", "helpers never fix a real dtype for their results")
    _helper_dtypes(model, rep)
    rep.rule("C20-R6", "helpers leave their operands untouched (a helper "
             "that updates a view of its argument changes what the next "
             "helper sees)")
    _helper_purity(model, rep)
    results: Dict[tuple, Any] = {}
    for n in (2, 3):
        sp = specs(n)
        for key, (args, want) in sorted(sp.items()):
            fname, variants = IMPL[key]
            if key == "eye_field":
                # the unknown itself: an instance of the autodiff wrapper
                args = [Obj(model.cls("skfem.autodiff", "JaxDiscreteField"),
                            dict(args[0].attrs)), args[1]]
            for var in variants:
                mod = MODS[var]
                fn = model.func(mod, fname)       # anchor must exist
                cons = f"{var}.{fname}[{key},n={n}]"
                try:
                    got = _call(model, mod, fname, args)
                except Raised as e:
                    rep.fail("C20-R1", fn.path, fname, cons,
                             f"raises {e.what} for admissible input of "
                             f"leading extent {n}", fn.lineno)
                    continue
                except Unsupported as e:
                    raise AnalysisError(f"{cons}: outside grammar: {e}")
                results[(key, n, var)] = got
                if eq(got, want):
                    rep.ok("C20-R1", cons, f"== definition "
                           f"({str(want)[:70]})",
                           sample=(key == "det" and n == 3))
                else:
                    rep.fail("C20-R1", fn.path, fname, cons,
                             f"returns {str(got)[:150]} but the definition "
                             f"gives {str(want)[:150]}", fn.lineno)
            if len(variants) == 2:
                a, b = results.get((key, n, "np")), \
                    results.get((key, n, "jax"))
                cons = f"{fname}[{key},n={n}]:np-vs-jax"
                if a is None or b is None:
                    continue
                if eq(a, b):
                    rep.ok("C20-R2", cons, "NumPy and JAX variants agree")
                else:
                    fn = model.func(MODS["jax"], fname)
                    rep.fail("C20-R2", fn.path, fname, cons,
                             "NumPy and JAX variants of the helper return "
                             "different expressions for the same input",
                             fn.lineno)
        # inverse
        A = T("A", n, n)
        fn = model.func(MODS["np"], "inv")
        cons = f"np.inv[n={n}]"
        try:
            invA = _call(model, MODS["np"], "inv", [A])
        except (Raised, Unsupported) as e:
            raise AnalysisError(f"{cons}: {e}")
        bad = []
        for i in range(n):
            for k in range(n):
                tot = Rat(Poly())
                for j in range(n):
                    tot = tot + Rat.coerce(invA[i, j]) * A[j, k]
                if not (tot == Poly.const(1 if i == k else 0)):
                    bad.append((i, k))
        if not bad:
            rep.ok("C20-R1-inv", cons, "inv(A) A == I entrywise")
        else:
            rep.fail("C20-R1-inv", fn.path, "inv", cons,
                     f"(inv(A) A)[{bad[0][0]},{bad[0][1]}] is not "
                     f"{1 if bad[0][0] == bad[0][1] else 0} "
                     f"({len(bad)} entries off)", fn.lineno)
    rep.require_min("C20-R1", 50)
    rep.require_min("C20-R2", 24)
    # C20-R3: autodiff assembly bookkeeping
    try:
        from .c01 import check_producer_autodiff
    except ImportError:
        rep.note("C20-R3 (NonlinearForm._assemble bookkeeping) is decided by "
                 "the C01 producer rules once that module is present")
    else:
        check_producer_autodiff(model, rep, "C20-R3")
    _hessian_flag(model, rep)


_H, _J = "skfem/helpers.py", "skfem/autodiff/helpers.py"
_AD = "skfem/autodiff/__init__.py"
MUTANTS = [
    ("divergence of a matrix field traced over the tensor indices",
     (_H, "            return np.einsum('ijj...->i...', u.grad)",
      "            return np.einsum('iij...->j...', u.grad)"), "C20-R1"),
    ("JAX divergence of a matrix field falls back to grad[0]",
     ("skfem/autodiff/helpers.py",
      "    if len(u.grad.shape) == 5:\n        # matrix-valued field: (div "
      "u)_i = d u_ij / d x_j\n        return jnp.einsum('ijj...->i...', "
      "u.grad)\n", ""), "C20-R1"),
    ("autodiff field wrapper loses its iteration protocol",
     (_AD, "    def __iter__(self):\n        return iter(self.value)\n\n",
      ""), "C20-R4"),
    ("autodiff field wrapper takes part in NumPy's operator dispatch",
     (_AD, "    __array_ufunc__ = None\n", "    pass\n"), "C20-R4"),
    ("inverse accumulated in a buffer of the input's dtype",
     (_H, "    invA = zeros_like(A, dtype=np.result_type(A, 1.))",
      "    invA = zeros_like(A)"), "C20-R5"),
    ("autodiff: energy branch selected by the presence of the flag",
     (_AD, "            if self.params.get('hessian', False):",
      "            if 'hessian' in self.params:"), "C20-R3"),
    ("symmetric gradient accumulated in the transposed view",
     ("skfem/helpers.py", "    return .5 * (u.grad + transpose(u.grad))",
      "    out = transpose(u.grad)\n    out += u.grad\n    out *= .5\n"
      "    return out"), "C20-R6"),
    ("numpy inv allocates a float64 result",
     ("skfem/helpers.py", "    invA = zeros_like(A, dtype=np.result_type(A, "
      "1.))\n", "    invA = zeros_like(A, dtype=np.float64)\n"), "C20-R5"),
    ("reflected division written like the direct one",
     (_AD, "            return other.value / self.value\n"
      "        return other / self.value",
      "            return self.value / other.value\n"
      "        return self.value / other"), "C20-R4"),
    ("reflected subtraction written like the direct one",
     (_AD, "            return other.value - self.value\n"
      "        return other - self.value",
      "            return self.value - other.value\n"
      "        return self.value - other"), "C20-R4"),
    ("product with a field takes the field object, not its value",
     (_AD, "            return self.value * other.value\n"
      "        return self.value * other\n\n    def __rmul__",
      "            return self.value * other.value\n"
      "        return self.value + other\n\n    def __rmul__"), "C20-R4"),
    ("jax det: doubled minus sign restored",
     (_J, "                - A[0, 1] * (A[1, 0] * A[2, 2]\n"
      "                             - A[1, 2] * A[2, 0])",
      "                - A[0, 1] * (A[1, 0] * A[2, 2] -\n"
      "                             - A[1, 2] * A[2, 0])"), "C20-R1"),
    ("numpy det: one term dropped",
     (_H, "        detA = A[0, 0] * A[1, 1] - A[1, 0] * A[0, 1]\n    return "
      "detA\n\n\ndef inv", "        detA = A[0, 0] * A[1, 1]\n    return "
      "detA\n\n\ndef inv"), "C20-R1"),
    ("numpy inv: sign of one adjugate entry",
     (_H, "        invA[0, 1] = -A[0, 1] / detA", "        invA[0, 1] = "
      "A[0, 1] / detA"), "C20-R1-inv"),
    ("numpy inv 3x3: wrong minor",
     (_H, "        invA[2, 1] = (A[0, 1] * A[2, 0] -\n"
      "                      A[0, 0] * A[2, 1]) / detA",
      "        invA[2, 1] = (A[0, 1] * A[2, 0] -\n"
      "                      A[0, 0] * A[1, 1]) / detA"), "C20-R1-inv"),
    ("cross product: component order",
     (_H, "            A[2] * B[0] - A[0] * B[2],",
      "            A[0] * B[2] - A[2] * B[0],"), "C20-R1"),
    ("mul contracts the first index (transpose)",
     (_H, "np.einsum('ij...,j...->i...', A, x)",
      "np.einsum('ji...,j...->i...', A, x)"), "C20-R1"),
    ("jax ddot signature differs from numpy",
     (_J, "jnp.einsum('ij...,ij...', u, v)", "jnp.einsum('ij...,ji...', u, "
      "v)"), "C20-R1"),
    ("sym_grad without the factor one half",
     (_H, "return .5 * (u.grad + transpose(u.grad))",
      "return (u.grad + transpose(u.grad))"), "C20-R1"),
    ("curl 3d: sign of the second component",
     (_H, "                u.grad[0, 2] - u.grad[2, 0],",
      "                u.grad[2, 0] - u.grad[0, 2],"), "C20-R1"),
    ("prod: outer product transposed",
     (_H, "np.einsum('i...,j...->ij...', u, v)",
      "np.einsum('i...,j...->ji...', u, v)"), "C20-R1"),
    ("jax transpose is the identity",
     (_J, "jnp.einsum('ij...->ji...', T)", "jnp.einsum('ij...->ij...', T)"),
     "C20-R1"),
    ("autodiff: rows follow the direction, columns the test function",
     ("skfem/autodiff/__init__.py",
      "                rows[ixs] = basis.element_dofs[i]\n"
      "                cols[ixs] = basis.element_dofs[j]",
      "                rows[ixs] = basis.element_dofs[j]\n"
      "                cols[ixs] = basis.element_dofs[i]"), "C20-R3"),
    ("autodiff: residual returned with the wrong sign",
     ("skfem/autodiff/__init__.py", "                -data1,",
      "                data1,"), "C20-R3"),
    ("autodiff: Jacobian slot stride off by one block",
     ("skfem/autodiff/__init__.py",
      "                ixs = slice(nt * (basis.Nbfun * i + j),\n"
      "                            nt * (basis.Nbfun * i + j + 1))",
      "                ixs = slice(nt * (basis.Nbfun * j + i),\n"
      "                            nt * (basis.Nbfun * j + i + 1))"),
     "C20-R3"),
    ("autodiff: derivative applied to the test function",
     ("skfem/autodiff/__init__.py",
      "                DFU = DF(tuple(JaxDiscreteField(*c.astuple)\n"
      "                               for c in basis.basis[j]))",
      "                DFU = DF(tuple(JaxDiscreteField(*c.astuple)\n"
      "                               for c in basis.basis[i]))"), "C20-R3"),
    ("eye: off-diagonal ones",
     (_H, "[[w if i == j else 0. * w for i in range(n)]",
      "[[w if i <= j else 0. * w for i in range(n)]"), "C20-R1"),
]
TWINS = [
    ("autodiff field wrapper without __len__ (iteration works through "
     "__iter__)",
     (_AD, "    def __len__(self):\n        return len(self.value)\n\n",
      "")),
    ("autodiff: energy flag read with a presence test and the value",
     (_AD, "            if self.params.get('hessian', False):",
      "            if 'hessian' in self.params and self.params['hessian']:")),
    ("symmetric gradient accumulated in a fresh array",
     ("skfem/helpers.py", "    return .5 * (u.grad + transpose(u.grad))",
      "    out = transpose(u.grad).copy()\n    out += u.grad\n"
      "    out *= .5\n    return out")),
    ("det 2x2 with commuted factors",
     (_H, "        detA = A[0, 0] * A[1, 1] - A[1, 0] * A[0, 1]\n    return "
      "detA\n\n\ndef inv", "        detA = A[1, 1] * A[0, 0] - A[0, 1] * "
      "A[1, 0]\n    return detA\n\n\ndef inv")),
    ("dot with renamed einsum index",
     (_H, "np.einsum('i...,i...', u, v)", "np.einsum('k...,k...', u, v)")),
    ("trace via explicit output",
     (_H, "return np.einsum('ii...', T)", "return np.einsum('ii...->...', "
      "T)")),
]
